"""Mutants (must be detected) and behaviour-preserving variants (must stay silent) for the checker self-test.
Each edit is (relative path, exact old text occurring once, new text)."""
PARSE = 'backends/libwayland_debug_output/parse.py'

SPECS = []


def M(prop, name, edits, rule=None, **kw):
    SPECS.append(dict(prop=prop, name=name, edits=edits, rule=rule, kind='mutant', **kw))


def V(prop, name, edits, **kw):
    SPECS.append(dict(prop=prop, name=name, edits=edits, kind='variant', **kw))


# ---- C01 -----------------------------------------------------------------------------------------
M('C01', 'c01-float-before-int', [(PARSE, "            int_re + '|' +\n            obj_re", "            float_re + '|' +\n            obj_re"),
                                  (PARSE, "            float_re + '|' +\n            array_re", "            int_re + '|' +\n            array_re")], 'C01')
M('C01', 'c01-obj-at-only', [(PARSE, r"obj_re = r'(?P<obj_type>\w+)[@#](?P<obj_id>\d+)'", r"obj_re = r'(?P<obj_type>\w+)@(?P<obj_id>\d+)'")], 'C01.1')
M('C01', 'c01-msg-at-only', [(PARSE, r"(?P<type>\w+)[@#](?P<id>\d+)\.", r"(?P<type>\w+)@(?P<id>\d+)\.")], 'C01.6')
M('C01', 'c01-no-negative-int', [(PARSE, r"int_re = r'(?P<int>-?\d+)'", r"int_re = r'(?P<int>\d+)'")], 'C01')
M('C01', 'c01-ts-dot-only', [(PARSE, r"(?P<timestamp>\d+[\.,]\d+)", r"(?P<timestamp>\d+\.\d+)")], 'C01.6')
M('C01', 'c01-float-no-comma', [(PARSE, r"-?\d+(?:[\.,]\d+)?", r"-?\d+(?:\.\d+)?")], 'C01.1')
M('C01', 'c01-no-queue', [(PARSE, "timestamp_regex + queue_re + conn_re + '  -> '", "timestamp_regex + conn_re + '  -> '")], 'C01.6')
M('C01', 'c01-conn-after-queue-swapped', [(PARSE, "timestamp_regex + queue_re + conn_re + ' ' + message_regex", "timestamp_regex + conn_re + queue_re + ' ' + message_regex")], 'C01')
M('C01', 'c01-sent-flag-swapped', [(PARSE, "    sent = True\n    match = p.out_msg_re.search(raw)\n    if not match:\n        sent = False",
                                    "    sent = False\n    match = p.out_msg_re.search(raw)\n    if not match:\n        sent = True")], 'C01')
M('C01', 'c01-in-before-out', [(PARSE, "    sent = True\n    match = p.out_msg_re.search(raw)\n    if not match:\n        sent = False\n        match = p.in_msg_re.search(raw)",
                                "    sent = False\n    match = p.in_msg_re.search(raw)\n    if not match:\n        sent = True\n        match = p.out_msg_re.search(raw)")], 'C01.7')
M('C01', 'c01-type-name-swapped', [(PARSE, "    type_name = match.group('type')\n", "    type_name = match.group('message')\n")], 'C01.11')
M('C01', 'c01-ms-not-scaled', [(PARSE, ".replace(',', '.')) / 1000.0", ".replace(',', '.'))")], 'C01.9')
M('C01', 'c01-new-id-not-new', [(PARSE, "int(match.group('new_id')), type_name), True)", "int(match.group('new_id')), type_name), False)")], 'C01')
M('C01', 'c01-obj-id-from-new', [(PARSE, "wl.UnresolvedObject(int(match.group('obj_id')), match.group('obj_type')), False)", "wl.UnresolvedObject(int(match.group('obj_id')) + 1, match.group('obj_type')), False)")], 'C01.3')
M('C01', 'c01-sep-comma-only', [(PARSE, "startswith(', ')", "startswith(',')")], 'C01.8')
M('C01', 'c01-skip-one', [(PARSE, "start = i + 2", "start = i + 1")], 'C01.8')
M('C01', 'c01-no-quote-skip', [(PARSE, "        if args_str[i] == '\"':\n            i = end_of_str(args_str, i)\n", "")], 'C01.8')
M('C01', 'c01-bad-group-name', [(PARSE, "wl.Arg.Fd(int(match.group('fd')))", "wl.Arg.Fd(int(match.group('fdnum')))")], 'C01')
M('C01', 'c01-str-truthiness-again', [(PARSE, "elif match.group('str') is not None:", "elif match.group('str'):")], 'C01.4')
M('C01', 'c01-array-bare-again', [(PARSE, r"array(?:\[\d+\])?", "array")], 'C01.1')
M('C01', 'c01-fd-before-check', [(PARSE, "        elif match.group('fd'):\n            return wl.Arg.Fd(int(match.group('fd')))\n        elif match.group('array'):\n            return wl.Arg.Array()",
                                  "        elif match.group('fd'):\n            return wl.Arg.Array()\n        elif match.group('array'):\n            return wl.Arg.Fd(int(match.group('fd')))")], 'C01')
M('C01', 'c01-nomatch-returns', [(PARSE, "    if not match:\n        raise RuntimeError(raw)", "    if not match:\n        raise RuntimeError('not a message')")], 'C01.10')
M('C01', 'c01-new-id-needs-type', [(PARSE, r"new id (?:(?P<new_type>\w+)|(?:\[unknown\]))[@#]", r"new id (?P<new_type>\w+)[@#]")], 'C01.1')
V('C01', 'c01v-match-renamed-local', [(PARSE, "    match = p.arg_re.match(value_str)\n    if match:", "    match = p.arg_re.match(value_str)\n    if match is not None:")])
V('C01', 'c01v-all-is-not-none', [(PARSE, "if match.group('int'):", "if match.group('int') is not None:")])
V('C01', 'c01v-sent-early-return', [(PARSE, "    if not match:\n        raise RuntimeError(raw)\n    abs_timestamp", "    if match is None:\n        raise RuntimeError(raw)\n    abs_timestamp")])
V('C01', 'c01v-times-0.001', [(PARSE, ".replace(',', '.')) / 1000.0", ".replace(',', '.')) * 0.001")])

# ---- C02 -----------------------------------------------------------------------------------------
CI = 'core/connection_impl.py'
OBJ = 'core/wl/object.py'
MSG = 'core/wl/message.py'
ARG = 'core/wl/arg.py'
M('C02', 'c02-generation-plus-one', [(CI, "generation = len(self.db[obj_id])\n", "generation = len(self.db[obj_id]) + 1\n")], 'C02.2')
M('C02', 'c02-generation-const', [(CI, "generation = len(self.db[obj_id])\n", "generation = 0\n")], 'C02.2')
M('C02', 'c02-lookup-first', [(OBJ, "conn.retrieve_object(self.id, -1, self.type)", "conn.retrieve_object(self.id, 0, self.type)")], 'C02.3')
M('C02', 'c02-delete-id-lookup-first', [(MSG, "conn.retrieve_object(first_arg.value, -1, None)", "conn.retrieve_object(first_arg.value, 0, None)")], 'C02.3')
M('C02', 'c02-reset-list', [(CI, "        else:\n            self.db[obj_id] = []\n        generation", "        self.db[obj_id] = []\n        generation")], 'C02.1')
M('C02', 'c02-prune-dead', [(CI, "                    last_obj.destroy(time)\n", "                    last_obj.destroy(time)\n                    self.db[obj_id].pop()\n")], 'C02.1')
M('C02', 'c02-insert-front', [(CI, "self.db[obj_id].append(obj)", "self.db[obj_id].insert(0, obj)")], 'C02')
M('C02', 'c02-set-type-unguarded', [(ARG, "            if not self.obj.resolved() and self.obj.type is None:\n                self.obj.type = new_type", "            if self.obj.type is None or not self.obj.resolved():\n                self.obj.type = new_type")], 'C02.5')
M('C02', 'c02-index-off-by-one', [(MSG, "arg.resolve(conn, self, i)", "arg.resolve(conn, self, i + 1)")], 'C02.6')
M('C02', 'c02-no-rebind', [(ARG, "                        logging.warning('Unable to resolve object argument ' + str(self) + ': ' + str(e))\n                self.obj = self.obj.resolve(conn)", "                        logging.warning('Unable to resolve object argument ' + str(self) + ': ' + str(e))\n                else:\n                    self.obj = self.obj.resolve(conn)")], 'C02.8')
M('C02', 'c02-retrieve-first', [(CI, "obj = obj_list[generation]", "obj = obj_list[0]")], 'C02.3')
M('C02', 'c02-label-plus-one', [(OBJ, "number_to_letter_id(self.generation, False)", "number_to_letter_id(self.generation + 1, False)")], 'C02.7')
M('C02', 'c02-bind-wrong-arg', [(MSG, "self.args[3].set_type(self.args[1].value)", "self.args[3].set_type(self.args[0].value)")], 'C02.5')
M('C02', 'c02-create-for-all-objects', [(ARG, "                if self.is_new:\n                    try:", "                if self.is_new or self.obj.type is not None:\n                    try:")], 'C02.4')
M('C02', 'c02-create-wrong-id', [(ARG, "conn.create_object(message.timestamp, message.obj, self.obj.id, self.obj.type)", "conn.create_object(message.timestamp, message.obj, message.obj.id, self.obj.type)")], 'C02.8')
M('C02', 'c02-retype-on-resolve', [(OBJ, "            assert isinstance(resolved, ObjectBase)\n", "            assert isinstance(resolved, ObjectBase)\n            if self.type is not None:\n                resolved.type = self.type\n")], 'C02.5')
M('C02', 'c02-resolve-args-first', [(MSG, "        if not self.obj.resolved():\n            self.obj = self.obj.resolve(conn)\n        if self.obj.type == 'wl_registry'", "        for i, arg in enumerate(self.args):\n            arg.resolve(conn, self, i)\n        if not self.obj.resolved():\n            self.obj = self.obj.resolve(conn)\n        if self.obj.type == 'wl_registry'")], 'C02.6')
M('C02', 'c02-db-escapes', [(CI, "    def wl_display(self) -> wl.ObjectBase:\n", "    def objects(self):\n        return self.db\n\n    def wl_display(self) -> wl.ObjectBase:\n")], 'C02.1')
M('C02', 'c02-seed-generation', [(CI, "wl.ResolvedObject(self, 0.0, None, 1, 0, 'wl_display')", "wl.ResolvedObject(self, 0.0, None, 1, 1, 'wl_display')")], 'C02.2')
V('C02', 'c02v-not-in-form', [(CI, "        else:\n            self.db[obj_id] = []\n        generation", "        if not obj_id in self.db:\n            self.db[obj_id] = []\n        generation")])
V('C02', 'c02v-inline-generation', [(CI, "        generation = len(self.db[obj_id])\n        obj = wl.ResolvedObject(self, time, parent, obj_id, generation, type_name)", "        obj = wl.ResolvedObject(self, time, parent, obj_id, len(self.db[obj_id]), type_name)")])
V('C02', 'c02v-keyword-args', [(CI, "wl.ResolvedObject(self, time, parent, obj_id, generation, type_name)", "wl.ResolvedObject(self, time, parent, obj_id=obj_id, generation=generation, type_name=type_name)")])
V('C02', 'c02v-rename-local', [(CI, "            last_obj = self.db[obj_id][-1]\n            if last_obj.alive:", "            prev = self.db[obj_id][-1]\n            last_obj = prev\n            if prev.alive:")])
V('C02', 'c02v-setdefault-free-early-return', [(ARG, "            if not self.obj.resolved():\n                if self.is_new:", "            if self.obj.resolved():\n                return\n            if True:\n                if self.is_new:")])

# ---- C03 -----------------------------------------------------------------------------------------
M('C03', 'c03-no-display-guard', [(MSG, "if self.obj == conn.wl_display() and self.name == 'delete_id' and len(self.args) > 0:", "if self.name == 'delete_id' and len(self.args) > 0:")], 'C03.2')
M('C03', 'c03-resurrect', [(OBJ, "    def lifespan(self)", "    def revive(self) -> None:\n        self.alive = True\n\n    def lifespan(self)")], 'C03.1')
M('C03', 'c03-lifespan-swapped', [(OBJ, "return self.destroy_time - self.create_time", "return self.create_time - self.destroy_time")], 'C03.6')
M('C03', 'c03-destroy-any-reuse', [(CI, "                elif last_obj.owned_by_server():", "                elif last_obj.owned_by_server() or type_name == last_obj.type:")], 'C03.2')
M('C03', 'c03-no-implicit-destroy', [(CI, "                    last_obj.destroy(time)\n", "                    pass\n")], 'C03')
M('C03', 'c03-server-range-gt', [(OBJ, "return self.id >= 0xff000000", "return self.id > 0xff000000")], 'C03.5')
M('C03', 'c03-server-range-wrong', [(OBJ, "return self.id >= 0xff000000", "return self.id >= 0xfe000000")], 'C03.5')
M('C03', 'c03-annotate-first-gen', [(MSG, "            self.destroyed_obj.destroy(self.timestamp)", "            conn.retrieve_object(first_arg.value, 0, None).destroy(self.timestamp)")], 'C03')
M('C03', 'c03-destroy-time-zero', [(MSG, "self.destroyed_obj.destroy(self.timestamp)", "self.destroyed_obj.destroy(0.0)")], 'C03.2')
M('C03', 'c03-annotation-always', [(MSG, "        destroyed = ''\n        if self.destroyed_obj:", "        destroyed = ''\n        if self.destroyed_obj or self.name == 'delete_id':")], 'C03.3')
M('C03', 'c03-destroy-keeps-alive-sometimes', [(OBJ, "        self.destroy_time = time\n        self.alive = False", "        self.destroy_time = time\n        if self.create_time is not None:\n            self.alive = False")], 'C03.1')
M('C03', 'c03-create-time-now', [(CI, "obj = wl.ResolvedObject(self, time, parent, obj_id, generation, type_name)", "obj = wl.ResolvedObject(self, self.open_time, parent, obj_id, generation, type_name)")], 'C03.6')
M('C03', 'c03-destroy-second-arg', [(MSG, "            first_arg = self.args[0]\n", "            first_arg = self.args[-1]\n")], 'C03.2')
M('C03', 'c03-destroyed-set-elsewhere', [(ARG, "                self.obj = self.obj.resolve(conn)\n", "                self.obj = self.obj.resolve(conn)\n                if not self.obj.alive:\n                    message.destroyed_obj = self.obj\n")], 'C03.3')
V('C03', 'c03v-flip-compare', [(OBJ, "return self.id >= 0xff000000", "return 0xff000000 <= self.id")])
V('C03', 'c03v-gt-minus-one', [(OBJ, "return self.id >= 0xff000000", "return self.id > 0xfeffffff")])
V('C03', 'c03v-nested-if', [(MSG, "if self.obj == conn.wl_display() and self.name == 'delete_id' and len(self.args) > 0:\n            first_arg = self.args[0]\n            assert isinstance(first_arg, Arg.Int)\n            self.destroyed_obj = conn.retrieve_object(first_arg.value, -1, None)\n            self.destroyed_obj.destroy(self.timestamp)",
   "if self.name == 'delete_id' and self.obj == conn.wl_display():\n            if len(self.args) > 0:\n                first_arg = self.args[0]\n                assert isinstance(first_arg, Arg.Int)\n                self.destroyed_obj = conn.retrieve_object(first_arg.value, -1, None)\n                self.destroyed_obj.destroy(self.timestamp)")])
V('C03', 'c03v-destroyed-is-not-none', [(MSG, "        destroyed = ''\n        if self.destroyed_obj:", "        destroyed = ''\n        if self.destroyed_obj is not None:")])

# ---- C04 -----------------------------------------------------------------------------------------
CMG = 'core/connection_manager.py'
LIG = 'core/letter_id_generator.py'
M('C04', 'c04-db-class-attr', [(CI, "class ConnectionImpl(Connection.Sink, Connection):\n", "class ConnectionImpl(Connection.Sink, Connection):\n    shared_db = {}\n"),
                               (CI, "        self.db = {1: [self.display]}", "        self.db = ConnectionImpl.shared_db\n        self.db[1] = [self.display]")], 'C04.1')
M('C04', 'c04-route-to-latest', [(CMG, "        connection = self.open_connections.get(connection_id)\n        assert connection, 'Message", "        connection = self.connection_list[-1] if self.connection_list else None\n        assert connection, 'Message")], 'C04.2')
M('C04', 'c04-no-close-on-reopen', [(CMG, "        self.close_connection(time, connection_id)\n        name =", "        name =")], 'C04.4')
M('C04', 'c04-reuse-connection-on-reopen', [(CMG, "        connection = ConnectionImpl(time, name, is_server)\n", "        connection = self.connection_list[-1] if self.connection_list else ConnectionImpl(time, name, is_server)\n")], 'C04')
M('C04', 'c04-name-post-increment', [(LIG, "        value = self.index\n        self.index += 1\n", "        self.index += 1\n        value = self.index\n")], 'C04.3')
M('C04', 'c04-name-skip', [(LIG, "        self.index += 1\n        return", "        self.index += 2\n        return")], 'C04.3')
M('C04', 'c04-closed-dropped-from-list', [(CMG, "            # Connection will still be in connection list\n", "            self.connection_list.remove(connection)\n")], 'C04.4')
M('C04', 'c04-close-keeps-registered', [(CMG, "            del self.open_connections[connection_id]\n", "")], 'C04')
M('C04', 'c04-parser-shared-known', [(PARSE, "class Parser:\n", "class Parser:\n    seen = set()\n"),
                                     (PARSE, "        self.known_connections: Set[str] = set()", "        self.known_connections: Set[str] = Parser.seen")], 'C04.1')
M('C04', 'c04-open-every-message', [(PARSE, "        if not conn_id in self.known_connections:\n            self.known_connections.add(conn_id)", "        if True:\n            self.known_connections.add(conn_id)")], 'C04.6')
M('C04', 'c04-forward-only-new', [(PARSE, "            self.sink.open_connection(self.last_time, conn_id, is_server)\n        self.sink.message(conn_id, msg)", "            self.sink.open_connection(self.last_time, conn_id, is_server)\n            self.sink.message(conn_id, msg)")], 'C04.6')
M('C04', 'c04-role-inverted', [(PARSE, "                is_server = not msg.sent", "                is_server = msg.sent")], 'C04.6')
M('C04', 'c04-cleanup-first-only', [(PARSE, "        for conn_id in self.known_connections:\n            self.sink.close_connection(self.last_time, conn_id)", "        for conn_id in self.known_connections:\n            self.sink.close_connection(self.last_time, conn_id)\n            break")], 'C04.6', accept_analysis_error=True)
M('C04', 'c04-no-cleanup', [(PARSE, "    parser.parse_all(input_file)\n    parser.cleanup()", "    parser.parse_all(input_file)")], 'C04.6')
M('C04', 'c04-global-last-obj', [(CI, "        generation = len(self.db[obj_id])\n", "        generation = len(self.db[obj_id])\n        wl.Message.last_created = obj_id\n")], 'C04.1')
M('C04', 'c04-mutable-default', [(CI, "    def create_object(self, time: float, parent: wl.ObjectBase, obj_id: int, type_name: str) -> wl.ObjectBase:", "    def create_object(self, time: float, parent: wl.ObjectBase, obj_id: int, type_name: str, seen=[]) -> wl.ObjectBase:")], 'C04.1')
M('C04', 'c04-close-twice', [(CMG, "            connection.close(time)\n", "            connection.close(time)\n            connection.close(time)\n")], 'C04')
V('C04', 'c04v-pop-form', [(CMG, "        connection = self.open_connections.get(connection_id)\n        if connection:\n            del self.open_connections[connection_id]\n", "        connection = self.open_connections.pop(connection_id, None)\n        if connection:\n")])
V('C04', 'c04v-in-form', [(PARSE, "        if not conn_id in self.known_connections:", "        if conn_id not in self.known_connections:")])
V('C04', 'c04v-early-return-style', [(CMG, "        connection = self.open_connections.get(connection_id)\n        if connection:\n            del self.open_connections[connection_id]\n            # Connection will still be in connection list\n            connection.close(time)",
                                       "        connection = self.open_connections.get(connection_id)\n        if not connection:\n            return\n        del self.open_connections[connection_id]\n        connection.close(time)")])

# ---- C06 -----------------------------------------------------------------------------------------
CTL = 'frontends/tui/controller.py'
MAT = 'core/matcher.py'
M('C06', 'c06-no-filter', [(CTL, "            if self.display_matcher.matches(message):\n                self._show_message(message)", "            if True:\n                self._show_message(message)")], 'C06.2')
M('C06', 'c06-filter-inverted', [(CTL, "            if self.display_matcher.matches(message):\n                self._show_message(message)", "            if not self.display_matcher.matches(message):\n                self._show_message(message)")], 'C06.2')
M('C06', 'c06-ignore-selection', [(CTL, "        if self.current_connection is None or connection == self.current_connection:\n            if self.display_matcher", "        if True:\n            if self.display_matcher")], 'C06.2')
M('C06', 'c06-selection-inverted', [(CTL, "or connection == self.current_connection:\n            if self.display_matcher", "or connection != self.current_connection:\n            if self.display_matcher")], 'C06.2')
M('C06', 'c06-record-only-shown', [(CTL, "        self.all_messages.append(message)\n        if self.current_connection is None or connection == self.current_connection:\n            if self.display_matcher.matches(message):\n                self._show_message(message)",
                                     "        if self.current_connection is None or connection == self.current_connection:\n            if self.display_matcher.matches(message):\n                self.all_messages.append(message)\n                self._show_message(message)")], 'C06.1')
M('C06', 'c06-show-needs-stop-too', [(CTL, "            if self.display_matcher.matches(message):\n                self._show_message(message)", "            if self.display_matcher.matches(message) and not self.stop_matcher.matches(message):\n                self._show_message(message)")], 'C06.2')
M('C06', 'c06-filter-replays', [(CTL, "            self.out.show('Only showing messages that match ' + str(self.display_matcher))", "            self.out.show('Only showing messages that match ' + str(self.display_matcher))\n            self.show_messages(self.current_connection, self.display_matcher, None)")], 'C06.4')
M('C06', 'c06-filter-clears-record', [(CTL, "            self.display_matcher = self.parse_and_join(arg, self.display_matcher)\n", "            self.display_matcher = self.parse_and_join(arg, self.display_matcher)\n            self.all_messages.clear()\n")], 'C06')
M('C06', 'c06-double-listener', [(CTL, "        self.last_shown_timestamp: Optional[float] = None\n        self.ui_state_listener", "        self.last_shown_timestamp: Optional[float] = None\n        for c in connection_list.connections():\n            c.add_connection_listener(self)\n        self.ui_state_listener")], 'C06.3')
M('C06', 'c06-notify-before-record', [(CI, "        self.message_list.append(message)\n        message.resolve(self)\n        self.listener.connection_got_new_message(self, message)", "        message.resolve(self)\n        self.listener.connection_got_new_message(self, message)\n        self.message_list.append(message)")], 'C06.1')
M('C06', 'c06-matcher-caches', [(MAT, "    def matches(self, arg: wl.Arg.Base) -> bool:\n        return isinstance(arg, wl.Arg.String) and self.wrapped.matches(arg.value)", "    def matches(self, arg: wl.Arg.Base) -> bool:\n        arg.name = arg.name or 'str'\n        return isinstance(arg, wl.Arg.String) and self.wrapped.matches(arg.value)")], 'C06.5')
M('C06', 'c06-matches-wrong-message', [(CTL, "            if self.display_matcher.matches(message):\n                self._show_message(message)", "            if self.display_matcher.matches(self.all_messages[0]):\n                self._show_message(message)")], 'C06.2')
M('C06', 'c06-show-previous', [(CTL, "            if self.display_matcher.matches(message):\n                self._show_message(message)", "            if self.display_matcher.matches(message):\n                self._show_message(self.all_messages[0])")], 'C06.3')
M('C06', 'c06-show-twice-direct', [(CTL, "        self.last_shown_timestamp = message.timestamp\n        message.show(self.out)", "        self.last_shown_timestamp = message.timestamp\n        message.show(self.out)\n        if message.destroyed_obj:\n            message.show(self.out)")], 'C06.3')
V('C06', 'c06v-early-return', [(CTL, "        if self.current_connection is None or connection == self.current_connection:\n            if self.display_matcher.matches(message):\n                self._show_message(message)\n            if self.stop_matcher.matches(message):\n                self.out.show(color(alert_color, '    Stopped at ') + str(message).strip())\n                self.ui_state_listener.pause_requested()",
                                 "        if self.current_connection is not None and connection != self.current_connection:\n            return\n        if self.display_matcher.matches(message):\n            self._show_message(message)\n        if self.stop_matcher.matches(message):\n            self.out.show(color(alert_color, '    Stopped at ') + str(message).strip())\n            self.ui_state_listener.pause_requested()")])
V('C06', 'c06v-hoisted-temp', [(CTL, "            if self.display_matcher.matches(message):\n                self._show_message(message)", "            visible = self.display_matcher.matches(message)\n            if visible:\n                self._show_message(message)")])

# ---- C10 -----------------------------------------------------------------------------------------
PLG = 'backends/gdb_plugin/plugin.py'
TUI = 'frontends/tui/terminal_ui.py'
PUSF = 'core/persistent_ui_state.py'
M('C10', 'c10-stop-always-true', [(PLG, "        self.plugin.process_message(connection_id, message)\n        return self.plugin.paused()", "        self.plugin.process_message(connection_id, message)\n        return True")], 'C10.1')
M('C10', 'c10-stop-before-process', [(PLG, "        self.plugin.process_message(connection_id, message)\n        return self.plugin.paused()", "        halted = self.plugin.paused()\n        self.plugin.process_message(connection_id, message)\n        return halted")], 'C10.1')
M('C10', 'c10-no-flag-clear', [(PLG, "        if self.state.paused():\n            self.state.resume_requested()\n", "")], 'C10.2')
M('C10', 'c10-break-ignores-selection', [(CTL, "            if self.stop_matcher.matches(message):\n                self.out.show(color(alert_color, '    Stopped at ')", "        if True:\n            if self.stop_matcher.matches(message):\n                self.out.show(color(alert_color, '    Stopped at ')")], 'C10.3')
M('C10', 'c10-break-uses-filter', [(CTL, "            if self.stop_matcher.matches(message):", "            if self.display_matcher.matches(message):")], 'C10.3')
M('C10', 'c10-break-needs-shown', [(CTL, "            if self.stop_matcher.matches(message):", "            if self.stop_matcher.matches(message) and self.display_matcher.matches(message):")], 'C10.3')
M('C10', 'c10-filter-resumes', [(CTL, "            self.out.show('Only showing messages that match ' + str(self.display_matcher))", "            self.out.show('Only showing messages that match ' + str(self.display_matcher))\n            self.ui_state_listener.resume_requested()")], 'C10.5')
M('C10', 'c10-continue-when-paused', [(PLG, "        elif not self.state.paused():\n            gdb.execute('continue')", "        else:\n            gdb.execute('continue')")], 'C10.4')
M('C10', 'c10-quit-and-paused-swapped', [(PLG, "        if self.state.should_quit():\n            gdb.execute('quit')\n        elif not self.state.paused():", "        if not self.state.paused():\n            gdb.execute('quit')\n        elif self.state.should_quit():")], 'C10.4')
M('C10', 'c10-no-pause-before-command', [(PLG, "        self.state.pause_requested()\n        self.command_sink.process_command(command)", "        self.command_sink.process_command(command)")], 'C10.4')
M('C10', 'c10-pause-toggles', [(PUSF, "        self._paused = True\n", "        self._paused = not self._paused\n")], 'C10.6')
M('C10', 'c10-quit-also-unpauses', [(PUSF, "        self._should_quit = True\n", "        self._should_quit = True\n        self._paused = False\n")], 'C10.6')
M('C10', 'c10-loop-ignores-quit', [(TUI, "while self.state.paused() and not self.state.should_quit():", "while self.state.paused():")], 'C10.7')
M('C10', 'c10-loop-or', [(TUI, "while self.state.paused() and not self.state.should_quit():", "while self.state.paused() or not self.state.should_quit():")], 'C10.7')
M('C10', 'c10-resume-quits', [(CTL, "        logging.info('Resuming…')\n        self.ui_state_listener.resume_requested()", "        logging.info('Resuming…')\n        self.ui_state_listener.quit_requested()")], 'C10.5')
M('C10', 'c10-stop-notice-pauses-not', [(CTL, "                self.ui_state_listener.pause_requested()\n", "                pass\n")], 'C10.3')
M('C10', 'c10-state-not-subscribed', [(PUSF, "        state.add_ui_state_listener(self)\n", "")], 'C10.6')
M('C10', 'c10-destroy-bp-halts', [(PLG, "        self.plugin.close_connection(connection_id)\n        return False", "        self.plugin.close_connection(connection_id)\n        return self.plugin.paused()")], 'C10.1')
V('C10', 'c10v-invoke-nested', [(PLG, "        if self.state.should_quit():\n            gdb.execute('quit')\n        elif not self.state.paused():\n            gdb.execute('continue')", "        if not self.state.should_quit():\n            if not self.state.paused():\n                gdb.execute('continue')\n        else:\n            gdb.execute('quit')")])
V('C10', 'c10v-stop-temp', [(PLG, "        self.plugin.process_message(connection_id, message)\n        return self.plugin.paused()", "        self.plugin.process_message(connection_id, message)\n        halted = self.plugin.paused()\n        return halted")])

# ---- C11 -----------------------------------------------------------------------------------------
M('C11', 'c11-newest-first', [(CTL, "        return (list(reversed(acc)), len(acc)", "        return (list(acc), len(acc)")], 'C11.3')
M('C11', 'c11-cap-keeps-first', [(CTL, "        for message in reversed(messages):", "        for message in messages:"), (CTL, "        return (list(reversed(acc)), len(acc)", "        return (list(acc), len(acc)")], 'C11.3')
M('C11', 'c11-cap-off-by-one', [(CTL, "if cap and len(acc) >= cap:", "if cap and len(acc) > cap:")], 'C11.4')
V('C11', 'c11v-cap-zero-implicit', [(CTL, "        if cap == 0:\n            cap = None\n", "")])
# (cap 0 is outside the property's quantifier N >= 1: no mutant for it)
M('C11', 'c11-join-with-filter', [(CTL, "            m = self.parse_and_join(arg, None)", "            m = self.parse_and_join(arg, self.display_matcher)")], 'C11.6')
M('C11', 'c11-list-sets-filter', [(CTL, "            m = self.parse_and_join(arg, None)\n", "            m = self.parse_and_join(arg, None)\n            self.display_matcher = m\n")], 'C11.1')
M('C11', 'c11-count-from-all', [(CTL, "len(messages) - len(acc) - didnt_match)", "len(self.all_messages) - len(acc) - didnt_match)")], 'C11.5')
M('C11', 'c11-not-checked-wrong', [(CTL, "len(messages) - len(acc) - didnt_match)", "len(messages) - didnt_match)")], 'C11.5')
M('C11', 'c11-didnt-counts-all', [(CTL, "                if cap and len(acc) >= cap:\n                    break\n            else:\n                didnt_match += 1", "                if cap and len(acc) >= cap:\n                    break\n            didnt_match += 1")], 'C11.5')
M('C11', 'c11-ignore-selection', [(CTL, "        if connection:\n            messages = connection.messages()\n        else:\n            messages = tuple(self.all_messages)", "        messages = tuple(self.all_messages)")], 'C11.2')
M('C11', 'c11-selection-not-passed', [(CTL, "        self.show_messages(self.current_connection, m, cap)", "        self.show_messages(None, m, cap)")], 'C11.2')
M('C11', 'c11-counts-swapped-in-summary', [(CTL, "matching, matched, didnt_match, not_searched = self._get_matching(connection, matcher, cap)", "matching, didnt_match, matched, not_searched = self._get_matching(connection, matcher, cap)")], 'C11.5')
M('C11', 'c11-list-prunes-record', [(CTL, "        for message in reversed(messages):\n            if matcher.matches(message):", "        for message in reversed(messages):\n            if len(self.all_messages) > 100000:\n                self.all_messages.pop(0)\n            if matcher.matches(message):")], 'C11.1')
M('C11', 'c11-matched-count-cap', [(CTL, "        return (list(reversed(acc)), len(acc), didnt_match", "        return (list(reversed(acc)), cap or len(acc), didnt_match")], 'C11.5')
M('C11', 'c11-break-on-nonmatch', [(CTL, "            else:\n                didnt_match += 1\n        return (list", "            else:\n                didnt_match += 1\n                if cap and didnt_match >= cap:\n                    break\n        return (list")], 'C11')
V('C11', 'c11v-slice-reverse', [(CTL, "        return (list(reversed(acc)), len(acc)", "        return (acc[::-1], len(acc)")])
V('C11', 'c11v-cap-is-none', [(CTL, "if cap and len(acc) >= cap:", "if cap is not None and len(acc) >= cap:")])
V('C11', 'c11v-connection-is-not-none', [(CTL, "        if connection:\n            messages = connection.messages()", "        if connection is not None:\n            messages = connection.messages()")])

# ---- C16 -----------------------------------------------------------------------------------------
M('C16', 'c16-no-ms-scale', [(PARSE, ".replace(',', '.')) / 1000.0", ".replace(',', '.')) / 100.0")], 'C16.1')
M('C16', 'c16-ge-threshold', [(CTL, "        if delta > 1.0:", "        if delta >= 1.0:")], 'C16.3')
M('C16', 'c16-threshold-2', [(CTL, "        if delta > 1.0:", "        if delta > 2.0:")], 'C16.3')
M('C16', 'c16-marker-only-on-sep', [(CTL, "            self.out.show(color(timestamp_color, '    ───┤ {:0.4f}s ├───'.format(delta)))\n        self.last_shown_timestamp = message.timestamp", "            self.out.show(color(timestamp_color, '    ───┤ {:0.4f}s ├───'.format(delta)))\n            self.last_shown_timestamp = message.timestamp\n        if self.last_shown_timestamp is None:\n            self.last_shown_timestamp = message.timestamp")], 'C16.3')
M('C16', 'c16-absolute-time', [(MSG, "        self.timestamp = abs_time - Message.base_time", "        self.timestamp = abs_time")], 'C16.2')
M('C16', 'c16-origin-every-message', [(MSG, "        if Message.base_time is None:\n            Message.base_time = abs_time", "        if Message.base_time is None or abs_time < Message.base_time:\n            Message.base_time = abs_time")], 'C16.2')
M('C16', 'c16-origin-zero', [(MSG, "    base_time = None\n", "    base_time = 0.0\n")], 'C16.2')
M('C16', 'c16-marker-in-live-view', [(CTL, "        self.all_messages.append(message)\n", "        self.all_messages.append(message)\n        self.last_shown_timestamp = message.timestamp\n")], 'C16.3')
M('C16', 'c16-no-reset-after-listing', [(CTL, "                ')')\n            self.last_shown_timestamp = None", "                ')')")], 'C16.3')
M('C16', 'c16-show-abs-time', [(MSG, "'{:7.4f}'.format(self.timestamp)", "'{:7.4f}'.format(self.timestamp + Message.base_time)")], 'C16.4')
M('C16', 'c16-delta-abs', [(CTL, "        delta = message.timestamp - self.last_shown_timestamp if", "        delta = abs(message.timestamp - self.last_shown_timestamp) if")], 'C16.3')
M('C16', 'c16-sep-after-message', [(CTL, "        self.last_shown_timestamp = message.timestamp\n        message.show(self.out)", "        message.show(self.out)\n        if delta > 1.0:\n            self.out.show('gap')\n        self.last_shown_timestamp = message.timestamp"), (CTL, "        if delta > 1.0:\n            self.out.show(color(timestamp_color, '    ───┤ {:0.4f}s ├───'.format(delta)))\n", "")], 'C16.3')
V('C16', 'c16v-flipped', [(CTL, "        if delta > 1.0:", "        if 1.0 < delta:")])
V('C16', 'c16v-explicit-if', [(CTL, "        delta = message.timestamp - self.last_shown_timestamp if self.last_shown_timestamp is not None else 0\n", "        if self.last_shown_timestamp is None:\n            delta = 0.0\n        else:\n            delta = message.timestamp - self.last_shown_timestamp\n")])

# ---- C12 -----------------------------------------------------------------------------------------
M('C12', 'c12-error-resets', [(CTL, "            return old if old is not None else matcher.never", "            return matcher.never")], 'C12.1')
M('C12', 'c12-error-silent', [(CTL, "            self.out.error('Failed to parse \"' + new_unparsed + '\":\\n    ' + str(e))\n            return old if", "            return old if")], 'C12.1')
M('C12', 'c12-cross-wired', [(CTL, "            self.stop_matcher = self.parse_and_join(arg, self.stop_matcher)", "            self.stop_matcher = self.parse_and_join(arg, self.display_matcher)")], 'C12.2')
M('C12', 'c12-filter-replaces', [(CTL, "            self.display_matcher = self.parse_and_join(arg, self.display_matcher)", "            self.display_matcher = self.parse_and_join(arg, None)")], 'C12.2')
M('C12', 'c12-not-simplified', [(CTL, "                return matcher.join(parsed, old).simplify()", "                return matcher.join(parsed, old)")], 'C12')
M('C12', 'c12-join-drops-negative', [(MAT, "    new_list.negative += old_list.negative\n", "")], 'C12.4')
M('C12', 'c12-join-swaps-fields', [(MAT, "    new_list.positive += old_list.positive\n    new_list.negative += old_list.negative", "    new_list.positive += old_list.negative\n    new_list.negative += old_list.positive")], 'C12.4')
M('C12', 'c12-join-only-old-const', [(MAT, "    if isinstance(old, AlwaysMatcher) or isinstance(new, AlwaysMatcher):\n        return new", "    if isinstance(old, AlwaysMatcher):\n        return new")], 'C12.4')
M('C12', 'c12-join-returns-old-on-star', [(MAT, "    if isinstance(old, AlwaysMatcher) or isinstance(new, AlwaysMatcher):\n        return new", "    if isinstance(old, AlwaysMatcher):\n        return new\n    if isinstance(new, AlwaysMatcher):\n        return old")], 'C12.4')
M('C12', 'c12-list-needs-all', [(MAT, "        result = False\n        for matcher in self.positive:\n            if matcher.matches(message):\n                result = True\n                break", "        result = len(self.positive) > 0\n        for matcher in self.positive:\n            if not matcher.matches(message):\n                result = False\n                break")], 'C12.5')
M('C12', 'c12-list-ignores-negative', [(MAT, "        if result:\n            for matcher in self.negative:\n                if matcher.matches(message):\n                    result = False\n                    break\n        return result\n\n    def simplify(self) -> Matcher[T]:", "        return result\n\n    def simplify(self) -> Matcher[T]:")], 'C12.5')
M('C12', 'c12-list-first-negative-only', [(MAT, "                if matcher.matches(message):\n                    result = False\n                    break\n        return result\n\n    def simplify(self) -> Matcher[T]:", "                if matcher.matches(message):\n                    result = False\n                break\n        return result\n\n    def simplify(self) -> Matcher[T]:")], 'C12.5')
M('C12', 'c12-initial-unsimplified', [("frontends/tui/arguments.py", "            filter_matcher = matcher.parse(args.f).simplify()", "            filter_matcher = matcher.parse(args.f)")], 'C12.3')
M('C12', 'c12-controller-matchers-swapped', [('main.py', "Controller(output, connection_list, args.filter_matcher, args.stop_matcher)", "Controller(output, connection_list, args.stop_matcher, args.filter_matcher)")], 'C12.3')
M('C12', 'c12-as-list-wraps-negative', [(MAT, "        return MatcherList([matcher], [])", "        return MatcherList([], [matcher])")], 'C12.4')
V('C12', 'c12v-old-truthiness-explicit', [(CTL, "            return old if old is not None else matcher.never", "            if old is None:\n                return matcher.never\n            return old")])

# ---- C07 -----------------------------------------------------------------------------------------
PRO = 'core/wl/protocol.py'
M('C07', 'c07-version-flipped', [(PRO, "if not existing or existing.version < interface.version:", "if not existing or existing.version > interface.version:")], 'C07.3')
M('C07', 'c07-last-loaded-wins', [(PRO, "if not existing or existing.version < interface.version:", "if True:")], 'C07.3')
M('C07', 'c07-first-loaded-wins', [(PRO, "if not existing or existing.version < interface.version:", "if not existing:")], 'C07.3')
M('C07', 'c07-index-plus-one', [(PRO, "    arg = arg_list[arg_index]\n", "    arg = arg_list[arg_index - 1]\n")], 'C07.4')
M('C07', 'c07-index-off-in-arg', [(ARG, "self.name = protocol.get_arg_name(message.obj.type, message.name, index)", "self.name = protocol.get_arg_name(message.obj.type, message.name, index + 1)")], 'C07.4')
M('C07', 'c07-no-super-in-null', [(ARG, "            super().resolve(conn, message, index)\n            if self.type is None and message.obj.type is not None:", "            if self.type is None and message.obj.type is not None:")], 'C07.5')
M('C07', 'c07-bitfield-eq', [(PRO, "            if entry.value & arg_value:", "            if entry.value == arg_value:")], 'C07.6')
M('C07', 'c07-enum-intersects', [(PRO, "            if entry.value == arg_value:\n                entries.append(entry.name)\n    if entries", "            if entry.value & arg_value:\n                entries.append(entry.name)\n    if entries")], 'C07.6')
M('C07', 'c07-fallbacks-swapped', [(PRO, "    elif enum.bitfield:\n        return ['(none)']\n    else:\n        return ['INVALID ENUM VALUE']", "    elif not enum.bitfield:\n        return ['(none)']\n    else:\n        return ['INVALID ENUM VALUE']")], 'C07.6')
M('C07', 'c07-bad-hand-tag', [(PRO, "interfaces['xdg_toplevel'].messages['resize'].args['edges'].enum = 'resize_edge'", "interfaces['xdg_toplevel'].messages['resize'].args['edge'].enum = 'resize_edge'")], 'C07.1')
M('C07', 'c07-bad-hand-enum', [(PRO, "interfaces['zwlr_foreign_toplevel_handle_v1'].messages['state'].args['state'].enum = 'state'", "interfaces['zwlr_foreign_toplevel_handle_v1'].messages['state'].args['state'].enum = 'states'")], 'C07.1')
M('C07', 'c07-unknown-iface-raises', [(PRO, "    if not interface:\n        return None\n    message = interface.messages.get(message_name)", "    if not interface:\n        raise RuntimeError('unknown interface ' + interface_name)\n    message = interface.messages.get(message_name)")], 'C07.7')
M('C07', 'c07-arg-fields-swapped', [(PRO, "        arg.attrib['name'],\n        arg.attrib['type'],", "        arg.attrib['type'],\n        arg.attrib['name'],")], 'C07.8')
M('C07', 'c07-event-tag-typo', [(PRO, "        if node.tag == 'event' or node.tag == 'request':", "        if node.tag == 'events' or node.tag == 'request':")], 'C07.2')
M('C07', 'c07-attr-typo', [(PRO, "arg.attrib.get('interface', None)", "arg.attrib.get('iface', None)")], 'C07')
M('C07', 'c07-label-value-not-name', [(PRO, "            if entry.value == arg_value:\n                entries.append(entry.name)", "            if entry.value == arg_value:\n                entries.append(str(entry.value))")], 'C07.6')
M('C07', 'c07-enum-of-other-arg', [(PRO, "    arg = get_arg(interface_name, message_name, arg_index)\n    if arg is None or arg.enum is None: return []", "    arg = get_arg(interface_name, message_name, 0)\n    if arg is None or arg.enum is None: return []")], 'C07.4')
M('C07', 'c07-keyed-by-type', [(PRO, "            args[arg.name] = arg", "            args[arg.type] = arg")], 'C07.8')
M('C07', 'c07-is-event-inverted', [(PRO, "message.tag == 'event', args)", "message.tag == 'request', args)")], 'C07.8')
M('C07', 'c07-nil-type-unguarded', [(ARG, "            if self.type is None and message.obj.type is not None:\n                self.type = protocol.look_up_interface", "            if self.type is None:\n                self.type = protocol.look_up_interface")], 'C07.7')
M('C07', 'c07-bitfield-yes', [(PRO, "    if bitfield_str == 'true':", "    if bitfield_str == 'yes':")], 'C07.2')
V('C07', 'c07v-version-flipped-operands', [(PRO, "if not existing or existing.version < interface.version:", "if existing is None or interface.version > existing.version:")])
V('C07', 'c07v-inline-arg-list', [(PRO, "    arg = arg_list[arg_index]\n    return arg", "    return arg_list[arg_index]")])
V('C07', 'c07v-enum-nested', [(PRO, "        if enum.bitfield:\n            if entry.value & arg_value:\n                entries.append(entry.name)\n        else:\n            if entry.value == arg_value:\n                entries.append(entry.name)", "        if not enum.bitfield:\n            if entry.value == arg_value:\n                entries.append(entry.name)\n        elif entry.value & arg_value:\n            entries.append(entry.name)")])

# ---- C08 -----------------------------------------------------------------------------------------
OUT = 'core/output/output.py'
STR = 'core/output/stream.py'
M('C08', 'c08-double-emit', [(PARSE, "                if parse:\n                    self.handle_message(conn_id, msg)", "                if parse:\n                    self.handle_message(conn_id, msg)\n                    if msg.name == 'error':\n                        self.out.unprocessed(line)")], 'C08.1')
M('C08', 'c08-break-on-error', [(PARSE, "            except RuntimeError as e:\n                self.out.unprocessed(str(e))", "            except RuntimeError as e:\n                self.out.unprocessed(str(e))\n                if not line:\n                    break")], 'C08.3')
M('C08', 'c08-blank-line-ends', [(PARSE, "            if line == '':\n                break\n            line = line.strip() # be sure to strip after the empty check", "            line = line.strip()\n            if line == '':\n                break")], 'C08.3')
M('C08', 'c08-read-ahead', [(PARSE, "            line = line.strip() # be sure to strip after the empty check", "            line = line.strip() # be sure to strip after the empty check\n            if line.endswith('\\\\'):\n                line += input_file.readline().strip()")], 'C08.1')
M('C08', 'c08-passthrough-fixed-text', [(PARSE, "        raise RuntimeError(raw)", "        raise RuntimeError('not a wayland message')")], 'C08.2')
M('C08', 'c08-passthrough-repr', [(PARSE, "                self.out.unprocessed(str(e))", "                self.out.unprocessed(repr(e))")], 'C08.2')
M('C08', 'c08-new-raise-in-resolve', [(MSG, "        if not self.obj.resolved():\n            self.obj = self.obj.resolve(conn)", "        if not self.obj.resolved():\n            self.obj = self.obj.resolve(conn)\n            if not self.obj.resolved():\n                raise RuntimeError('unknown target ' + str(self.obj))")], 'C08.2')
M('C08', 'c08-supress-hides-messages', [(OUT, "    def show(self, *msg) -> None:\n        self.out.write(", "    def show(self, *msg) -> None:\n        if self.show_unprocessed or not self.verbose:\n            self.out.write(")], 'C08')
M('C08', 'c08-supress-inverted', [("frontends/tui/arguments.py", "show_unprocessed_output = not bool(args.supress)", "show_unprocessed_output = bool(args.supress)")], 'C08.4')
M('C08', 'c08-buffered-stream', [(STR, "    def override_write(self, string: str) -> None:\n        print(string, file=self.file)", "    def override_write(self, string: str) -> None:\n        self.pending = getattr(self, 'pending', []) + [string]\n        if len(self.pending) > 8:\n            print('\\n'.join(self.pending), file=self.file)\n            self.pending = []")], 'C08.6')
M('C08', 'c08-cleanup-early', [(PARSE, "            if line == '':\n                break\n", "            if line == '':\n                self.cleanup()\n                break\n")], 'C08.5')
M('C08', 'c08-unprocessed-truncates', [(OUT, "' |  ' + ' '.join(map(lambda m: str(m), msg))))", "' |  ' + ' '.join(map(lambda m: str(m), msg))[:80]))")], 'C08.4')
M('C08', 'c08-runtimeerror-in-listener', [(CTL, "        self.all_messages.append(message)\n", "        self.all_messages.append(message)\n        if message.name == '':\n            raise RuntimeError('empty message name')\n")], 'C08.2')
M('C08', 'c08-skip-after-error-return', [(PARSE, "                self.out.error(e)\n                parse = False", "                self.out.error(e)\n                return")], 'C08.3')
V('C08', 'c08v-not-line', [(PARSE, "            if line == '':\n                break", "            if not line:\n                break")])

# ---- C09 -----------------------------------------------------------------------------------------
EXT = 'backends/gdb_plugin/extract.py'
M('C09', 'c09-cursor-clobbered-again', [(EXT, "for elem_index in range(size // int_type.sizeof):\n                    elem = value['data'].cast(int_type.pointer())[elem_index]", "for i in range(size // int_type.sizeof):\n                    elem = value['data'].cast(int_type.pointer())[i]")], 'C09.1')
M('C09', 'c09-no-increment', [(EXT, "                raise RuntimeError('Invalid type code ' + c)\n            i += 1\n", "                raise RuntimeError('Invalid type code ' + c)\n")], 'C09.1')
M('C09', 'c09-increment-for-all-chars', [(EXT, "                raise RuntimeError('Invalid type code ' + c)\n            i += 1\n", "                raise RuntimeError('Invalid type code ' + c)\n        i += 1\n")], 'C09.1')
M('C09', 'c09-drop-code-h', [(EXT, "['i', 'u', 'f', 's', 'o', 'n', 'a', 'h']", "['i', 'u', 'f', 's', 'o', 'n', 'a']")], 'C09.2')
M('C09', 'c09-fd-as-int', [(EXT, "args.append(wl.Arg.Fd(int(value)))", "args.append(wl.Arg.Int(int(value)))")], 'C09.3')
M('C09', 'c09-new-id-not-new', [(EXT, "args.append(wl.Arg.Object(wl.UnresolvedObject(arg_id, arg_type_name), True))", "args.append(wl.Arg.Object(wl.UnresolvedObject(arg_id, arg_type_name), False))")], 'C09.3')
M('C09', 'c09-sent-received-swapped', [(EXT, "message = extract_message(closure, object, True, False)", "message = extract_message(closure, object, False, False)")], 'C09.4')
M('C09', 'c09-fixed-formula-const', [(EXT, "((1023LL + 44LL) << 52)", "((1023LL + 43LL) << 52)")], 'C09.3')
V('C09', 'c09v-types-index-by-count', [(EXT, "            elif c == 'o':\n                arg_type = message_types[i]", "            elif c == 'o':\n                arg_type = message_types[len(args)]")])
M('C09', 'c09-types-wrong-index', [(EXT, "            elif c == 'o':\n                arg_type = message_types[i]", "            elif c == 'o':\n                arg_type = message_types[i + 1]")], 'C09.1')
M('C09', 'c09-increment-in-else-only', [(EXT, "                raise RuntimeError('Invalid type code ' + c)\n            i += 1", "                raise RuntimeError('Invalid type code ' + c)\n        i += 1")], 'C09.1')
V('C09', 'c09v-increment-spelled-out', [(EXT, "                raise RuntimeError('Invalid type code ' + c)\n            i += 1", "                raise RuntimeError('Invalid type code ' + c)\n            i = i + 1")])
M('C09', 'c09-increment-before-type-read', [(EXT, "            value = closure_args[i][c]\n", "            value = closure_args[i][c]\n            i += 1\n"), (EXT, "                raise RuntimeError('Invalid type code ' + c)\n            i += 1", "                raise RuntimeError('Invalid type code ' + c)")], 'C09.1')
M('C09', 'c09-union-member-fixed', [(EXT, "            value = closure_args[i][c]", "            value = closure_args[i]['i'] if c == 'u' else closure_args[i][c]")], 'C09')
M('C09', 'c09-bp-registry-swapped', [(PLG, "WlClosureCallBreakpoint(self, 'serialize_closure', extract.sent_message)", "WlClosureCallBreakpoint(self, 'serialize_closure', extract.received_message)")], 'C09.4')
M('C09', 'c09-string-unguarded', [(EXT, "                if _is_null(value):\n                    str_val = '[null string]'\n                else:\n                    str_val = value.string()", "                str_val = value.string()")], 'C09.3')
M('C09', 'c09-name-from-signature', [(EXT, "    message_name = _fast_access(closure_message, 'wl_message.name').string()", "    message_name = _fast_access(closure_message, 'wl_message.signature').string()")], 'C09.4')
M('C09', 'c09-args-reversed', [(EXT, "return wl.Message(time_now(), object, is_sending, message_name, tuple(args))", "return wl.Message(time_now(), object, is_sending, message_name, tuple(reversed(args)))")], 'C09.4')
M('C09', 'c09-sender-id-from-target', [(EXT, "    object_id = int(_fast_access(closure, 'wl_closure.sender_id'))\n    object = wl.UnresolvedObject(object_id, None)", "    object_id = int(_fast_access(closure, 'wl_closure.opcode'))\n    object = wl.UnresolvedObject(object_id, None)")], 'C09.4')
M('C09', 'c09-newid-flag-server', [(EXT, "        # Server connection\n        new_id_is_actually_an_object = False", "        # Server connection\n        new_id_is_actually_an_object = True")], 'C09.4')
M('C09', 'c09-newid-flag-client', [(EXT, "        # Client connection\n        new_id_is_actually_an_object = True", "        # Client connection\n        new_id_is_actually_an_object = False")], 'C09.4')
M('C09', 'c09-sent-closure-own-frame', [(EXT, "    frame = gdb.selected_frame().older()\n    if frame is None:\n        raise RuntimeError('Failed to get frame')\n    closure = frame.read_var('closure')", "    frame = gdb.selected_frame().older()\n    if frame is None:\n        raise RuntimeError('Failed to get frame')\n    closure = gdb.selected_frame().read_var('closure')")], 'C09.4')
M('C09', 'c09-array-width-mismatch', [(EXT, "range(size // int_type.sizeof)", "range(size // gdb.lookup_type('long').sizeof)")], 'C09.3')
M('C09', 'c09-null-object-as-object', [(EXT, "                if _is_null(value):\n                    args.append(wl.Arg.Null(arg_type_name))", "                if not _is_null(value):\n                    args.append(wl.Arg.Null(arg_type_name))")], 'C09.3')
M('C09', 'c09-newid-branches-swapped', [(EXT, "                if new_id_is_actually_an_object:\n                    arg_id = int(_fast_access", "                if not new_id_is_actually_an_object:\n                    arg_id = int(_fast_access")], 'C09.3')
V('C09', 'c09v-cursor-renamed', [(EXT, "    i = 0\n    for c in signiture:", "    i = 0\n    assert i == 0\n    for c in signiture:")])

# ---- C15 -----------------------------------------------------------------------------------------
M('C15', 'c15-unguarded-del-again', [(PLG, "        if connection_id in self.connections:\n            del self.connections[connection_id]\n", "        del self.connections[connection_id]\n")], 'C15')
M('C15', 'c15-no-open-on-first-sight', [(PLG, "        if not connection_id in self.connections:\n            is_server = None", "        if False:\n            is_server = None")], 'C15')
M('C15', 'c15-close-keeps-address', [(PLG, "        if connection_id in self.connections:\n            del self.connections[connection_id]\n", "")], 'C15.2')
M('C15', 'c15-close-not-forwarded-for-unknown', [(PLG, "        if connection_id in self.connections:\n            del self.connections[connection_id]\n        self.connection_id_sink.close_connection(time_now(), connection_id)", "        if connection_id in self.connections:\n            del self.connections[connection_id]\n            self.connection_id_sink.close_connection(time_now(), connection_id)")], 'C15.2')
M('C15', 'c15-thread-mismatch-drops', [(PLG, "                    ' instead of connection\\'s main thread ' + str(connection_thread_num))\n", "                    ' instead of connection\\'s main thread ' + str(connection_thread_num))\n                return\n")], 'C15.3')
M('C15', 'c15-thread-mismatch-raises', [(PLG, "                self.out.warn(\n                    'Got message '", "                raise RuntimeError(\n                    'Got message '")], 'C15')
M('C15', 'c15-identity-includes-thread', [(EXT, "    return 'gdb_conn:' + hex(int(connection))", "    return 'gdb_conn:' + hex(int(connection)) + ':' + str(gdb.selected_thread().global_num)")], 'C15.2')
M('C15', 'c15-open-wrong-id', [(PLG, "            self.open_connection(connection_id, is_server)", "            self.open_connection(str(message.obj.id), is_server)")], 'C15')
M('C15', 'c15-manager-close-unguarded', [(CMG, "        connection = self.open_connections.get(connection_id)\n        if connection:\n            del self.open_connections[connection_id]", "        connection = self.open_connections.get(connection_id)\n        del self.open_connections[connection_id]\n        if connection:")], 'C15.1')
M('C15', 'c15-destroy-closes-all', [(PLG, "        self.plugin.close_connection(connection_id)\n        return False", "        for cid in list(self.plugin.connections):\n            self.plugin.close_connection(cid)\n        return False")], 'C15.2')
V('C15', 'c15v-pop-default', [(PLG, "        if connection_id in self.connections:\n            del self.connections[connection_id]\n", "        self.connections.pop(connection_id, None)\n")])
V('C15', 'c15v-try-except', [(PLG, "        if connection_id in self.connections:\n            del self.connections[connection_id]\n", "        try:\n            del self.connections[connection_id]\n        except KeyError:\n            pass\n")])

# ---- C13 -----------------------------------------------------------------------------------------
RUN = 'backends/libwayland_debug_output/runner.py'
M('C13', 'c13-shell-true', [(RUN, "            bufsize=1,\n", "            bufsize=1,\n            shell=True,\n")], 'C13.3')
M('C13', 'c13-join-argv', [(RUN, "            self.args.command_args,\n            stderr", "            ' '.join(self.args.command_args),\n            stderr")], 'C13.3')
M('C13', 'c13-return-zero', [(RUN, "    return subprocess.returncode", "    return 0")], 'C13.4')
M('C13', 'c13-stdout-captured', [(RUN, "            stderr=self.stderr_fd,\n", "            stderr=self.stderr_fd,\n            stdout=self.stderr_fd,\n")], 'C13.3')
M('C13', 'c13-no-wayland-debug', [(RUN, "        env['WAYLAND_DEBUG'] = '1'\n", "")], 'C13.3')
M('C13', 'c13-wayland-debug-client', [(RUN, "        env['WAYLAND_DEBUG'] = '1'\n", "        env['WAYLAND_DEBUG'] = 'client'\n")], 'C13.3')
M('C13', 'c13-fresh-env', [(RUN, "        env = os.environ.copy()\n", "        env = {'PATH': os.environ.get('PATH', '')}\n")], 'C13.3')
M('C13', 'c13-exit-bool', [('main.py', "            exit(returncode)", "            exit(returncode != 0)")], 'C13.4')
M('C13', 'c13-pipe-mode-own-manager', [('main.py', "            piped_input_main(output, connection_list)", "            piped_input_main(output, ConnectionManager())")], 'C13.1')
M('C13', 'c13-file-mode-other-output', [('main.py', "file_input_main(args.load_path, output, connection_list, ui_controller, ui_controller, input_func)", "file_input_main(args.load_path, Output(False, True, stream.Std(sys.stdout), stream.Std(sys.stderr)), connection_list, ui_controller, ui_controller, input_func)")], 'C13.1')
M('C13', 'c13-parse-after-join', [(RUN, "    with os.fdopen(readable, 'r', errors='backslashreplace') as spicket:\n        parse.into_sink(spicket, output, connection_id_sink)\n    thread.join(timeout=1)", "    thread.join(timeout=1)\n    with os.fdopen(readable, 'r', errors='backslashreplace') as spicket:\n        parse.into_sink(spicket, output, connection_id_sink)")], 'C13.4')
M('C13', 'c13-no-close-write-end', [(RUN, "        os.close(self.stderr_fd)\n", "")], 'C13.3')
M('C13', 'c13-read-chunks', [(PARSE, "                line = input_file.readline()\n", "                line = input_file.readline(4096)\n")], 'C13.2')
M('C13', 'c13-mode-unhandled', [('main.py', "        elif args.mode == Mode.PIPE:\n            if args.stop_matcher != matcher.never:\n                output.warn('Ignoring stop matcher when stdin is used for messages')\n            piped_input_main(output, connection_list)\n", "")], 'C13.1')
M('C13', 'c13-returncode-from-thread-alive', [(RUN, "        self.returncode = subprocess.run(", "        self.returncode = 0\n        self.result = subprocess.run(")], 'C13.4')
V('C13', 'c13v-popen-keyword-order', [(RUN, "            stderr=self.stderr_fd,\n            env=env,\n", "            env=env,\n            stderr=self.stderr_fd,\n")])

# ---- C14 -----------------------------------------------------------------------------------------
M('C14', 'c14-generation-plus-one-label', [(OBJ, "number_to_letter_id(self.generation, False)", "number_to_letter_id(self.generation + 1, False)")], 'C14.2')
M('C14', 'c14-matcher-generation-offset', [(MAT, "    return EqMatcher(letter_id_to_number(text), text)", "    return EqMatcher(letter_id_to_number(text) + 1, text)")], 'C14.2')
M('C14', 'c14-radix-25-encoder', [(LIG, "        result = chr(value % 26 + base) + result\n        value //= 26", "        result = chr(value % 25 + base) + result\n        value //= 25")], 'C14')
M('C14', 'c14-radix-decoder', [(LIG, "        result = (result + 1) * 26", "        result = (result + 1) * 27")], 'C14.2')
M('C14', 'c14-is-letter-lower-only', [(MAT, "        (val >= ord('a') and val <= ord('z')) or\n        (val >= ord('A') and val <= ord('Z'))", "        (val >= ord('b') and val <= ord('z')) or\n        (val >= ord('A') and val <= ord('Z'))")], 'C14.1')
M('C14', 'c14-is-letter-includes-digits', [(MAT, "        (val >= ord('a') and val <= ord('z')) or", "        (val >= ord('0') and val <= ord('z')) or")], 'C14.1')
M('C14', 'c14-conn-matcher-app-id', [(MAT, "        name = conn.name() if conn is not None else 'unknown'", "        name = (conn.app_id() or conn.name()) if conn is not None else 'unknown'")], 'C14.3')
M('C14', 'c14-pair-swapped', [(MAT, "        return self.a.matches(pair[0]) and self.b.matches(pair[1])", "        return self.a.matches(pair[1]) and self.b.matches(pair[0])")], 'C14.2')
M('C14', 'c14-id-matcher-gen-none-minus', [(MAT, "        generation = obj.generation if obj.generation is not None else 0\n        return self.wrapped.matches((obj.id, generation))", "        generation = obj.generation if obj.generation is not None else 0\n        return self.wrapped.matches((obj.id, generation + 1))")], 'C14.2')
M('C14', 'c14-split-cut-mismatch', [(MAT, "            _parse_int_matcher(text[:i]),\n            '',\n            _parse_generation_matcher(text[i:]),", "            _parse_int_matcher(text[:i]),\n            '',\n            _parse_generation_matcher(text[i + 1:]),")], 'C14.1')
M('C14', 'c14-caps-base-wrong', [(LIG, "    base = ord('A') if caps else ord('a')", "    base = ord('@') if caps else ord('a')")], 'C14.1')
V('C14', 'c14v-is-letter-isalpha-range', [(MAT, "        (val >= ord('a') and val <= ord('z')) or\n        (val >= ord('A') and val <= ord('Z'))", "        (ord('a') <= val <= ord('z')) or\n        (ord('A') <= val <= ord('Z'))")])

# ---- C17 -----------------------------------------------------------------------------------------
UTL = 'core/util.py'
M('C17', 'c17-code-with-letter', [(UTL, "good_color = '1;92'", "good_color = '1;92;x'")], 'C17.3')
M('C17', 'c17-len-of-coloured', [(CTL, "' ' * len(no_color(start))", "' ' * len(start)")], 'C17.4')
M('C17', 'c17-switch-read-elsewhere', [(OUT, "    def warn(self, *msg) -> None:\n        self.err.write(color(alert_color, 'Warning: ')", "    def warn(self, *msg) -> None:\n        import core.util\n        if core.util.color_output:\n            self.err.write('!')\n        self.err.write(color(alert_color, 'Warning: ')")], 'C17.1')
M('C17', 'c17-raw-escape', [(MSG, "color(symbol_color, ' ↲')", "'\\x1b[2m ↲\\x1b[0m'")], 'C17.1')
M('C17', 'c17-reset-when-off', [(UTL, "        if color_output and color:\n            result += '\\x1b[0m'", "        if color:\n            result += '\\x1b[0m'")], 'C17.2')
M('C17', 'c17-text-dropped-for-none', [(UTL, "        else:\n            result += '\\x1b[0m'\n    if string:", "        else:\n            return '\\x1b[0m'\n    if string:")], 'C17.2')
M('C17', 'c17-no-color-narrow', [(UTL, "re.sub(r'\\x1b\\[[\\d;]*m', '', string)", "re.sub(r'\\x1b\\[\\d+m', '', string)")], 'C17.3')
M('C17', 'c17-tokenise-before-strip-again', [(CTL, "        input_line = no_color(input_line).strip()", "        input_line = input_line.strip()")], 'C17.5')
M('C17', 'c17-matcher-parse-no-strip', [(MAT, "    text = no_color(text).strip()\n    if text == '':", "    text = text.strip()\n    if text == '':")], 'C17.5')
M('C17', 'c17-bold-marker-literal', [(CI, "        txt += color('1;37', self._name) + ' ('", "        txt += color('1;37m', self._name) + ' ('")], 'C17.3')
M('C17', 'c17-ljust-coloured', [(CTL, "            line += str(connection) + ': '\n            line = color(clr, line)", "            line += str(connection) + ': '\n            line = color(clr, line).ljust(40)")], 'C17.4')
M('C17', 'c17-help-text-width-coloured', [(MAT, "        result += color(object_type_color, match[0])\n        result += ' ' * (32 - len(match[0]))", "        cell = color(object_type_color, match[0])\n        result += cell\n        result += ' ' * (32 - len(cell))")], 'C17.4')
V('C17', 'c17v-code-const-alias', [(CTL, "help_command_color = alert_color", "help_command_color = '93'")])

# ---- C19 -----------------------------------------------------------------------------------------
AF = 'frontends/tui/arguments.py'
GR = 'backends/gdb_plugin/runner.py'
M('C19', 'c19-include-marker', [(AF, "                    return (args[:i], command_id, args[i+1:])", "                    return (args[:i], command_id, args[i:])")], 'C19.1')
M('C19', 'c19-loops-swapped', [(AF, "    for i in range(len(args)):\n        for command in commands:\n            command_id = _strip_dashes(command[0])\n            for alias in command:\n                if args[i] == alias:", "    for command in commands:\n        command_id = _strip_dashes(command[0])\n        for i in range(len(args)):\n          if True:\n            for alias in command:\n                if args[i] == alias:")], 'C19.1')
M('C19', 'c19-swallow-matcher-error', [(AF, "        except RuntimeError as e:\n            raise RuntimeError('invalid filter matcher: ' + str(e))", "        except RuntimeError as e:\n            logging.warning('invalid filter matcher: ' + str(e))")], 'C19.4')
M('C19', 'c19-argparse-sees-all', [(AF, "args = parser.parse_args(args=wayland_debug_args[1:])", "args, _unknown = parser.parse_known_args(args=argv[1:])")], 'C19.2')
M('C19', 'c19-forward-filtered', [(AF, "        wayland_debug_args,\n        command_args\n    )", "        wayland_debug_args,\n        [a for a in command_args if a != '--']\n    )")], 'C19.3')
M('C19', 'c19-cluster-keeps-letter', [(AF, "                        return (args[:i] + [args[i][:-1]], command_id, args[i+1:])", "                        return (args[:i] + [args[i]], command_id, args[i+1:])")], 'C19.1')
M('C19', 'c19-two-modes-first-wins', [(AF, "    elif len(modes) > 1:\n        logging.error(', '.join(modes[:-1]) + ' and ' + modes[-1] + ' modes conflict, please specify a single mode')\n        return None", "    elif len(modes) > 2:\n        logging.error(', '.join(modes[:-1]) + ' and ' + modes[-1] + ' modes conflict, please specify a single mode')\n        return None")], 'C19.5')
M('C19', 'c19-no-mode-runs-anyway', [(AF, "    if mode is None:\n        parser.print_help()\n        exit(0)", "    if mode is None:\n        parser.print_help()\n        mode = Mode.PIPE")], 'C19.5')
M('C19', 'c19-hand-quote-again', [(GR, "', '.join(repr(i) for i in args.wayland_debug_args)", "', '.join('\"' + i.replace('\"', '\\\\\"') + '\"' for i in args.wayland_debug_args)")], 'C19.6')
M('C19', 'c19-gdb-args-sorted', [(GR, "    call_args = ['gdb', '-ex', call_str] + args.command_args", "    call_args = ['gdb', '-ex', call_str] + sorted(args.command_args)")], 'C19.3')
M('C19', 'c19-main-exit-zero', [('main.py', "    except RuntimeError as e:\n        logging.error(e)\n        exit(1)", "    except RuntimeError as e:\n        logging.error(e)\n        exit(0)")], 'C19.4')
M('C19', 'c19-marker-spelling-missing', [(AF, "        ['-r', '--run'],\n    ])", "        ['-r'],\n    ])")], 'C19.1')
V('C19', 'c19v-json-dumps', [(GR, "', '.join(repr(i) for i in args.wayland_debug_args)", "', '.join(json.dumps(i) for i in args.wayland_debug_args)")])

# ---- C18 -----------------------------------------------------------------------------------------
M('C18', 'c18-strict-file', [('main.py', "input_file = open(file_path, errors='backslashreplace')", "input_file = open(file_path, errors='strict')")], 'C18.1')
M('C18', 'c18-strict-run', [(RUN, "os.fdopen(readable, 'r', errors='backslashreplace')", "os.fdopen(readable, 'r')")], 'C18.1')
M('C18', 'c18-stdin-raw', [('main.py', "    with open(sys.stdin.fileno(), errors='backslashreplace', closefd=False) as input_file:\n        parse.into_sink(input_file, output, connection_id_sink)", "    parse.into_sink(sys.stdin, output, connection_id_sink)")], 'C18.1')
M('C18', 'c18-parse-helper-valueerror', [(MAT, "        raise RuntimeError(text + ' is not a valid string')", "        raise ValueError(text + ' is not a valid string')")], 'C18.2')
M('C18', 'c18-int-unguarded-in-parser', [(MAT, "        try:\n            return EqMatcher(int(text))\n        except ValueError:\n            raise RuntimeError(text + ' is not a valid int')", "        return EqMatcher(int(text))")], 'C18.2')
M('C18', 'c18-fd-no-value-to-str', [(ARG, "        def value_to_str(self) -> str:\n            return color(fd_color, 'fd ' + str(self.value))\n", "")], 'C18.3')
M('C18', 'c18-int-matcher-unguarded-again', [(MAT, "            try:\n                int_value = int(arg.value)\n            except (OverflowError, ValueError):\n                return False # inf and nan are not integers\n", "            int_value = int(arg.value)\n")], 'C18')
M('C18', 'c18-matcher-command-unguarded', [(CTL, "            try:\n                parsed = matcher.parse(arg)\n                unsimplified_str = str(parsed)", "            parsed = matcher.parse(arg)\n            try:\n                unsimplified_str = str(parsed)")], 'C18')
M('C18', 'c18-unknown-command-silent', [(CTL, "            else:\n                self.out.error('Unknown command \\'' + command + '\\'')\n            return None", "            return None")], 'C18.5')
M('C18', 'c18-cap-int-unguarded', [(CTL, "            try:\n                cap = int(tilde_split[1])\n            except ValueError:\n                self.out.error('Expected number after \\'~\\', got \\'' + tilde_split[1] + '\\'')\n                return", "            cap = int(tilde_split[1])")], 'C18')
M('C18', 'c18-parse-all-narrow-handler', [(PARSE, "            except Exception as e:\n                import traceback", "            except ValueError as e:\n                import traceback")], 'C18.4')
M('C18', 'c18-new-assert-in-command', [(CTL, "    def filter_command(self, arg: str) -> None:\n        if arg:", "    def filter_command(self, arg: str) -> None:\n        assert ':' not in arg, 'connection filters are not supported here'\n        if arg:")], 'C18.5')
M('C18', 'c18-generation-matcher-any-suffix', [(MAT, "    while i > 0 and _is_letter(text[i - 1]):\n        i -= 1\n    if i < len(text):", "    while i > 0 and not text[i - 1].isdigit():\n        i -= 1\n    if i < len(text):")], 'C18')
M('C18', 'c18-float-matcher-strict', [(MAT, "    try:\n        return EqMatcher(float(text))\n    except ValueError:\n        raise RuntimeError(text + ' is not a valid float')", "    return EqMatcher(float(text))")], 'C18.2')
V('C18', 'c18v-errors-replace', [('main.py', "input_file = open(file_path, errors='backslashreplace')", "input_file = open(file_path, errors='replace')")])
V('C18', 'c18v-catch-arithmeticerror', [(MAT, "            except (OverflowError, ValueError):", "            except (ArithmeticError, ValueError):")])
V('C19', 'c19v-enumerate-positions', [(AF, "    for i in range(len(args)):\n        for command in commands:", "    for i, word in enumerate(args):\n        for command in commands:"), (AF, "                if args[i] == alias:", "                if word == alias:")])
V('C03', 'c03v-alive-property-is-none', [(OBJ, "        self.alive = True\n", ""), (OBJ, "        self.destroy_time = time\n        self.alive = False", "        self.destroy_time = time\n\n    @property\n    def alive(self) -> bool:\n        return self.destroy_time is None")])
M('C03', 'c03-alive-property-truthy', [(OBJ, "        self.alive = True\n", ""), (OBJ, "        self.destroy_time = time\n        self.alive = False", "        self.destroy_time = time\n\n    @property\n    def alive(self) -> bool:\n        return not self.destroy_time")], 'C03.1')

# ---- parameter renames (canonical parameter names) -----------------------------------------------
V('C06', 'c06v-param-renamed', [(CTL, "    def connection_got_new_message(self, connection: Connection, message: wl.Message) -> None:\n        '''Overrides method in Connection.Listener'''\n        self.all_messages.append(message)\n        if self.current_connection is None or connection == self.current_connection:\n            if self.display_matcher.matches(message):\n                self._show_message(message)\n            if self.stop_matcher.matches(message):\n                self.out.show(color(alert_color, '    Stopped at ') + str(message).strip())",
  "    def connection_got_new_message(self, conn: Connection, msg: wl.Message) -> None:\n        '''Overrides method in Connection.Listener'''\n        self.all_messages.append(msg)\n        if self.current_connection is None or conn == self.current_connection:\n            if self.display_matcher.matches(msg):\n                self._show_message(msg)\n            if self.stop_matcher.matches(msg):\n                self.out.show(color(alert_color, '    Stopped at ') + str(msg).strip())")])
V('C10', 'c10v-param-renamed', [(CTL, "    def connection_got_new_message(self, connection: Connection, message: wl.Message) -> None:\n        '''Overrides method in Connection.Listener'''\n        self.all_messages.append(message)\n        if self.current_connection is None or connection == self.current_connection:\n            if self.display_matcher.matches(message):\n                self._show_message(message)\n            if self.stop_matcher.matches(message):\n                self.out.show(color(alert_color, '    Stopped at ') + str(message).strip())",
  "    def connection_got_new_message(self, conn: Connection, msg: wl.Message) -> None:\n        '''Overrides method in Connection.Listener'''\n        self.all_messages.append(msg)\n        if self.current_connection is None or conn == self.current_connection:\n            if self.display_matcher.matches(msg):\n                self._show_message(msg)\n            if self.stop_matcher.matches(msg):\n                self.out.show(color(alert_color, '    Stopped at ') + str(msg).strip())")])
V('C02', 'c02v-param-renamed', [(CI, "    def create_object(self, time: float, parent: wl.ObjectBase, obj_id: int, type_name: str) -> wl.ObjectBase:\n        '''Overrides method in Connection'''\n        if obj_id <= 1:\n            raise RuntimeError('Invalid object ID ' + str(obj_id))\n        if obj_id in self.db:\n            last_obj = self.db[obj_id][-1]",
  "    def create_object(self, time: float, parent: wl.ObjectBase, oid: int, type_name: str) -> wl.ObjectBase:\n        '''Overrides method in Connection'''\n        obj_id = oid\n        if obj_id <= 1:\n            raise RuntimeError('Invalid object ID ' + str(obj_id))\n        if obj_id in self.db:\n            last_obj = self.db[obj_id][-1]")])

# ---- later additions -------------------------------------------------------------------------------
M('C19', 'c19-single-dash-len', [(AF, "    return s.startswith('-') and len(s) > 1 and s[1] != '-'", "    return s.startswith('-') and len(s) > 2 and s[1] != '-'")], 'C19.1')
M('C19', 'c19-strip-one-dash', [(AF, "    while s.startswith('-'):\n        s = s[1:]\n    return s", "    if s.startswith('-'):\n        s = s[1:]\n    return s")], 'C19.1')
M('C19', 'c19-cluster-anywhere', [(AF, "                    if args[i].endswith(_strip_dashes(alias)):", "                    if _strip_dashes(alias) in args[i]:")], 'C19.1')
M('C13', 'c13-single-dash-len', [(AF, "    return s.startswith('-') and len(s) > 1 and s[1] != '-'", "    return s.startswith('-') and len(s) > 2 and s[1] != '-'")], 'C13.3')
M('C02', 'c02-type-check-inverted', [(CI, "            (not str_matcher(type_name).matches(obj.type))\n", "            (str_matcher(type_name).matches(obj.type))\n")], 'C02.3')
M('C01', 'c01-skip-first-piece', [(PARSE, "    return tuple(argument(p, s) for s in str_list)", "    return tuple(argument(p, s) for s in str_list[1:])")], 'C01.13')
M('C10', 'c10-subcommand-drops-arg', [(PLG, "        self.plugin.invoke_command(self.command + ' ' + arg)", "        self.plugin.invoke_command(self.command)")], 'C10.4')
M('C08', 'c08-display-drops-last-arg', [(MSG, "color(symbol_color, ', ').join([str(i) for i in self.args]) + color(symbol_color, ')')", "color(symbol_color, ', ').join([str(i) for i in self.args[:-1]]) + color(symbol_color, ')')")], 'C08.7')
M('C08', 'c08-arrow-inverted', [(MSG, "            (color(symbol_color, '→ ') if self.sent else '') +", "            (color(symbol_color, '→ ') if not self.sent else '') +")], 'C08.7')
M('C07', 'c07-name-prefix-always', [(ARG, "            if self.name is not None:\n                return color(symbol_color, self.name + '=') + self.value_to_str()\n            else:\n                return self.value_to_str()", "            return self.value_to_str()")], 'C07.9')
M('C07', 'c07-first-label-only', [(ARG, "color(int_symbol_color, '&').join([color(int_color, i) for i in self.labels])", "color(int_color, self.labels[0])")], 'C07.9')
M('C14', 'c14-destroyed-shadows-self', [(MAT, "        if (self.match_destroyed and\n            message.destroyed_obj is not None and\n            self.obj_matcher.matches(message.destroyed_obj)\n        ):\n            return True", "        if self.match_destroyed and message.destroyed_obj is not None:\n            return self.obj_matcher.matches(message.destroyed_obj)")], 'C14.4')
M('C14', 'c14-new-needs-name', [(MAT, "                if isinstance(arg, wl.Arg.Object) and arg.is_new and self.obj_matcher.matches(arg.obj):", "                if isinstance(arg, wl.Arg.Object) and self.obj_matcher.matches(arg.obj):")], 'C14.4')
M('C06', 'c06-selection-cleared-on-typo', [(CTL, "            connection = self._get_connection(arg)\n            if connection is not None:\n                self.current_connection = connection\n", "            connection = self._get_connection(arg)\n            self.current_connection = connection\n            if connection is not None:\n")], 'C06.4')
M('C13', 'c13-run-mode-utf8', [(RUN, "os.fdopen(readable, 'r', errors='backslashreplace')", "os.fdopen(readable, 'r', encoding='utf-8', errors='backslashreplace')")], 'C13.1')
V('C14', 'c14v-pattern-single-return', [(MAT, "        if not self.obj_matcher.matches(message.obj):\n            return False\n        if not self.name_matcher.matches(message.name):\n            return False\n        if not self.args_matcher.matches(message.args):\n            return False\n        return True", "        return (self.obj_matcher.matches(message.obj) and\n            self.name_matcher.matches(message.name) and\n            self.args_matcher.matches(message.args))")])

# ---- round-d inspired variants --------------------------------------------------------------------
PARSE = 'backends/libwayland_debug_output/parse.py'
V('C04', 'c04v-known-connections-dict', [(PARSE, "        self.known_connections: Set[str] = set()", "        self.known_connections: dict = {}"),
                                          (PARSE, "            self.known_connections.add(conn_id)\n", "            self.known_connections[conn_id] = True\n")])
V('C18', 'c18v-known-connections-dict', [(PARSE, "        self.known_connections: Set[str] = set()", "        self.known_connections: dict = {}"),
                                          (PARSE, "            self.known_connections.add(conn_id)\n", "            self.known_connections[conn_id] = True\n")])
V('C04', 'c04v-known-connections-list', [(PARSE, "        self.known_connections: Set[str] = set()", "        self.known_connections: list = []"),
                                          (PARSE, "            self.known_connections.add(conn_id)\n", "            self.known_connections.append(conn_id)\n")])

PROTO = 'core/wl/protocol.py'
M('C07', 'c07-enum-path-first-component', [(PROTO, "    enum_interface_name = enum_name_parts[-2]", "    enum_interface_name = enum_name_parts[0] if len(enum_name_parts) == 2 else enum_name_parts[1]")], 'C07.6')
M('C07', 'c07-enum-path-own-interface-only', [(PROTO, "    enum_interface_name = enum_name_parts[-2]", "    enum_interface_name = interface_name")], 'C07.6')
V('C07', 'c07v-enum-path-rpartition', [(PROTO, "    enum_name_parts = [interface_name] + enum_path.split('.')\n    enum_interface_name = enum_name_parts[-2]\n    enum_name = enum_name_parts[-1]", "    qualifier, dot, enum_name = enum_path.rpartition('.')\n    enum_interface_name = qualifier.rpartition('.')[2] if dot else interface_name")])

# ---- C05 ------------------------------------------------------------------------------------------
MAT = 'core/matcher.py'
M('C05', 'c05-args-item-needs-no-argument', [(MAT, "            if not found_match:\n                result = False\n                break", "            if found_match:\n                result = False\n                break")], 'C05.2')
M('C05', 'c05-args-exclusions-skipped', [(MAT, "        if result:\n            for matcher in self.negative:\n                for arg in message:", "        if not result:\n            for matcher in self.negative:\n                for arg in message:")], 'C05.2')
M('C05', 'c05-args-first-argument-only', [(MAT, "            for arg in message:\n                if matcher.matches(arg):\n                    found_match = True\n                    break", "            for arg in message[:1]:\n                if matcher.matches(arg):\n                    found_match = True\n                    break")], 'C05.2')
M('C05', 'c05-list-exclusion-ignored', [(MAT, "                if matcher.matches(message):\n                    result = False\n                    break", "                if matcher.matches(message):\n                    break")], 'C05.1')
M('C05', 'c05-int-matcher-drops-fd', [(MAT, "        if isinstance(arg, wl.Arg.Int) or isinstance(arg, wl.Arg.Float) or isinstance(arg, wl.Arg.Fd):", "        if isinstance(arg, wl.Arg.Int) or isinstance(arg, wl.Arg.Float):")], 'C05.4')
M('C05', 'c05-object-matcher-on-strings', [(MAT, "        return isinstance(arg, wl.Arg.String) and self.wrapped.matches(arg.value)", "        return isinstance(arg, (wl.Arg.String, wl.Arg.Object)) and self.wrapped.matches(arg.value)")], 'C05.4')
M('C05', 'c05-string-matcher-always', [(MAT, "        return isinstance(arg, wl.Arg.String) and self.wrapped.matches(arg.value)", "        return isinstance(arg, wl.Arg.String) or self.wrapped.matches(arg.value)")], 'C05.4')
M('C05', 'c05-nil-mock-id', [(MAT, "            mock = wl.object.MockObject(id=0, type=arg.type)", "            mock = wl.object.MockObject(id=1, type=arg.type)")], 'C05.4')
M('C05', 'c05-generation-default-one', [(MAT, "        generation = obj.generation if obj.generation is not None else 0", "        generation = obj.generation if obj.generation is not None else 1")], 'C05.4')
M('C05', 'c05-conn-unknown-empty', [(MAT, "        name = conn.name() if conn is not None else 'unknown'", "        name = conn.name() if conn is not None else ''")], 'C05.4')
M('C05', 'c05-name-matcher-on-type', [(MAT, "        return obj.type is not None and self.wrapped.matches(obj.type)", "        return obj.type is not None and self.wrapped.matches(str(obj.id))")], 'C05.4')
M('C05', 'c05-star-only-prefix', [(MAT, "    elif '*' in pattern:\n        return WildcardMatcher(pattern)", "    elif pattern.endswith('*'):\n        return WildcardMatcher(pattern)")], 'C05.5')
M('C05', 'c05-wildcard-unescaped', [(MAT, "        re_pattern = r'^' + re.escape(pattern).replace(r'\\*', '.*') + r'$'", "        re_pattern = r'^' + pattern.replace('*', '.*') + r'$'")], 'C05.5')
M('C05', 'c05-wildcard-prefix-match', [(MAT, "        re_pattern = r'^' + re.escape(pattern).replace(r'\\*', '.*') + r'$'", "        re_pattern = r'^' + re.escape(pattern).replace(r'\\*', '.*')")], 'C05.5')
M('C05', 'c05-brackets-wrong-subparser', [(MAT, "        return _parse_matcher_list(text, _parse_text_matcher)", "        return _parse_matcher_list(text, _parse_obj_matcher)")], 'C05.6')
M('C05', 'c05-bang-halves-swapped', [(MAT, "            [sub_parser(i) for i in _split_on(bang_split[0], ',')],\n            [sub_parser(i) for i in _split_on(bang_split[1], ',')],", "            [sub_parser(i) for i in _split_on(bang_split[1], ',')],\n            [sub_parser(i) for i in _split_on(bang_split[0], ',')],")], 'C05.6')
M('C05', 'c05-name-and-object-swapped', [(MAT, "        _parse_obj_matcher(obj_text),\n        _parse_text_matcher(name_text),", "        _parse_obj_matcher(name_text),\n        _parse_text_matcher(obj_text),")], 'C05.6')
M('C05', 'c05-arg-name-value-swapped', [(MAT, "        name_matcher = _parse_text_matcher(eq_split[0])\n        value_text = eq_split[1]", "        name_matcher = _parse_text_matcher(eq_split[1])\n        value_text = eq_split[0]")], 'C05.6')
M('C05', 'c05-parse-keeps-blanks', [(MAT, "    text = no_color(text).strip()\n    if text == '':\n        raise RuntimeError('No matcher given')", "    text = no_color(text)\n    if text == '':\n        raise RuntimeError('No matcher given')")], 'C05.6')
M('C05', 'c05-pieces-not-stripped', [(MAT, "            result.append(text[section_start:i].strip())", "            result.append(text[section_start:i])")], 'C05.6')
M('C05', 'c05-never-is-always', [(MAT, "never: Matcher[Any] = AlwaysMatcher(False)", "never: Matcher[Any] = AlwaysMatcher(True)")], 'C05.3')
M('C05', 'c05-destroyed-flag-from-new', [(MAT, "        self.match_destroyed = self.name_matcher.matches('destroyed') and self.args_matcher.matches(())", "        self.match_destroyed = self.name_matcher.matches('new') and self.args_matcher.matches(())")], 'C05.1')
V('C05', 'c05v-args-any-all', [(MAT, """        result = True
        for matcher in self.positive:
            found_match = False
            for arg in message:
                if matcher.matches(arg):
                    found_match = True
                    break
            if not found_match:
                result = False
                break
        if result:
            for matcher in self.negative:
                for arg in message:
                    if matcher.matches(arg):
                        result = False
                        break
        return result""", """        for matcher in self.positive:
            if not any(matcher.matches(arg) for arg in message):
                return False
        for matcher in self.negative:
            for arg in message:
                if matcher.matches(arg):
                    return False
        return True""")])
V('C05', 'c05v-string-matcher-if', [(MAT, "        return isinstance(arg, wl.Arg.String) and self.wrapped.matches(arg.value)", "        if not isinstance(arg, wl.Arg.String):\n            return False\n        return self.wrapped.matches(arg.value)")])
V('C05', 'c05v-wildcard-fullmatch', [(MAT, "        re_pattern = r'^' + re.escape(pattern).replace(r'\\*', '.*') + r'$'", "        re_pattern = re.escape(pattern).replace(r'\\*', '.*')"), (MAT, "        return len(self.regex.findall(text)) > 0", "        return self.regex.fullmatch(text) is not None")])

# ---- memoisation (round f): a memoised function may only hand out immutable values ------------------
V('C01', 'c01v-memoised-int-conversion', [(PARSE, "def argument(p: WlPatterns, value_str: str) -> wl.Arg.Base:", "import functools\n\n@functools.lru_cache(maxsize=None)\ndef _to_int(text: str) -> int:\n    return int(text)\n\ndef argument(p: WlPatterns, value_str: str) -> wl.Arg.Base:"),
                                            (PARSE, "            return wl.Arg.Int(int(value_str))", "            return wl.Arg.Int(_to_int(value_str))")])
M('C01', 'c01-memoised-argument', [(PARSE, "def argument(p: WlPatterns, value_str: str) -> wl.Arg.Base:", "import functools\n\n@functools.lru_cache(maxsize=None)\ndef argument(p: WlPatterns, value_str: str) -> wl.Arg.Base:")], 'C01.14')
M('C12', 'c12-memoised-parse', [(CTL, "    def parse_and_join(self, new_unparsed: str, old: Optional[matcher.MessageMatcher]) -> matcher.MessageMatcher:\n        try:\n            parsed = matcher.parse(new_unparsed)",
                                  "    def parse_and_join(self, new_unparsed: str, old: Optional[matcher.MessageMatcher]) -> matcher.MessageMatcher:\n        try:\n            parsed = _cached_parse(new_unparsed)"),
                                (CTL, "class Command:\n", "import functools\n\n@functools.lru_cache(maxsize=32)\ndef _cached_parse(text: str) -> matcher.MessageMatcher:\n    return matcher.parse(text)\n\nclass Command:\n")], 'C12.7')
V('C12', 'c12v-memoised-command-format', [(CTL, "def command_format(cmd: str) -> str:", "import functools\n\n@functools.lru_cache(maxsize=None)\ndef command_format(cmd: str) -> str:")])
V('C14', 'c14v-memoised-letter-id', [(LIG, "def number_to_letter_id(value: int, caps: bool) -> str:", "import functools\n\n@functools.lru_cache(maxsize=None)\ndef number_to_letter_id(value: int, caps: bool) -> str:")])

# ---- MatcherList.simplify must preserve the meaning of the list (decided semantically on paths) ------
M('C12', 'c12-simplify-drops-real-exclusions', [(MAT, "        self.negative = [pattern for pattern in self.negative if not pattern.always() is False]\n        if len(self.positive) == 0:", "        self.negative = [pattern for pattern in self.negative if pattern.always() is True]\n        if len(self.positive) == 0:")], 'C12.6')
M('C12', 'c12-simplify-star-alternative-wins-over-exclusions', [(MAT, "            if pattern.always() is True:\n                self.positive = [pattern]", "            if pattern.always() is True:\n                return pattern")], 'C12.6')
M('C12', 'c12-simplify-single-alternative-forgets-exclusions', [(MAT, "        elif len(self.positive) == 1 and len(self.negative) == 0:\n            return self.positive[0]", "        elif len(self.positive) == 1:\n            return self.positive[0]")], 'C12.6')
M('C12', 'c12-simplify-keeps-first-alternative-only', [(MAT, "        self.positive = [pattern for pattern in self.positive if not pattern.always() is False]\n        self.negative = [pattern for pattern in self.negative if not pattern.always() is False]\n        if len(self.positive) == 0:", "        self.positive = [pattern for pattern in self.positive if not pattern.always() is False][:1]\n        self.negative = [pattern for pattern in self.negative if not pattern.always() is False]\n        if len(self.positive) == 0:")], 'C12.6')
