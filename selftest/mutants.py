"""Mutants (must be detected) and behaviour-preserving variants (must stay silent) for the checker self-test.
Each edit is (relative path, exact old text occurring once, new text)."""
PARSE = 'backends/libwayland_debug_output/parse.py'

SPECS = []


def M(prop, name, edits, rule=None, **kw):
    SPECS.append(dict(prop=prop, name=name, edits=edits, rule=rule, kind='mutant', **kw))


def V(prop, name, edits, **kw):
    SPECS.append(dict(prop=prop, name=name, edits=edits, kind='variant', **kw))


# ---- C01 -----------------------------------------------------------------------------------------
M('C01', 'c01-float-before-int', [(PARSE, "            int_re + '|' +\n            obj_re", "            float_re + '|' +\n            obj_re"),
                                  (PARSE, "            float_re + '|' +\n            array_re", "            int_re + '|' +\n            array_re")], 'C01')
M('C01', 'c01-obj-at-only', [(PARSE, r"obj_re = r'(?P<obj_type>\w+)[@#](?P<obj_id>\d+)'", r"obj_re = r'(?P<obj_type>\w+)@(?P<obj_id>\d+)'")], 'C01.1')
M('C01', 'c01-msg-at-only', [(PARSE, r"(?P<type>\w+)[@#](?P<id>\d+)\.", r"(?P<type>\w+)@(?P<id>\d+)\.")], 'C01.6')
M('C01', 'c01-no-negative-int', [(PARSE, r"int_re = r'(?P<int>-?\d+)'", r"int_re = r'(?P<int>\d+)'")], 'C01')
M('C01', 'c01-ts-dot-only', [(PARSE, r"(?P<timestamp>\d+[\.,]\d+)", r"(?P<timestamp>\d+\.\d+)")], 'C01.6')
M('C01', 'c01-float-no-comma', [(PARSE, r"-?\d+(?:[\.,]\d+)?", r"-?\d+(?:\.\d+)?")], 'C01.1')
M('C01', 'c01-no-queue', [(PARSE, "timestamp_regex + queue_re + conn_re + '  -> '", "timestamp_regex + conn_re + '  -> '")], 'C01.6')
M('C01', 'c01-conn-after-queue-swapped', [(PARSE, "timestamp_regex + queue_re + conn_re + ' ' + message_regex", "timestamp_regex + conn_re + queue_re + ' ' + message_regex")], 'C01')
M('C01', 'c01-sent-flag-swapped', [(PARSE, "    sent = True\n    match = p.out_msg_re.search(raw)\n    if not match:\n        sent = False",
                                    "    sent = False\n    match = p.out_msg_re.search(raw)\n    if not match:\n        sent = True")], 'C01')
M('C01', 'c01-in-before-out', [(PARSE, "    sent = True\n    match = p.out_msg_re.search(raw)\n    if not match:\n        sent = False\n        match = p.in_msg_re.search(raw)",
                                "    sent = False\n    match = p.in_msg_re.search(raw)\n    if not match:\n        sent = True\n        match = p.out_msg_re.search(raw)")], 'C01.7')
M('C01', 'c01-type-name-swapped', [(PARSE, "    type_name = match.group('type')\n", "    type_name = match.group('message')\n")], 'C01.11')
M('C01', 'c01-ms-not-scaled', [(PARSE, ".replace(',', '.')) / 1000.0", ".replace(',', '.'))")], 'C01.9')
M('C01', 'c01-new-id-not-new', [(PARSE, "int(match.group('new_id')), type_name), True)", "int(match.group('new_id')), type_name), False)")], 'C01')
M('C01', 'c01-obj-id-from-new', [(PARSE, "wl.UnresolvedObject(int(match.group('obj_id')), match.group('obj_type')), False)", "wl.UnresolvedObject(int(match.group('obj_id')) + 1, match.group('obj_type')), False)")], 'C01.3')
M('C01', 'c01-sep-comma-only', [(PARSE, "startswith(', ')", "startswith(',')")], 'C01.8')
M('C01', 'c01-skip-one', [(PARSE, "start = i + 2", "start = i + 1")], 'C01.8')
M('C01', 'c01-no-quote-skip', [(PARSE, "        if args_str[i] == '\"':\n            i = end_of_str(args_str, i)\n", "")], 'C01.8')
M('C01', 'c01-bad-group-name', [(PARSE, "wl.Arg.Fd(int(match.group('fd')))", "wl.Arg.Fd(int(match.group('fdnum')))")], 'C01')
M('C01', 'c01-str-truthiness-again', [(PARSE, "elif match.group('str') is not None:", "elif match.group('str'):")], 'C01.4')
M('C01', 'c01-array-bare-again', [(PARSE, r"array(?:\[\d+\])?", "array")], 'C01.1')
M('C01', 'c01-fd-before-check', [(PARSE, "        elif match.group('fd'):\n            return wl.Arg.Fd(int(match.group('fd')))\n        elif match.group('array'):\n            return wl.Arg.Array()",
                                  "        elif match.group('fd'):\n            return wl.Arg.Array()\n        elif match.group('array'):\n            return wl.Arg.Fd(int(match.group('fd')))")], 'C01')
M('C01', 'c01-nomatch-returns', [(PARSE, "    if not match:\n        raise RuntimeError(raw)", "    if not match:\n        raise RuntimeError('not a message')")], 'C01.10')
M('C01', 'c01-new-id-needs-type', [(PARSE, r"new id (?:(?P<new_type>\w+)|(?:\[unknown\]))[@#]", r"new id (?P<new_type>\w+)[@#]")], 'C01.1')
V('C01', 'c01v-match-renamed-local', [(PARSE, "    match = p.arg_re.match(value_str)\n    if match:", "    match = p.arg_re.match(value_str)\n    if match is not None:")])
V('C01', 'c01v-all-is-not-none', [(PARSE, "if match.group('int'):", "if match.group('int') is not None:")])
V('C01', 'c01v-sent-early-return', [(PARSE, "    if not match:\n        raise RuntimeError(raw)\n    abs_timestamp", "    if match is None:\n        raise RuntimeError(raw)\n    abs_timestamp")])
V('C01', 'c01v-times-0.001', [(PARSE, ".replace(',', '.')) / 1000.0", ".replace(',', '.')) * 0.001")])
