"""Self-test of the checkers (DESIGN.md section 9): mutants must be reported by the named rule, behaviour-
preserving variants must stay silent.  All in memory: the current source of /repo is edited by exact text
replacement and analysed through an overlay; an edit whose anchor text is gone is skipped and counted."""
import importlib
import os
import sys
import time

HERE = os.path.dirname(os.path.abspath(__file__))
sys.path.insert(0, os.path.dirname(HERE))


def _load_specs(prop=None):
    sys.path.insert(0, os.path.join(os.path.dirname(HERE), 'selftest'))
    import mutants
    importlib.reload(mutants)
    specs = list(mutants.SPECS)
    specs.extend(_patch_specs(prop))
    return specs


def _patch_specs(prop):
    """The sub-agents' seeded changes (must be reported by their property's check) and behaviour-preserving refactorings
    (every check must stay silent on every one of them), applied in memory from their patch.diff."""
    import glob
    import json
    root = os.path.dirname(HERE)
    out = []
    for d in sorted(glob.glob(os.path.join(root, 'seeded', '*'))):
        try:
            meta = json.load(open(os.path.join(d, 'meta.json')))
        except (OSError, ValueError):
            continue
        name = os.path.basename(d)
        for p in meta.get('detected_by_checks', []) + meta.get('analysis_error_in_checks', []):
            if p != meta.get('property'):
                continue
            out.append({'prop': p, 'name': 'seed-%s' % name, 'kind': 'mutant', 'patch': os.path.join(d, 'patch.diff'), 'edits': [],
                        'accept_analysis_error': p in meta.get('analysis_error_in_checks', [])})
    if prop:
        props = [prop]
    else:
        try:
            props = [c['property_id'] for c in json.load(open(os.path.join(root, 'MANIFEST.json')))['checks']]
        except (OSError, ValueError, KeyError):
            props = sorted({s['prop'] for s in out})
    for d in sorted(glob.glob(os.path.join(root, 'refactorings', '*'))):
        if not os.path.exists(os.path.join(d, 'patch.diff')):
            continue
        name = os.path.basename(d)
        try:
            recorded = json.load(open(os.path.join(d, 'meta.json'))).get('undecided_now', [])
        except (OSError, ValueError):
            recorded = []
        for p in props:
            # a check may answer "undecided" (exit 2, never an alarm) on a refactoring only where meta.json records that limit
            out.append({'prop': p, 'name': 'refactoring-%s-vs-%s' % (name, p), 'kind': 'variant', 'patch': os.path.join(d, 'patch.diff'), 'edits': [],
                        'undecided_recorded': p in recorded})
    return out


def _apply(repo_root, spec):
    """-> overlay dict or None if the anchor is missing."""
    if spec.get('patch'):
        from sa.patch import apply_patch
        with open(spec['patch'], encoding='utf-8') as f:
            pt = f.read()

        def rd(rel):
            with open(os.path.join(repo_root, rel), encoding='utf-8') as f:
                return f.read()
        return apply_patch(pt, rd)
    overlay = {}
    for rel, old, new in spec['edits']:
        p = os.path.join(repo_root, rel)
        src = overlay.get(rel)
        if src is None:
            with open(p, encoding='utf-8') as f:
                src = f.read()
        if src.count(old) != 1:
            return None
        overlay[rel] = src.replace(old, new)
    return overlay


def _run_one(args):
    repo_root, spec = args
    from sa.main import run_property
    from sa.core import AnalysisError
    overlay = _apply(repo_root, spec)
    if overlay is None:
        return (spec['name'], 'skipped', 'anchor text not found')
    try:
        compile_ok = True
        for rel, src in overlay.items():
            if src is not None and rel.endswith('.py'):
                compile(src, rel, 'exec')
    except SyntaxError as e:
        return (spec['name'], 'broken-spec', 'edit does not compile: %s' % e)
    try:
        from sa.rules import common as _common_rules
        _common_rules._cache.clear()
        code, ctx = run_property(spec['prop'], repo_root, 'quick', overlay=overlay, quiet=True, write=False)
    except AnalysisError as e:
        if spec['kind'] == 'mutant' and spec.get('accept_analysis_error'):
            return (spec['name'], 'detected', 'analysis-error: %s' % e)
        if spec['kind'] == 'variant' and spec.get('undecided_recorded'):
            return (spec['name'], 'undecided-as-recorded', str(e))
        return (spec['name'], 'analysis-error', str(e))
    new, matched = ctx.split_known()
    rules = sorted({v['rule'] for v in new})
    if spec['kind'] == 'mutant':
        if not new:
            return (spec['name'], 'missed', 'no violation reported')
        want = spec.get('rule')
        if want and not any(r == want or r.startswith(want) for r in rules):
            return (spec['name'], 'wrong-rule', 'reported by %s, expected %s' % (rules, want))
        return (spec['name'], 'detected', ','.join(rules))
    else:
        if new:
            return (spec['name'], 'false-alarm', '; '.join('%s %s: %s' % (v['rule'], v['key'], v['msg'][:100]) for v in new))
        return (spec['name'], 'silent', '')


def run_for(prop, repo_root, jobs=16, names=None):
    specs = [s for s in _load_specs(prop) if (prop is None or s['prop'] == prop) and (names is None or s['name'] in names)]
    if not specs:
        return None
    t0 = time.time()
    work = [(repo_root, s) for s in specs]
    if jobs > 1 and len(work) > 1:
        import multiprocessing as mp
        # workers are recycled: the per-repository caches of the rules (paths, call graphs) would otherwise pile up over hundreds of analysed
        # variants until the kernel kills a worker - and a pool that lost a worker never returns
        with mp.Pool(min(jobs, len(work)), maxtasksperchild=12) as pool:
            results = pool.map(_run_one, work, chunksize=1)
    else:
        results = [_run_one(w) for w in work]
    counts = {}
    failed = []
    for name, status, detail in results:
        counts[status] = counts.get(status, 0) + 1
        if status in ('missed', 'wrong-rule', 'false-alarm', 'analysis-error', 'broken-spec'):
            failed.append('%s: %s (%s)' % (name, status, detail))
    summary = 'self-test %s: %s in %.1fs' % (prop or 'all', ', '.join('%s=%d' % kv for kv in sorted(counts.items())),
                                             time.time() - t0)
    return {'summary': summary, 'failed': failed, 'results': results, 'counts': counts}


if __name__ == '__main__':
    import argparse
    ap = argparse.ArgumentParser()
    ap.add_argument('prop', nargs='?')
    ap.add_argument('--repo', default=os.environ.get('REPO', '/repo'))
    ap.add_argument('--name', action='append')
    ap.add_argument('-j', type=int, default=16)
    a = ap.parse_args()
    r = run_for(a.prop.upper() if a.prop else None, a.repo, jobs=a.j, names=a.name)
    if r is None:
        print('no specs')
        sys.exit(0)
    for name, status, detail in r['results']:
        print('%-14s %-40s %s' % (status, name, detail[:200]))
    print(r['summary'])
    sys.exit(2 if r['failed'] else 0)
