"""E10 / E7: path-sensitive structural interpreter ("scenario evaluator") and provenance terms.

It enumerates the control-flow paths of a function (loops unrolled to a small bound, optional inlining of
named callees).  Nothing is executed: conditions are *atoms* (normalised, substituted source text) that
fork the path; values are syntactic terms in which single-assignment locals are looked through.  Rules
then quantify over the finite set of paths: "target reached iff expected(facts)", "on every path A
precedes B", "the argument of call C has provenance T", ...
"""
import ast
import re
import builtins
import copy

from .core import AnalysisError, norm, FuncInfo

MAX_PATHS = 60000

PURE_BUILTINS = {'isinstance', 'len', 'str', 'int', 'float', 'bool', 'hasattr', 'repr', 'tuple', 'list',
                 'reversed', 'enumerate', 'range', 'ord', 'chr', 'hex', 'min', 'max', 'abs', 'sorted', 'type',
                 'filter', 'map', 'set', 'dict', 'cast', 'callable', 'id', 'any', 'all', 'sum', 'iter', 'next'}
PURE_METHODS = {'get', 'startswith', 'endswith', 'strip', 'lower', 'upper', 'split', 'rsplit', 'replace', 'join',
                'format', 'group', 'keys', 'values', 'items', 'copy', 'lstrip', 'rstrip', 'find', 'index', 'count',
                'isdigit', 'encode', 'decode', 'match', 'search', 'findall'}
MUTATORS = {'append', 'extend', 'insert', 'pop', 'remove', 'clear', 'add', 'discard', 'update', 'sort', 'reverse',
            'setdefault', 'popitem'}


def exc_catches(handler_type, raised):
    """Does `except handler_type` catch an exception of (builtin or unknown) type name `raised`?"""
    if handler_type is None or handler_type == 'BaseException':
        return True
    if handler_type == raised:
        return True
    h = getattr(builtins, handler_type, None)
    r = getattr(builtins, raised, None)
    if isinstance(h, type) and isinstance(r, type) and issubclass(r, h):
        return True
    if handler_type == 'Exception' and r is None:
        return True         # user-defined exceptions derive from Exception
    return False


class Atom:
    __slots__ = ('text', 'key', 'node', 'sym', 'func')

    def __init__(self, text, key, node, sym, func):
        self.text = text
        self.key = key
        self.node = node
        self.sym = sym
        self.func = func

    def __repr__(self):
        return 'Atom(%s)' % self.text


class Event:
    __slots__ = ('kind', 'node', 'func', 'text', 'ftext', 'args', 'kwargs', 'recv', 'targets', 'value', 'target',
                 'ep', 'loops', 'site', 'extra')

    def __init__(self, kind, node, func, **kw):
        self.kind = kind
        self.node = node
        self.func = func
        self.text = kw.get('text')
        self.ftext = kw.get('ftext')
        self.args = kw.get('args', [])
        self.kwargs = kw.get('kwargs', {})
        self.recv = kw.get('recv')
        self.targets = kw.get('targets', ())
        self.value = kw.get('value')
        self.target = kw.get('target')
        self.ep = kw.get('ep', 0)
        self.loops = kw.get('loops', ())
        self.site = kw.get('site')
        self.extra = kw.get('extra')

    def __repr__(self):
        return 'Ev(%s %s @%s)' % (self.kind, self.text, getattr(self.node, 'lineno', '?'))

    def calls(self, name):
        """Is this a call event whose callee is named `name` (method or function simple name, or qual suffix)?"""
        if self.kind != 'call':
            return False
        for t in self.targets:
            if t.name == name or t.qual.endswith('.' + name) or t.short == name:
                return True
        ft = self.ftext or ''
        return ft == name or ft.endswith('.' + name)

    def arg(self, i, name=None):
        if name is not None and name in self.kwargs:
            return self.kwargs[name]
        if i is not None and i < len(self.args):
            return self.args[i]
        return None

    def argtext(self, i, name=None):
        a = self.arg(i, name)
        return None if a is None else norm(a)


def clone_ast(n):
    """Structural copy of an AST subtree (fields and positions only; `_parent` back-links are NOT followed - a
    deepcopy through them copies the whole module).  `_origin` marks are kept by reference."""
    if isinstance(n, list):
        return [clone_ast(x) for x in n]
    if not isinstance(n, ast.AST):
        return n
    m = n.__class__()
    for fld in n._fields:
        if hasattr(n, fld):
            setattr(m, fld, clone_ast(getattr(n, fld)))
    for a in ('lineno', 'col_offset', 'end_lineno', 'end_col_offset'):
        if hasattr(n, a):
            setattr(m, a, getattr(n, a))
    for a in ('_origin', '_elts', '_comp'):
        if hasattr(n, a):
            setattr(m, a, getattr(n, a))
    return m


class Path:
    def __init__(self):
        self.events = []
        self.decisions = []     # (Atom, bool)
        self.outcome = None     # ('return', sym) ('raise', type, node) ('fall',) ('loop-limit', node)
        self.truncated = False

    def facts(self):
        return {a.text: v for a, v in self.decisions}

    def calls(self, name):
        return [e for e in self.events if e.calls(name)]

    def describe(self):
        ds = ', '.join('%s=%s' % (a.text, 'T' if v else 'F') for a, v in self.decisions)
        return '[%s] -> %s' % (ds, self.outcome_text())

    def outcome_text(self):
        o = self.outcome
        if o is None:
            return '?'
        if o[0] == 'return':
            return 'return ' + norm(o[1])
        if o[0] == 'raise':
            return 'raise ' + str(o[1])
        return o[0]


class _State:
    __slots__ = ('env', 'heap', 'events', 'decisions', 'dmap', 'ep', 'loops', 'truncated', 'exc')

    def __init__(self):
        self.env = {}
        self.heap = {}
        self.events = []
        self.decisions = []
        self.dmap = {}
        self.ep = 0
        self.loops = ()
        self.truncated = False
        self.exc = None     # current exception (type, node) inside a handler, for bare `raise`

    def fork(self):
        s = _State()
        s.env = dict(self.env)
        s.heap = dict(self.heap)
        s.events = list(self.events)
        s.decisions = list(self.decisions)
        s.dmap = dict(self.dmap)
        s.ep = self.ep
        s.loops = self.loops
        s.truncated = self.truncated
        s.exc = self.exc
        return s


_CANON = None


def _canon_params(f):
    """Parameter names of f as they were on the pinned tree (frozen in canon_params.json), so that a mere renaming of a
    parameter does not change the symbolic terms the rules match on.  None if unknown or the arity changed."""
    global _CANON
    if _CANON is None:
        import json
        import os
        try:
            with open(os.path.join(os.path.dirname(os.path.abspath(__file__)), 'canon_params.json')) as fh:
                _CANON = json.load(fh)
        except OSError:
            _CANON = {}
    c = _CANON.get('functions', {}).get(getattr(f, 'canon_qual', None) or f.qual)
    if c is not None and len(c) == len(f.params()):
        return c
    return None


def is_new_function(f):
    """Did this function not exist on the pinned tree?  New functions are refactoring artefacts from the rules' point of view:
    they are inlined by the path simulator and looked through by writer / who-may-call enumeration."""
    _canon_params(f)
    return bool(_CANON.get('functions')) and (getattr(f, 'canon_qual', None) or f.qual) not in _CANON['functions'] and not f.is_module_body


def is_new_module_var(module, name):
    if _CANON is None:
        return False
    mv = _CANON.get('module_vars', {})
    return module.name in mv and name not in mv[module.name]


def _fold_int_binop(b):
    """`0 + 1` is `1`: integer arithmetic on two literals folds (running counters, hoisted offsets)"""
    if isinstance(b, ast.BinOp) and isinstance(b.left, ast.Constant) and isinstance(b.right, ast.Constant) \
            and type(b.left.value) is int and type(b.right.value) is int and isinstance(b.op, (ast.Add, ast.Sub, ast.Mult)):
        v = {ast.Add: b.left.value + b.right.value, ast.Sub: b.left.value - b.right.value, ast.Mult: b.left.value * b.right.value}[type(b.op)]
        if v >= 0:
            return ast.Constant(value=v)
    return b


_CONST_FUNCS = {'ord', 'chr', 'len', 'frozenset', 'tuple', 'int', 'float', 'str', 'abs', 'min', 'max'}


def _is_constant_expr(v, depth=0):
    """an immutable value computed from literals by total builtins (hoisted `ord('A')`, `26 * 26`, `frozenset('abc')`)"""
    if depth > 5:
        return False
    if isinstance(v, ast.Constant):
        return not isinstance(v.value, bytes)
    if isinstance(v, ast.UnaryOp) and isinstance(v.op, (ast.USub, ast.UAdd)):
        return _is_constant_expr(v.operand, depth + 1)
    if isinstance(v, ast.BinOp) and isinstance(v.op, (ast.Add, ast.Sub, ast.Mult)):
        return _is_constant_expr(v.left, depth + 1) and _is_constant_expr(v.right, depth + 1)
    if isinstance(v, ast.Tuple):
        return all(_is_constant_expr(x, depth + 1) for x in v.elts)
    if isinstance(v, ast.Attribute) and isinstance(v.value, ast.Constant) and isinstance(v.value.value, str) and v.attr in ('format', 'join', 'format_map'):
        return True         # a bound method of a literal: FMT = '{:0.4f}'.format
    if isinstance(v, ast.Call) and isinstance(v.func, ast.Name) and v.func.id in _CONST_FUNCS and not v.keywords and 1 <= len(v.args) <= 2:
        return all(_is_constant_expr(x, depth + 1) or (isinstance(x, (ast.List, ast.Set)) and v.func.id in ('frozenset', 'tuple') and all(_is_constant_expr(y, depth + 2) for y in x.elts))
                   for x in v.args)
    return False


def _literal_elts(itsym, depth=0):
    """The elements an iteration over `itsym` yields, when they are all known: a tuple / list display, the value of a filtered
    comprehension on this path, a local bound to one of those, and enumerate / reversed / list / tuple of such."""
    if depth > 4:
        return None
    if isinstance(itsym, (ast.Tuple, ast.List)):
        if 0 < len(itsym.elts) <= 8 and not any(isinstance(x, ast.Starred) for x in itsym.elts):
            return list(itsym.elts)
        return None
    if hasattr(itsym, '_elts'):
        return list(itsym._elts)
    if isinstance(itsym, ast.Name) and getattr(itsym, '_origin', None) is not None:
        if isinstance(itsym._origin, ast.List) and not itsym._origin.elts:
            return []           # a local list followed element by element that is (still) empty
        return _literal_elts(itsym._origin, depth + 1)
    if isinstance(itsym, ast.Subscript) and isinstance(itsym.slice, ast.Slice):
        # a constant slice of a list known element by element: X[-1:], X[:1], X[1:3]
        inner = _literal_elts(itsym.value, depth + 1)
        if inner is not None:
            bounds = []
            for b_ in (itsym.slice.lower, itsym.slice.upper, itsym.slice.step):
                if b_ is None:
                    bounds.append(None)
                elif isinstance(b_, ast.Constant) and isinstance(b_.value, int) and not isinstance(b_.value, bool):
                    bounds.append(b_.value)
                elif isinstance(b_, ast.UnaryOp) and isinstance(b_.op, ast.USub) and isinstance(b_.operand, ast.Constant) and isinstance(b_.operand.value, int):
                    bounds.append(-b_.operand.value)
                else:
                    return None
            if bounds[2] == 0:
                return None
            return inner[slice(*bounds)]
        return None
    if isinstance(itsym, ast.Call) and isinstance(itsym.func, ast.Name) and not itsym.keywords:
        if itsym.func.id == 'enumerate' and 1 <= len(itsym.args) <= 2:
            inner = _literal_elts(itsym.args[0], depth + 1)
            start = 0
            if len(itsym.args) == 2:
                if not (isinstance(itsym.args[1], ast.Constant) and isinstance(itsym.args[1].value, int)):
                    return None
                start = itsym.args[1].value
            if inner is not None:
                return [ast.Tuple(elts=[ast.Constant(value=start + i), x], ctx=ast.Load()) for i, x in enumerate(inner)]
        if itsym.func.id in ('list', 'tuple') and len(itsym.args) == 1:
            return _literal_elts(itsym.args[0], depth + 1)
        if itsym.func.id == 'reversed' and len(itsym.args) == 1:
            inner = _literal_elts(itsym.args[0], depth + 1)
            return list(reversed(inner)) if inner is not None else None
    return None


_STR_RESULT_METHODS = {'strip', 'lstrip', 'rstrip', 'lower', 'upper', 'replace', 'format', 'join', 'split', 'rsplit', 'splitlines', 'partition',
                       'rpartition', 'capitalize', 'title', 'startswith', 'endswith', 'encode', 'decode', 'zfill', 'ljust', 'rjust', 'center',
                       'isdigit', 'isalpha', 'find', 'rfind', 'count', 'keys', 'values', 'items', 'copy', 'readline', 'readlines', 'read'}
_NEVER_NONE_FUNCS = {'str', 'int', 'float', 'len', 'list', 'tuple', 'dict', 'set', 'bool', 'repr', 'sorted', 'reversed', 'enumerate', 'range', 'abs',
                     'min', 'max', 'sum', 'hex', 'chr', 'ord', 'isinstance', 'hasattr', 'format', 'frozenset', 'zip', 'map', 'filter', 'divmod'}


# methods of the GDB Python API that return a value object or raise, never None (gdb.Frame.read_var, gdb.parse_and_eval, gdb.lookup_type,
# gdb.Value.cast / dereference): a refactoring that threads such a value through an Optional parameter must not create a "was None" path
_GDB_VALUE_METHODS = {'read_var', 'parse_and_eval', 'lookup_type', 'dereference'}


def _never_none(sym):
    """terms whose value cannot be None: results of str / container methods and of value-building builtins, displays, arithmetic"""
    if isinstance(sym, (ast.List, ast.Tuple, ast.Dict, ast.Set, ast.ListComp, ast.DictComp, ast.SetComp, ast.GeneratorExp, ast.JoinedStr, ast.BinOp, ast.Compare)):
        return True
    if isinstance(sym, ast.Constant):
        return sym.value is not None
    if isinstance(sym, ast.Call):
        if isinstance(sym.func, ast.Attribute) and (sym.func.attr in _STR_RESULT_METHODS or sym.func.attr in _GDB_VALUE_METHODS):
            return True
        if isinstance(sym.func, ast.Name) and sym.func.id in _NEVER_NONE_FUNCS:
            return True
    return False


def _canon_subscript(base, idx):
    """Subscripts with a fixed meaning: m['name'] on a regex match object is m.group('name'); m.group('a', 'b')[k] is m.group(<k-th name>);
    a constant index into a tuple / list display written out in full is that element."""
    if isinstance(idx, ast.Constant) and isinstance(idx.value, (str, int)) and not isinstance(idx.value, bool) and isinstance(base, ast.Call) \
            and isinstance(base.func, ast.Attribute) and base.func.attr in ('search', 'match', 'fullmatch') and len(base.args) >= 1 and not base.keywords:
        return ast.Call(func=ast.Attribute(value=base, attr='group', ctx=ast.Load()), args=[idx], keywords=[])
    if isinstance(idx, ast.Constant) and isinstance(idx.value, str) and isinstance(base, ast.Call) and isinstance(base.func, ast.Attribute) \
            and base.func.attr == 'groupdict' and not base.args and not base.keywords and isinstance(base.func.value, ast.Call) \
            and isinstance(base.func.value.func, ast.Attribute) and base.func.value.func.attr in ('search', 'match', 'fullmatch'):
        # m.groupdict()['name'] is m.group('name') (a group that took no part is None either way)
        return ast.Call(func=ast.Attribute(value=base.func.value, attr='group', ctx=ast.Load()), args=[idx], keywords=[])
    if isinstance(idx, ast.Constant) and isinstance(idx.value, int) and not isinstance(idx.value, bool) and isinstance(base, ast.Call) \
            and isinstance(base.func, ast.Attribute) and base.func.attr == 'group' and len(base.args) > 1 and not base.keywords \
            and -len(base.args) <= idx.value < len(base.args):
        return ast.Call(func=base.func, args=[base.args[idx.value]], keywords=[])
    if isinstance(idx, ast.Constant) and isinstance(idx.value, int) and not isinstance(idx.value, bool) and isinstance(base, ast.Tuple) \
            and not any(isinstance(x, ast.Starred) for x in base.elts) and -len(base.elts) <= idx.value < len(base.elts):
        return base.elts[idx.value]
    return None


def _enumerate_parts(itsym):
    """(iterable, start) when itsym is enumerate(X), enumerate(X, c) or enumerate(X, start=c) with a constant c"""
    if isinstance(itsym, ast.Call) and isinstance(itsym.func, ast.Name) and itsym.func.id == 'enumerate' and 1 <= len(itsym.args) <= 2:
        start = None
        if len(itsym.args) == 2:
            start = itsym.args[1]
        for k in itsym.keywords:
            if k.arg == 'start':
                start = k.value
            else:
                return None
        if start is None:
            return itsym.args[0], 0
        if isinstance(start, ast.Constant) and isinstance(start.value, int):
            return itsym.args[0], start.value
    return None


def _is_mutable_display(sym):
    if isinstance(sym, (ast.List, ast.Dict, ast.Set, ast.ListComp, ast.DictComp, ast.SetComp)):
        return True
    if isinstance(sym, ast.Call) and isinstance(sym.func, ast.Name) and sym.func.id in ('list', 'dict', 'set',
                                                                                       'OrderedDict') \
            and not sym.args and not sym.keywords:
        return True
    return False


def heap_dependent(n):
    for x in ast.walk(n):
        if isinstance(x, (ast.Attribute, ast.Call, ast.Subscript)):
            return True
    return False


def key_of(sym):
    eps = []
    for x in ast.walk(sym):
        ep = getattr(x, '_ep', None)
        if ep is not None:
            eps.append(str(ep))
    return norm(sym) + '#' + ','.join(eps)


def const_value(n):
    """(True, value) if n is a literal constant (incl. negative numbers), else (False, None)."""
    try:
        return True, ast.literal_eval(n)
    except Exception:
        pass
    # small integer arithmetic over literals (0 + 1, 2 * 3 - 1)
    if isinstance(n, ast.BinOp) and isinstance(n.op, (ast.Add, ast.Sub, ast.Mult)):
        ok1, a = const_value(n.left)
        ok2, b = const_value(n.right)
        if ok1 and ok2 and isinstance(a, (int, float)) and isinstance(b, (int, float)) and not isinstance(a, bool) and not isinstance(b, bool):
            return True, (a + b if isinstance(n.op, ast.Add) else a - b if isinstance(n.op, ast.Sub) else a * b)
    return False, None


def g0_is_none_marker(g):
    return g is None


class PathSim:
    def __init__(self, repo, func, inline=(), may_raise=None, unroll=2, asserts='ignore', oracle=None,
                 fork_ifexp=True, inline_depth=3, max_paths=MAX_PATHS, while_unroll=None, track_frames=False,
                 bool_returns=False, expand_maps=False, stable_attrs=()):
        self.repo = repo
        self.func = func
        self.expand_maps = expand_maps          # [f(x) for x in X] without a filter is expanded element by element too
        self._itab_cache = {}
        self._blind = set()
        self.stable_attrs = frozenset(stable_attrs)     # heap paths (texts) assumed not to be written by the opaque calls of this function
        self.cg = repo.callgraph()
        self.inline = set(inline)
        self.may_raise = may_raise
        self.unroll = unroll
        self.while_unroll = while_unroll if while_unroll is not None else unroll
        self.asserts = asserts
        self.oracle = oracle
        self.fork_ifexp = fork_ifexp
        self.inline_depth = inline_depth
        self.max_paths = max_paths
        self.bool_returns = bool_returns
        self.auto_inline = True
        self._gen_ctx = {}
        self._synth_loops = {}
        self._count = 0
        self._fresh = 0

    def _clear_heap(self, st):
        if self.stable_attrs:
            keep = {k: v for k, v in st.heap.items() if k in self.stable_attrs}
            st.heap.clear()
            st.heap.update(keep)
        else:
            st.heap.clear()

    # ------------------------------------------------------------------------------------------
    def run(self):
        st = _State()
        f = self.func
        canon = _canon_params(f)
        for i, p in enumerate(f.params()):
            st.env[(0, p)] = ast.Name(id=(canon[i] if canon else p), ctx=ast.Load())
        frame = (f, 0, 0)
        results = self.exec_block(f.node.body, st, frame)
        if self._blind:
            raise AnalysisError('%s calls %s, generator function(s) this tree gained: lazily interleaved execution is not followed by the path interpreter'
                                % (f.short, ', '.join(sorted(self._blind))))
        paths = []
        for s, sig in results:
            p = Path()
            p.events = s.events
            p.decisions = s.decisions
            p.truncated = s.truncated
            if sig is None:
                p.outcome = ('fall',)
            else:
                p.outcome = sig
            paths.append(p)
        return paths

    # -- frames: (FuncInfo, frame id, depth) ---------------------------------------------------
    def _new_frame(self, g, depth):
        self._fresh += 1
        return (g, self._fresh, depth)

    # -- statements ---------------------------------------------------------------------------
    def exec_block(self, stmts, st, frame):
        results = [(st, None)]
        for stmt in stmts:
            new = []
            for s, sig in results:
                if sig is not None:
                    new.append((s, sig))
                else:
                    new.extend(self.exec_stmt(stmt, s, frame))
            results = new
            if len(results) > self.max_paths:
                raise AnalysisError('path explosion in %s' % self.func.qual)
        return results

    def exec_stmt(self, stmt, st, frame):
        f = frame[0]
        if isinstance(stmt, ast.Expr):
            if isinstance(stmt.value, ast.Constant):
                return [(st, None)]
            if isinstance(stmt.value, ast.Yield) and frame[1] in self._gen_ctx:
                return self._exec_yield(stmt, st, frame)
            return [(s, sig) for _, s, sig in self.ev(stmt.value, st, frame)]
        if isinstance(stmt, ast.Assign):
            out = []
            for sym, s, sig in self.ev(stmt.value, st, frame):
                if sig is not None:
                    out.append((s, sig))
                    continue
                rs = [(s, None)]
                targets = list(stmt.targets)
                names = [t for t in targets if isinstance(t, ast.Name)]
                reordered = len(targets) > 1 and bool(names) and _is_mutable_display(sym)
                if reordered:
                    # `a = self.x[k] = []`: one fresh container bound to a local and stored into the heap - bind the local first,
                    # then store it by name so that the local becomes an alias of the heap path
                    targets = names + [t for t in targets if not isinstance(t, ast.Name)]
                for i_, t in enumerate(targets):
                    nrs = []
                    for s2, sg in rs:
                        if sg is not None:
                            nrs.append((s2, sg))
                        else:
                            v_ = sym
                            if reordered and not isinstance(t, ast.Name):
                                v_ = ast.Name(id=names[0].id, ctx=ast.Load())
                                v_._origin = sym
                            nrs.extend(self.assign(t, v_, s2, frame, stmt))
                    rs = nrs
                out.extend(rs)
            return out
        if isinstance(stmt, ast.AnnAssign):
            if stmt.value is None:
                return [(st, None)]
            out = []
            for sym, s, sig in self.ev(stmt.value, st, frame):
                if sig is not None:
                    out.append((s, sig))
                else:
                    out.extend(self.assign(stmt.target, sym, s, frame, stmt))
            return out
        if isinstance(stmt, ast.AugAssign):
            out = []
            for sym, s, sig in self.ev(stmt.value, st, frame):
                if sig is not None:
                    out.append((s, sig))
                    continue
                for cur, s2, sig2 in self.ev(self._as_load(stmt.target), s, frame):
                    if sig2 is not None:
                        out.append((s2, sig2))
                        continue
                    newv = _fold_int_binop(ast.BinOp(left=cur, op=stmt.op, right=sym))
                    s2.events.append(Event('aug', stmt, f, text=norm(stmt), target=self._subst_target(stmt.target, s2, frame),
                                           value=sym, ep=s2.ep, loops=s2.loops, extra=type(stmt.op).__name__))
                    if isinstance(stmt.target, ast.Name) and isinstance(stmt.op, ast.Add):
                        held = s2.env.get((frame[1], stmt.target.id))
                        more = _literal_elts(sym) if (isinstance(sym, (ast.List, ast.Tuple)) or hasattr(sym, '_elts')) else None
                        if isinstance(held, ast.List) and not any(isinstance(x_, ast.Starred) for x_ in held.elts) and more is not None \
                                and len(held.elts) + len(more) <= 24:
                            # parts += [a, b] on a list followed element by element is extend: the local keeps denoting the grown display
                            s2.env[(frame[1], stmt.target.id)] = ast.List(elts=list(held.elts) + list(more), ctx=ast.Load())
                            out.append((s2, None))
                            continue
                    out.extend(self.assign(stmt.target, newv, s2, frame, stmt, quiet=True))
            return out
        if isinstance(stmt, ast.Return):
            if stmt.value is None:
                st.events.append(Event('return', stmt, f, text='return', value=None, ep=st.ep, loops=st.loops))
                return [(st, ('return', ast.Constant(value=None)))]
            out = []
            inl_pred = frame[2] > 0 and getattr(f.node, 'returns', None) is not None and norm(f.node.returns) == 'bool' and not f.is_module_body
            if self.bool_returns and (frame[2] == 0 or inl_pred) and not isinstance(stmt.value, ast.Constant):
                # a predicate: decide the returned condition, so that every path returns a constant truth value
                for v, s, sig in self.cond(stmt.value, st, frame):
                    if sig is not None:
                        out.append((s, sig))
                    else:
                        c = ast.Constant(value=bool(v))
                        s.events.append(Event('return', stmt, f, text=norm(stmt), value=c, ep=s.ep, loops=s.loops))
                        out.append((s, ('return', c)))
                return out
            for sym, s, sig in self.ev(stmt.value, st, frame):
                if sig is not None:
                    out.append((s, sig))
                else:
                    s.events.append(Event('return', stmt, f, text=norm(stmt), value=sym, ep=s.ep, loops=s.loops))
                    out.append((s, ('return', sym)))
            return out
        if isinstance(stmt, ast.Raise):
            if stmt.exc is None:
                et = st.exc[0] if st.exc else 'Exception'
                st.events.append(Event('raise', stmt, f, text='raise', extra=et, ep=st.ep, loops=st.loops,
                                       value=st.exc[2] if st.exc and len(st.exc) > 2 else None))
                return [(st, ('raise', et, stmt))]
            exc = stmt.exc
            out = []
            tname = self._exc_name(exc)
            if isinstance(exc, ast.Call):
                parts = []
                rs = [([], st, None)]
                for a in exc.args:
                    nrs = []
                    for acc, s, sig in rs:
                        if sig is not None:
                            nrs.append((acc, s, sig))
                            continue
                        for sym, s2, sig2 in self.ev(a, s, frame):
                            nrs.append((acc + [sym], s2, sig2))
                    rs = nrs
                for acc, s, sig in rs:
                    if sig is not None:
                        out.append((s, sig))
                        continue
                    s.events.append(Event('raise', stmt, f, text=norm(stmt), extra=tname, args=acc, ep=s.ep,
                                          loops=s.loops))
                    out.append((s, ('raise', tname, stmt, acc)))
                return out
            st.events.append(Event('raise', stmt, f, text=norm(stmt), extra=tname, ep=st.ep, loops=st.loops))
            return [(st, ('raise', tname, stmt, []))]
        if isinstance(stmt, ast.Assert):
            if self.asserts == 'ignore':
                return [(st, None)]
            out = []
            for v, s, sig in self.cond(stmt.test, st, frame):
                if sig is not None:
                    out.append((s, sig))
                elif v:
                    out.append((s, None))
                else:
                    s.events.append(Event('raise', stmt, f, text=norm(stmt), extra='AssertionError', ep=s.ep,
                                          loops=s.loops))
                    out.append((s, ('raise', 'AssertionError', stmt, [])))
            return out
        if isinstance(stmt, ast.If):
            out = []
            for v, s, sig in self.cond(stmt.test, st, frame):
                if sig is not None:
                    out.append((s, sig))
                elif v:
                    out.extend(self.exec_block(stmt.body, s, frame))
                else:
                    out.extend(self.exec_block(stmt.orelse, s, frame))
            return out
        if isinstance(stmt, ast.While):
            return self.exec_while(stmt, st, frame)
        if isinstance(stmt, ast.For):
            return self.exec_for(stmt, st, frame)
        if isinstance(stmt, ast.Try):
            return self.exec_try(stmt, st, frame)
        if isinstance(stmt, ast.With):
            rs = [(st, None)]
            for item in stmt.items:
                nrs = []
                for s, sig in rs:
                    if sig is not None:
                        nrs.append((s, sig))
                        continue
                    for sym, s2, sig2 in self.ev(item.context_expr, s, frame):
                        if sig2 is not None:
                            nrs.append((s2, sig2))
                        elif item.optional_vars is not None:
                            nrs.extend(self.assign(item.optional_vars, sym, s2, frame, stmt))
                        else:
                            nrs.append((s2, None))
                rs = nrs
            out = []
            for s, sig in rs:
                if sig is not None:
                    out.append((s, sig))
                else:
                    for s2, sig2 in self.exec_block(stmt.body, s, frame):
                        s2.events.append(Event('with-exit', stmt, f, text='with-exit ' + norm(stmt.items[0].context_expr),
                                               ep=s2.ep, loops=s2.loops))
                        out.append((s2, sig2))
            return out
        if isinstance(stmt, (ast.Pass, ast.Import, ast.ImportFrom, ast.Global, ast.Nonlocal)):
            return [(st, None)]
        if isinstance(stmt, ast.Break):
            return [(st, 'break')]
        if isinstance(stmt, ast.Continue):
            return [(st, 'continue')]
        if isinstance(stmt, ast.Delete):
            for t in stmt.targets:
                st.ep += 1
                self._clear_heap(st)
                st.events.append(Event('del', stmt, f, text=norm(stmt), target=self._subst_target(t, st, frame),
                                       ep=st.ep, loops=st.loops))
            return [(st, None)]
        if isinstance(stmt, (ast.FunctionDef, ast.ClassDef)):
            return [(st, None)]
        raise AnalysisError('unsupported statement %s in %s' % (type(stmt).__name__, f.loc(stmt)))

    def exec_while(self, stmt, st, frame):
        out = []
        pending = [(st, 0)]
        base_loops = st.loops
        while pending:
            s, k = pending.pop()
            if k > self.while_unroll:
                s.truncated = True
                s.loops = base_loops
                out.append((s, ('loop-limit', stmt)))
                continue
            s.loops = base_loops + ((id(stmt), k),)
            for v, s2, sig in self.cond(stmt.test, s, frame):
                if sig is not None:
                    s2.loops = base_loops
                    out.append((s2, sig))
                    continue
                if not v:
                    s2.loops = base_loops
                    out.extend(self.exec_block(stmt.orelse, s2, frame))
                    continue
                for s3, sig3 in self.exec_block(stmt.body, s2, frame):
                    if sig3 is None or sig3 == 'continue':
                        pending.append((s3, k + 1))
                    elif sig3 == 'break':
                        s3.loops = base_loops
                        out.append((s3, None))
                    else:
                        s3.loops = base_loops
                        out.append((s3, sig3))
            if len(out) + len(pending) > self.max_paths:
                raise AnalysisError('path explosion in %s' % self.func.qual)
        return out

    def _generator_target(self, call, frame):
        if not isinstance(call, ast.Call):
            return None
        site = self.cg.site_of(frame[0], call)
        if site is None:
            return None
        ts = self.cg.targets(site)
        if len(ts) != 1:
            return None
        g = next(iter(ts))
        if g.is_module_body or not is_new_function(g):
            return None
        ys = [x for x in g.body_nodes() if isinstance(x, (ast.Yield, ast.YieldFrom))]
        if not ys:
            return None
        for y in ys:
            if isinstance(y, ast.YieldFrom) or not isinstance(getattr(y, '_parent', None), ast.Expr):
                raise AnalysisError('generator %s uses yield in an unsupported way' % g.qual)
        return g, site

    def exec_for_generator(self, stmt, g, site, st, frame):
        """`for x in gen(...)` where gen is a freshly extracted generator: the generator body is run as a coroutine, each
        `yield v` runs the loop body with x = v."""
        f = frame[0]
        call = stmt.iter
        out = []
        # evaluate receiver and arguments
        recv_list = [(None, st, None)]
        if isinstance(call.func, ast.Attribute):
            recv_list = self.ev(call.func.value, st, frame)
        for recv, s0, sig in recv_list:
            if sig is not None:
                out.append((s0, sig))
                continue
            rs = [([], s0, None)]
            for a in call.args:
                nrs = []
                for acc, s1, sg in rs:
                    if sg is not None:
                        nrs.append((acc, s1, sg))
                        continue
                    for asym, s2, sg2 in self.ev(a, s1, frame):
                        nrs.append((acc + [asym], s2, sg2))
                rs = nrs
            for acc, s1, sg in rs:
                if sg is not None:
                    out.append((s1, sg))
                    continue
                kw = {}
                nf = self._new_frame(g, frame[2] + 1)
                self._bind_params(g, call, recv, acc, kw, s1, nf, site)
                base_loops = s1.loops
                self._gen_ctx[nf[1]] = (stmt, frame, base_loops)
                for s2, sig2 in self.exec_block(g.node.body, s1, nf):
                    s2.loops = base_loops
                    if sig2 is None or (isinstance(sig2, tuple) and sig2[0] == 'return'):
                        s2.events.append(Event('loop-exit', stmt, f, text='for-exit', extra=sum(1 for e in s2.events if e.kind == 'loop-iter' and e.node is stmt), ep=s2.ep, loops=base_loops))
                        out.extend(self.exec_block(stmt.orelse, s2, frame))
                    elif isinstance(sig2, tuple) and sig2[0] == 'genbreak':
                        s2.events.append(Event('loop-break', stmt, f, text='for-break', extra=0, ep=s2.ep, loops=base_loops))
                        out.append((s2, None))
                    elif isinstance(sig2, tuple) and sig2[0] == 'outer':
                        out.append((s2, sig2[1]))
                    else:
                        out.append((s2, sig2))
        return out

    def _exec_yield(self, stmt, st, frame):
        loop, oframe, base_loops = self._gen_ctx[frame[1]]
        f = oframe[0]
        out = []
        val = stmt.value.value
        vals = [(ast.Constant(value=None), st, None)] if val is None else self.ev(val, st, frame)
        for sym, s, sig in vals:
            if sig is not None:
                out.append((s, sig))
                continue
            n = sum(1 for e in s.events if e.kind == 'loop-iter' and e.node is loop)
            gen_loops = s.loops
            s.loops = gen_loops + ((id(loop), n),)
            s.events.append(Event('loop-iter', loop, f, text='for-iter', extra=n, value=sym, ep=s.ep, loops=s.loops))
            for s1, sg in self.assign(loop.target, sym, s, oframe, loop, quiet=True):
                for s2, sig2 in self.exec_block(loop.body, s1, oframe):
                    s2.loops = gen_loops
                    if sig2 is None or sig2 == 'continue':
                        out.append((s2, None))
                    elif sig2 == 'break':
                        out.append((s2, ('genbreak',)))
                    else:
                        out.append((s2, ('outer', sig2)))
        return out

    def exec_for(self, stmt, st, frame):
        f = frame[0]
        out = []
        gt = self._generator_target(stmt.iter, frame) if self.auto_inline else None
        if gt is not None:
            return self.exec_for_generator(stmt, gt[0], gt[1], st, frame)
        it = stmt.iter
        if isinstance(it, ast.Call) and isinstance(it.func, ast.Name) and it.func.id == 'iter' and len(it.args) == 2 and not it.keywords \
                and isinstance(it.args[0], ast.Lambda) and not it.args[0].args.args:
            return self._exec_for_sentinel(stmt, it.args[0].body, it.args[1], st, frame)
        for itsym, s0, sig in self.ev(stmt.iter, st, frame):
            if sig is not None:
                out.append((s0, sig))
                continue
            base_loops = s0.loops
            pending = [(s0, 0)]
            # a loop over a literal tuple / list display runs exactly once per written element, with that element
            literal = _literal_elts(itsym)
            while pending:
                s, k = pending.pop()
                if literal is None or k == len(literal):
                    # exit after k iterations
                    s_exit = s.fork() if literal is None else s
                    s_exit.loops = base_loops
                    s_exit.events.append(Event('loop-exit', stmt, f, text='for-exit', extra=k, value=itsym, ep=s_exit.ep,
                                               loops=base_loops))
                    out.extend(self.exec_block(stmt.orelse, s_exit, frame))
                    if literal is not None:
                        continue
                if literal is None and k >= self.unroll:
                    continue
                s.loops = base_loops + ((id(stmt), k),)
                if literal is not None:
                    elem = literal[k]
                else:
                    en = _enumerate_parts(itsym)
                    if en is not None:
                        inner = ast.Name(id='<elem%d of %s>' % (k, norm(en[0])), ctx=ast.Load())
                        inner._iter = en[0]
                        inner._k = k
                        elem = ast.Tuple(elts=[ast.Constant(value=k + en[1]), inner], ctx=ast.Load())
                    else:
                        elem = ast.Name(id='<elem%d of %s>' % (k, norm(itsym)), ctx=ast.Load())
                        elem._iter = itsym
                        elem._k = k
                s.events.append(Event('loop-iter', stmt, f, text='for-iter', extra=k, value=itsym, ep=s.ep,
                                      loops=s.loops))
                for s1, sg in self.assign(stmt.target, elem, s, frame, stmt, quiet=True):
                    for s3, sig3 in self.exec_block(stmt.body, s1, frame):
                        if sig3 is None or sig3 == 'continue':
                            pending.append((s3, k + 1))
                        elif sig3 == 'break':
                            s3.loops = base_loops
                            s3.events.append(Event('loop-break', stmt, f, text='for-break', extra=k, ep=s3.ep,
                                                   loops=base_loops))
                            out.append((s3, None))
                        else:
                            s3.loops = base_loops
                            out.append((s3, sig3))
                if len(out) + len(pending) > self.max_paths:
                    raise AnalysisError('path explosion in %s' % self.func.qual)
        return out

    def _exec_for_sentinel(self, stmt, producer, sentinel, st, frame):
        """for x in iter(lambda: PRODUCER, SENTINEL): each round evaluates PRODUCER; the loop ends when the value equals SENTINEL"""
        f = frame[0]
        out = []
        base_loops = st.loops
        pending = [(st, 0)]
        while pending:
            s, k = pending.pop()
            for val, s1, sig in self.ev(producer, s, frame):
                if sig is not None:
                    out.append((s1, sig))
                    continue
                for sv, s2, sig2 in self.ev(sentinel, s1, frame):
                    if sig2 is not None:
                        out.append((s2, sig2))
                        continue
                    for ended, s3, sig3 in self._atom_compare(stmt.iter, ast.Eq(), val, sv, s2, frame):
                        if sig3 is not None:
                            out.append((s3, sig3))
                        elif ended:
                            s3.loops = base_loops
                            s3.events.append(Event('loop-exit', stmt, f, text='for-exit', extra=k, ep=s3.ep, loops=base_loops))
                            out.extend(self.exec_block(stmt.orelse, s3, frame))
                        elif k < self.unroll:
                            s3.loops = base_loops + ((id(stmt), k),)
                            s3.events.append(Event('loop-iter', stmt, f, text='for-iter', extra=k, value=val, ep=s3.ep, loops=s3.loops))
                            for s4, sg in self.assign(stmt.target, val, s3, frame, stmt, quiet=True):
                                for s5, sig5 in self.exec_block(stmt.body, s4, frame):
                                    if sig5 is None or sig5 == 'continue':
                                        pending.append((s5, k + 1))
                                    elif sig5 == 'break':
                                        s5.loops = base_loops
                                        s5.events.append(Event('loop-break', stmt, f, text='for-break', extra=k, ep=s5.ep, loops=base_loops))
                                        out.append((s5, None))
                                    else:
                                        s5.loops = base_loops
                                        out.append((s5, sig5))
            if len(out) + len(pending) > self.max_paths:
                raise AnalysisError('path explosion in %s' % self.func.qual)
        return out

    def exec_try(self, stmt, st, frame):
        f = frame[0]
        out = []
        body_res = self.exec_block(stmt.body, st, frame)
        after = []
        for s, sig in body_res:
            if isinstance(sig, tuple) and sig[0] == 'raise':
                handled = False
                for h in stmt.handlers:
                    hts = self._handler_types(h)
                    if any(exc_catches(ht, sig[1]) for ht in hts):
                        handled = True
                        s2 = s
                        if h.name:
                            exv = ast.Name(id='<exc %s>' % sig[1], ctx=ast.Load())
                            exv._exc_args = sig[3] if len(sig) > 3 else []
                            exv._exc_type = sig[1]
                            exv._raise_node = sig[2]
                            s2.env[(frame[1], h.name)] = exv
                        prev_exc = s2.exc
                        s2.exc = (sig[1], sig[2], sig[3] if len(sig) > 3 else [])
                        s2.events.append(Event('handler', h, f, text='except ' + '/'.join(str(x) for x in hts),
                                               extra=sig[1], ep=s2.ep, loops=s2.loops))
                        for s3, sig3 in self.exec_block(h.body, s2, frame):
                            s3.exc = prev_exc
                            after.append((s3, sig3))
                        break
                if not handled:
                    after.append((s, sig))
            elif sig is None:
                after.extend(self.exec_block(stmt.orelse, s, frame))
            else:
                after.append((s, sig))
        if stmt.finalbody:
            for s, sig in after:
                for s2, sig2 in self.exec_block(stmt.finalbody, s, frame):
                    out.append((s2, sig2 if sig2 is not None else sig))
        else:
            out = after
        return out

    def _handler_types(self, h):
        if h.type is None:
            return [None]
        if isinstance(h.type, ast.Tuple):
            return [norm(e).split('.')[-1] for e in h.type.elts]
        return [norm(h.type).split('.')[-1]]

    def _exc_name(self, exc):
        e = exc.func if isinstance(exc, ast.Call) else exc
        return norm(e).split('.')[-1]

    # -- assignment ---------------------------------------------------------------------------
    def _as_load(self, t):
        t2 = clone_ast(t)
        for x in ast.walk(t2):
            if hasattr(x, 'ctx'):
                x.ctx = ast.Load()
        return t2

    def _subst_target(self, t, st, frame):
        """Text of an assignment target with locals in its base/index substituted."""
        if isinstance(t, ast.Name):
            return t.id
        t2 = self._as_load(t)
        return norm(self.subst(t2, st, frame, mark=False))

    def assign(self, t, sym, st, frame, stmt, quiet=False):
        f = frame[0]
        if isinstance(t, ast.Name):
            st.env[(frame[1], t.id)] = sym
            if not quiet:
                st.events.append(Event('bind', stmt, f, text=norm(stmt), target=t.id, value=sym, ep=st.ep,
                                       loops=st.loops))
            return [(st, None)]
        if isinstance(t, (ast.Tuple, ast.List)):
            rs = [(st, None)]
            star = [j for j, x in enumerate(t.elts) if isinstance(x, ast.Starred)]
            for i, e in enumerate(t.elts):
                if isinstance(sym, (ast.Tuple, ast.List)) and len(sym.elts) == len(t.elts) and not star:
                    part = sym.elts[i]
                elif star and i == star[0]:
                    hi = -(len(t.elts) - 1 - i)
                    part = ast.Subscript(value=sym, slice=ast.Slice(lower=ast.Constant(value=i) if i else None, upper=ast.Constant(value=hi) if hi else None, step=None), ctx=ast.Load())
                elif star and i > star[0]:
                    part = ast.Subscript(value=sym, slice=ast.Constant(value=-(len(t.elts) - i)), ctx=ast.Load())
                else:
                    part = _canon_subscript(sym, ast.Constant(value=i)) or ast.Subscript(value=sym, slice=ast.Constant(value=i), ctx=ast.Load())
                nrs = []
                for s, sig in rs:
                    nrs.extend(self.assign(e, part, s, frame, stmt, quiet=True))
                rs = nrs
            return rs
        if isinstance(t, (ast.Attribute, ast.Subscript)):
            out = []
            # evaluate base (and index) for events
            base_exprs = [t.value] + ([t.slice] if isinstance(t, ast.Subscript) and not isinstance(t.slice, ast.Slice) else [])
            rs = [([], st, None)]
            for be in base_exprs:
                nrs = []
                for acc, s, sig in rs:
                    if sig is not None:
                        nrs.append((acc, s, sig))
                        continue
                    for bsym, s2, sig2 in self.ev(be, s, frame):
                        nrs.append((acc + [bsym], s2, sig2))
                rs = nrs
            for acc, s, sig in rs:
                if sig is not None:
                    out.append((s, sig))
                    continue
                if isinstance(t, ast.Attribute):
                    tsym = ast.Attribute(value=acc[0], attr=t.attr, ctx=ast.Load())
                else:
                    sl = acc[1] if len(acc) > 1 else t.slice
                    tsym = ast.Subscript(value=acc[0], slice=sl, ctx=ast.Load())
                ttext = norm(tsym)
                s.ep += 1
                self._clear_heap(s)
                s.heap[ttext] = sym
                if isinstance(sym, ast.Name) and getattr(sym, '_origin', None) is not None:
                    # a local that holds a fresh container now also lives at this heap path: from here on the local
                    # denotes that path (history = []; self.db[k] = history; history.append(x)  ==  self.db[k].append(x))
                    alias = ast.Subscript(value=acc[0], slice=sl, ctx=ast.Load()) if isinstance(t, ast.Subscript) else ast.Attribute(value=acc[0], attr=t.attr, ctx=ast.Load())
                    for k_ in list(s.env):
                        if k_[0] == frame[1] and k_[1] == sym.id:
                            s.env[k_] = alias
                s.events.append(Event('store', stmt, f, text=norm(stmt), target=ttext, value=sym, ep=s.ep,
                                      loops=s.loops, recv=acc[0]))
                out.append((s, None))
            return out
        if isinstance(t, ast.Starred):
            return self.assign(t.value, sym, st, frame, stmt, quiet)
        raise AnalysisError('unsupported assignment target %s' % norm(t))

    # -- expressions --------------------------------------------------------------------------
    def subst(self, e, st, frame, mark=True):
        """Copy of e with locals of the frame replaced by their symbolic values."""
        fid = frame[1]

        def go(n):
            if isinstance(n, ast.Name):
                v = st.env.get((fid, n.id))
                if v is not None and not _is_mutable_display(v):
                    return v
                return ast.Name(id=n.id, ctx=ast.Load())
            if isinstance(n, (ast.Lambda, ast.ListComp, ast.SetComp, ast.DictComp, ast.GeneratorExp)):
                # substitute free locals that are not bound inside
                bound = set()
                for x in ast.walk(n):
                    if isinstance(x, ast.comprehension):
                        for y in ast.walk(x.target):
                            if isinstance(y, ast.Name):
                                bound.add(y.id)
                    if isinstance(x, ast.Lambda):
                        for a in x.args.args:
                            bound.add(a.arg)
                n2 = clone_ast(n)

                class T(ast.NodeTransformer):
                    def visit_Name(self_, x):
                        if x.id in bound:
                            return x
                        v = st.env.get((fid, x.id))
                        if v is not None and not _is_mutable_display(v):
                            return v
                        return x
                return T().visit(n2)
            if isinstance(n, ast.AST):
                new = type(n)()
                for fld, val in ast.iter_fields(n):
                    if isinstance(val, list):
                        setattr(new, fld, [go(x) if isinstance(x, ast.AST) else x for x in val])
                    elif isinstance(val, ast.AST):
                        setattr(new, fld, go(val))
                    else:
                        setattr(new, fld, val)
                for a in ('_ep', '_iter', '_k', '_exc_args', '_exc_type', '_raise_node', '_site', '_inl'):
                    if hasattr(n, a):
                        setattr(new, a, getattr(n, a))
                if hasattr(n, 'lineno'):
                    new.lineno = n.lineno
                    new.col_offset = n.col_offset
                return new
            return n
        return go(e)

    def ev(self, e, st, frame):
        """Evaluate expression for effects (call events, IfExp forks); returns [(sym, state, sig)]."""
        f = frame[0]
        if isinstance(e, (ast.Constant,)):
            return [(e, st, None)]
        if isinstance(e, ast.Name):
            v = st.env.get((frame[1], e.id))
            if self.stable_attrs and isinstance(v, (ast.Attribute, ast.Subscript)) and norm(v) in self.stable_attrs:
                # the local is an alias of a heap path this analysis follows like a local: read the value held there
                hv = st.heap.get(norm(v))
                if hv is not None and (hasattr(hv, '_elts') or isinstance(hv, ast.List) or (isinstance(hv, ast.Name) and getattr(hv, '_origin', None) is not None)):
                    return [(hv, st, None)]
            if v is not None and not _is_mutable_display(v):
                return [(v, st, None)]
            if v is None:
                c = self._new_module_const(f, e.id)
                if c is not None:
                    return [(c, st, None)]
            n_ = ast.Name(id=e.id, ctx=ast.Load())
            if v is not None:
                n_._origin = v          # a local bound to a fresh container display (kept by name because it is mutated)
            return [(n_, st, None)]
        if isinstance(e, ast.IfExp) and self.fork_ifexp:
            out = []
            for v, s, sig in self.cond(e.test, st, frame):
                if sig is not None:
                    out.append((None, s, sig))
                elif v:
                    out.extend(self.ev(e.body, s, frame))
                else:
                    out.extend(self.ev(e.orelse, s, frame))
            return out
        if isinstance(e, ast.BoolOp) and len(e.values) == 2 \
                and (any(isinstance(x, ast.Call) for x in ast.walk(e.values[1])) or isinstance(e.values[0], (ast.ListComp, ast.Call, ast.Name))) \
                and not any(isinstance(x, (ast.Compare, ast.BoolOp)) or (isinstance(x, ast.UnaryOp) and isinstance(x.op, ast.Not)) for x in e.values) \
                and not self._is_boolish(f, e.values[0]):
            # `a = X or Y()` / `X and Y()` used as a VALUE whose second operand is a computation: fork like the if-statement it abbreviates;
            # `[.. for .. if ..] or [default]`: the comprehension is true exactly when one of its iterations appended
            second_is_call = any(isinstance(x, ast.Call) for x in ast.walk(e.values[1])) or isinstance(e.values[1], (ast.Tuple, ast.List))   # .. or a default display (to be unpacked)
            out = []
            n0 = len(st.events)
            for sym, s, sig in self.ev(e.values[0], st, frame):
                if sig is not None:
                    out.append((None, s, sig))
                    continue
                if isinstance(sym, ast.Constant):
                    decided = [(bool(sym.value), s, None)]
                elif _literal_elts(sym) is not None and (hasattr(sym, '_elts') or isinstance(sym, (ast.List, ast.Tuple, ast.Name))):
                    decided = [(len(_literal_elts(sym)) > 0, s, None)]
                elif isinstance(sym, ast.ListComp) and sym.generators[0].ifs and any(ev_.kind == 'loop-exit' for ev_ in s.events[n0:]):
                    napp = len(sym._elts) if hasattr(sym, '_elts') else sum(1 for ev_ in s.events[n0:] if ev_.kind == 'call' and ev_.ftext == '<listcomp>.append' and ev_.recv is sym)
                    decided = [(napp > 0, s, None)]
                elif second_is_call:
                    decided = self._decide(sym, e.values[0], s, frame)
                else:
                    for sym1, s1, sig1 in self.ev(e.values[1], s, frame):
                        out.append((None, s1, sig1) if sig1 is not None else (ast.BoolOp(op=e.op, values=[sym, sym1]), s1, None))
                    continue
                for v, s2, sig2 in decided:
                    if sig2 is not None:
                        out.append((None, s2, sig2))
                    elif v == isinstance(e.op, ast.Or):
                        out.append((sym, s2, None))        # `X or ..` with X true / `X and ..` with X false: the value is X
                    else:
                        out.extend(self.ev(e.values[1], s2, frame))
            return out
        if isinstance(e, ast.Call) and isinstance(e.func, ast.Name) and e.func.id == 'next' and len(e.args) == 2 and not e.keywords \
                and isinstance(e.args[0], ast.GeneratorExp) and len(e.args[0].generators) == 1 and isinstance(e.args[0].generators[0].target, ast.Name) \
                and not e.args[0].generators[0].is_async and self.repo.lookup(f.module, 'next') is None:
            return self._ev_next_first(e, st, frame)
        if isinstance(e, ast.Call):
            return self.ev_call(e, st, frame)
        if isinstance(e, (ast.ListComp, ast.GeneratorExp)) and len(e.generators) == 1 and not e.generators[0].is_async \
                and (isinstance(e.generators[0].target, ast.Name) or (isinstance(e.generators[0].target, ast.Tuple)
                                                                      and all(isinstance(x, ast.Name) for x in e.generators[0].target.elts))) \
                and (e.generators[0].ifs or self._iter_known_from_comp(e.generators[0].iter, st, frame) or (self.expand_maps and isinstance(e, ast.ListComp))):
            # a filtered comprehension / generator expression, or one that consumes the value of such a comprehension: the loop it abbreviates.
            # (A generator expression is run where it is written; its laziness is not modelled - the pipelines it is used for are pure.)
            return self._ev_filtered_comp(e, st, frame)
        if isinstance(e, (ast.Lambda, ast.ListComp, ast.SetComp, ast.DictComp, ast.GeneratorExp)):
            sym = self.subst(e, st, frame)
            # calls inside comprehensions are recorded as (possibly repeated) events
            if not isinstance(e, ast.Lambda):
                for c in ast.walk(e):
                    if isinstance(c, ast.Call):
                        site = self.cg.site_of(f, c)
                        st.events.append(Event('call', c, f, text=norm(c), ftext=norm(c.func),
                                               args=[self.subst(a, st, frame) for a in c.args],
                                               kwargs={k.arg: self.subst(k.value, st, frame) for k in c.keywords if k.arg},
                                               targets=tuple(self.cg.targets(site)) if site else (),
                                               ep=st.ep, loops=st.loops + (('comp', 0),), site=site, extra='in-comprehension'))
            return [(sym, st, None)]
        if isinstance(e, ast.Attribute):
            out = []
            for b, s, sig in self.ev(e.value, st, frame):
                if sig is not None:
                    out.append((None, s, sig))
                    continue
                rf = self._record_field(b, e.attr)
                if rf is not None:
                    out.append((rf, s, None))
                    continue
                sym = ast.Attribute(value=b, attr=e.attr, ctx=ast.Load())
                psite = self.cg.site_of(frame[0], e) if isinstance(getattr(e, 'ctx', None), ast.Load) else None
                if psite is not None and psite.prop:
                    # the load runs a @property getter: a call without arguments on the receiver
                    targets = tuple(self.cg.targets(psite))
                    g = targets[0] if len(targets) == 1 else None
                    inl = g is not None and (g in self.inline or (self.auto_inline and is_new_function(g))) and frame[2] < self.inline_depth
                    if not inl:
                        s.ep += 1
                        self._clear_heap(s)
                    sym._ep = s.ep
                    s.events.append(Event('call', e, frame[0], text=norm(sym), ftext=norm(sym), args=[], kwargs={}, recv=b,
                                          targets=targets, ep=s.ep, loops=s.loops, site=psite, extra='property'))
                    if inl:
                        out.extend(self._inline(g, e, sym, b, [], {}, s, frame, psite))
                    else:
                        out.append((sym, s, None))
                    continue
                hv = s.heap.get(norm(sym))
                if hv is not None and (not _is_mutable_display(hv) or (norm(sym) in self.stable_attrs and (hasattr(hv, '_elts') or isinstance(hv, ast.List)))):
                    out.append((hv, s, None))
                    continue
                tbl = self._new_instance_table(frame[0], e, b) if isinstance(getattr(e, 'ctx', None), ast.Load) else None
                if tbl is not None:
                    out.append((tbl, s, None))
                else:
                    sym._ep = s.ep
                    out.append((sym, s, None))
            return out
        if isinstance(e, ast.Subscript) and not isinstance(e.slice, ast.Slice) and isinstance(getattr(e, 'ctx', None), ast.Load):
            table = self._new_module_table(f, e.value)
            if table is not None:
                return self._dict_dispatch(table, e.slice, 'KeyError', st, frame, e)
        if isinstance(e, ast.Subscript):
            out = []
            for b, s, sig in self.ev(e.value, st, frame):
                if sig is not None:
                    out.append((None, s, sig))
                    continue
                if isinstance(e.slice, ast.Slice):
                    parts = []
                    rs = [([], s, None)]
                    for p in (e.slice.lower, e.slice.upper, e.slice.step):
                        nrs = []
                        for acc, s2, sg in rs:
                            if sg is not None or p is None:
                                nrs.append((acc + [None], s2, sg))
                            else:
                                for ps, s3, sg3 in self.ev(p, s2, frame):
                                    nrs.append((acc + [ps], s3, sg3))
                        rs = nrs
                    for acc, s2, sg in rs:
                        if sg is not None:
                            out.append((None, s2, sg))
                        else:
                            sym = ast.Subscript(value=b, slice=ast.Slice(lower=acc[0], upper=acc[1], step=acc[2]),
                                                ctx=ast.Load())
                            sym._ep = s2.ep
                            out.append((sym, s2, None))
                else:
                    for i, s2, sg in self.ev(e.slice, s, frame):
                        if sg is not None:
                            out.append((None, s2, sg))
                        else:
                            canon = _canon_subscript(b, i)
                            if canon is not None:
                                out.append((canon, s2, None))
                                continue
                            sym = ast.Subscript(value=b, slice=i, ctx=ast.Load())
                            sym._ep = s2.ep
                            s2.events.append(Event('load-sub', e, f, text=norm(sym), recv=b, value=i, ep=s2.ep,
                                                   loops=s2.loops))
                            out.append((sym, s2, None))
            return out
        if isinstance(e, ast.NamedExpr) and isinstance(e.target, ast.Name):
            # (name := value): evaluate the value, bind the name, the expression is the value
            out = []
            for sym, s, sig in self.ev(e.value, st, frame):
                if sig is not None:
                    out.append((None, s, sig))
                    continue
                for s2, sg in self.assign(e.target, sym, s, frame, e, quiet=True):
                    out.append((sym, s2, sg))
            return out
        if isinstance(e, ast.Call) and isinstance(e.func, ast.Name) and e.func.id == 'next' and 1 <= len(e.args) <= 2 and not e.keywords \
                and isinstance(e.args[0], ast.GeneratorExp) and len(e.args[0].generators) == 1 and isinstance(e.args[0].generators[0].target, ast.Name) \
                and self.repo.lookup(f.module, 'next') is None and len(e.args) == 2:
            return self._ev_next_first(e, st, frame)
        # generic: evaluate children in order
        fields = []
        for fld, val in ast.iter_fields(e):
            fields.append((fld, val))
        rs = [({}, st, None)]
        for fld, val in fields:
            nrs = []
            for acc, s, sig in rs:
                if sig is not None:
                    nrs.append((acc, s, sig))
                    continue
                if isinstance(val, list):
                    lrs = [([], s, None)]
                    for x in val:
                        nl = []
                        for lacc, s2, sg in lrs:
                            if sg is not None:
                                nl.append((lacc, s2, sg))
                            elif isinstance(x, ast.expr):
                                for xs, s3, sg3 in self.ev(x, s2, frame):
                                    nl.append((lacc + [xs], s3, sg3))
                            else:
                                nl.append((lacc + [x], s2, None))
                        lrs = nl
                    for lacc, s2, sg in lrs:
                        d = dict(acc)
                        d[fld] = lacc
                        nrs.append((d, s2, sg))
                elif isinstance(val, ast.expr):
                    for xs, s2, sg in self.ev(val, s, frame):
                        d = dict(acc)
                        d[fld] = xs
                        nrs.append((d, s2, sg))
                else:
                    d = dict(acc)
                    d[fld] = val
                    nrs.append((d, s, None))
            rs = nrs
        out = []
        for acc, s, sig in rs:
            if sig is not None:
                out.append((None, s, sig))
            else:
                new = type(e)()
                for k, v in acc.items():
                    setattr(new, k, v)
                out.append((_fold_int_binop(new), s, None))
        return out

    def _is_boolish(self, f, e):
        try:
            ts = self.repo.expr_types(f, e)
        except Exception:
            return False
        return any(t and t[0] == 'prim' and t[1] == 'bool' for t in ts)

    def _new_module_const(self, f, name):
        """Literal value of a module-level constant that did not exist on the pinned tree (hoisted literal)."""
        if name in f.params():
            return None
        r = self.repo.lookup(f.module, name)
        if r and r[0] == 'var' and r[1] is not None and is_new_module_var(r[3], name):
            v = r[1]
            if isinstance(v, ast.Constant):
                return v
            if isinstance(v, ast.UnaryOp) and isinstance(v.op, (ast.USub, ast.UAdd)) and isinstance(v.operand, ast.Constant) \
                    and isinstance(v.operand.value, (int, float)) and not isinstance(v.operand.value, bool):
                return v            # a negative number: `-1` is written as a unary minus on a literal
            if isinstance(v, (ast.Tuple,)) and all(isinstance(x, ast.Constant) for x in v.elts):
                return v
            if _is_constant_expr(v):
                return v            # e.g. ord('A'), 26 * 26, frozenset('abc'): the same term the inline spelling would give
            if isinstance(v, ast.Tuple) and 0 < len(v.elts) <= 16 and all(self._is_table_entry(f, x) for x in v.elts):
                return v            # an (ordered) dispatch table: rows of constants and names of functions / classes / lambdas
        return None

    def _is_table_entry(self, f, x, depth=0):
        if depth > 2:
            return False
        if isinstance(x, ast.Constant):
            return True
        if isinstance(x, ast.Lambda):
            return True
        if isinstance(x, (ast.Name, ast.Attribute)):
            r = self.repo.resolve_expr_static(f.module, x)
            return bool(r) and r[0] in ('func', 'class', 'classattr')
        if isinstance(x, ast.Tuple):
            return all(self._is_table_entry(f, y, depth + 1) for y in x.elts)
        return False

    def _new_module_table(self, f, e):
        """the display of a module-level dict that did not exist on the pinned tree and is only ever read: {constant key: entry}"""
        if not isinstance(e, ast.Name) or e.id in f.params():
            return None
        r = self.repo.lookup(f.module, e.id)
        if not (r and r[0] == 'var' and isinstance(r[1], ast.Dict) and is_new_module_var(r[3], e.id)):
            return None
        d = r[1]
        if not (0 < len(d.keys) <= 16) or any(k is None or not isinstance(k, ast.Constant) for k in d.keys):
            return None
        if not all(self._is_table_entry(r[3].body_func, v) or self._is_record_ctor(r[3].body_func, v) for v in d.values):
            return None
        d._module = r[3]
        return d

    def _new_instance_table(self, f, e, base):
        """`x.attr` where attr is an instance attribute that did not exist on the pinned tree, is assigned exactly once - a tuple / list display of
        table entries and plain records, at the top level of the class's __init__ - and is nowhere else stored to, deleted or mutated: a table on
        the instance.  Its value is the display with `self` standing for x and the records written as the tuples they are."""
        key = (id(f), id(e))
        if key in self._itab_cache:
            proto = self._itab_cache[key]
        else:
            proto = self._itab_cache[key] = self._instance_table_proto(f, e)
        if proto is None:
            return None
        cls, disp, selfname = proto
        out = []
        for x in disp.elts:
            y = self._table_value(cls, x, selfname, base)
            if y is None:
                return None
            out.append(y)
        res = ast.Tuple(elts=out, ctx=ast.Load())
        return res

    def _table_value(self, cls, x, selfname, base, depth=0):
        if depth > 3:
            return None
        if isinstance(x, ast.Constant):
            return x
        if isinstance(x, ast.Attribute) and isinstance(x.value, ast.Name) and x.value.id == selfname:
            return ast.Attribute(value=base, attr=x.attr, ctx=ast.Load())
        if isinstance(x, (ast.Name, ast.Attribute)):
            r = self.repo.resolve_expr_static(cls.module, x)
            return x if r and r[0] in ('func', 'class', 'classattr') else None
        if isinstance(x, ast.Tuple):
            elts = [self._table_value(cls, y, selfname, base, depth + 1) for y in x.elts]
            return None if any(y is None for y in elts) else ast.Tuple(elts=elts, ctx=ast.Load())
        if isinstance(x, ast.Call) and isinstance(x.func, (ast.Name, ast.Attribute)) and not any(isinstance(a, ast.Starred) for a in x.args):
            r = self.repo.resolve_expr_static(cls.module, x.func)
            if not (r and r[0] == 'class'):
                return None
            flds = r[1].record_fields()
            if flds is None:
                return None
            names = [n_ for n_, _ in flds]
            vals = dict(zip(names, x.args))
            for k in x.keywords:
                if k.arg is None or k.arg not in names or k.arg in vals:
                    return None
                vals[k.arg] = k.value
            if set(vals) != set(names) or len(x.args) > len(names):
                return None
            elts = [self._table_value(cls, vals[n_], selfname, base, depth + 1) for n_ in names]
            if any(y is None for y in elts):
                return None
            t = ast.Tuple(elts=elts, ctx=ast.Load())
            t._record = names
            return t
        return None

    def _instance_table_proto(self, f, e):
        try:
            ts = self.repo.expr_types(f, e.value)
        except Exception:
            return None
        insts = [t for t in ts if t and t[0] == 'inst']
        if len(ts) != 1 or len(insts) != 1:
            return None
        cls = insts[0][1]
        _canon_params(f)
        prof = (_CANON or {}).get('attr_profiles', {})
        known = None
        for c in cls.mro() if hasattr(cls, 'mro') else [cls]:
            q = getattr(c, 'canon_qual', None) or c.qual
            if q in prof:
                known = (known or set()) | set(prof[q])
        if known is None or e.attr in known or e.attr in cls.class_attrs or cls.find_method(e.attr) is not None:
            return None
        init = cls.methods.get('__init__')
        if init is None or not init.params():
            return None
        selfname = init.params()[0]
        the = None
        for g in self.repo.all_funcs():
            for n in g.body_nodes():
                if isinstance(n, ast.Attribute) and n.attr == e.attr:
                    par = getattr(n, '_parent', None)
                    if isinstance(n.ctx, (ast.Store, ast.Del)):
                        if g is init and the is None and isinstance(par, ast.Assign) and len(par.targets) == 1 and par.targets[0] is n and par in init.node.body \
                                and isinstance(n.value, ast.Name) and n.value.id == selfname:
                            the = par
                            continue
                        return None
                    if isinstance(par, ast.Attribute) and par.value is n and par.attr in MUTATORS:
                        return None
                    if isinstance(par, ast.AugAssign) and par.target is n:
                        return None
                    if isinstance(par, ast.Subscript) and par.value is n and isinstance(par.ctx, (ast.Store, ast.Del)):
                        return None
                elif isinstance(n, ast.Call) and isinstance(n.func, ast.Name) and n.func.id in ('setattr', 'delattr') and len(n.args) >= 2 \
                        and isinstance(n.args[1], ast.Constant) and n.args[1].value == e.attr:
                    return None
        if the is None or not isinstance(the.value, (ast.Tuple, ast.List)) or not (0 < len(the.value.elts) <= 16) or any(isinstance(x, ast.Starred) for x in the.value.elts):
            return None
        # the entries may name other attributes of the instance only when those are assigned before the table, at the top level of __init__
        before = set()
        for st_ in init.node.body:
            if st_ is the:
                break
            if isinstance(st_, (ast.Assign, ast.AnnAssign)):
                for t_ in (st_.targets if isinstance(st_, ast.Assign) else [st_.target]):
                    if isinstance(t_, ast.Attribute) and isinstance(t_.value, ast.Name) and t_.value.id == selfname:
                        before.add(t_.attr)
        for x in ast.walk(the.value):
            if isinstance(x, ast.Name) and x.id == selfname:
                par = getattr(x, '_parent', None)
                if not (isinstance(par, ast.Attribute) and par.value is x and par.attr in before):
                    return None
        return (cls, the.value, selfname)

    def _is_record_ctor(self, f, v):
        if isinstance(v, ast.Call) and isinstance(v.func, (ast.Name, ast.Attribute)):
            r = self.repo.resolve_expr_static(f.module, v.func)
            return bool(r) and r[0] == 'class' and r[1].record_fields() is not None and all(self._is_table_entry(f, a) for a in v.args) \
                and all(k.arg is not None and self._is_table_entry(f, k.value) for k in v.keywords)
        return False

    def _is_pure_call(self, e, site, fn=None):
        fn = fn if fn is not None else e.func
        if isinstance(fn, ast.Name) and fn.id in PURE_BUILTINS and (site is None or site.kind == 'builtin'):
            return True
        if isinstance(fn, ast.Attribute) and fn.attr in PURE_METHODS and (site is None or site.kind in ('builtin', 'ext')):
            return True
        return False

    def _dict_dispatch(self, table, key_expr, default, st, frame, node):
        """D[k] / D.get(k[, d]) on a read-only module table with constant keys: one path per key (decided like the comparison `k == key` an
        if/elif chain would make) plus the no-key path"""
        out = []
        pending = [st]
        for kc, vc in zip(table.keys, table.values):
            nxt = []
            for s in pending:
                for v, s2, sig in self.cond(ast.copy_location(ast.Compare(left=key_expr, ops=[ast.Eq()], comparators=[kc]), node), s, frame):
                    if sig is not None:
                        out.append((None, s2, sig))
                    elif v:
                        mod_ = getattr(table, '_module', None)
                        # the entry is an expression of the module body (a record constructor call, a name, a lambda)
                        out.extend(self.ev(vc, s2, (mod_.body_func, 'mod_%s' % mod_.name, frame[2]) if mod_ is not None else frame))
                    else:
                        nxt.append(s2)
            pending = nxt
        for s in pending:
            if default is None:
                out.append((ast.Constant(value=None), s, None))
            elif default == 'KeyError':
                s.events.append(Event('raise', node, frame[0], text='raise KeyError', extra='KeyError', ep=s.ep, loops=s.loops))
                out.append((None, s, ('raise', 'KeyError', node, [])))
            else:
                out.extend(self.ev(default, s, frame))
        return out

    def ev_call(self, e, st, frame):
        f = frame[0]
        out = []
        # a lookup in a read-only dispatch table
        if isinstance(e.func, ast.Attribute) and e.func.attr == 'get' and 1 <= len(e.args) <= 2 and not e.keywords:
            table = self._new_module_table(f, e.func.value)
            if table is not None:
                return self._dict_dispatch(table, e.args[0], e.args[1] if len(e.args) == 2 else None, st, frame, e)
        # a call of what a lookup / a local / a table row yields: when that is a lambda, its body with the arguments put in
        rec_field_call = False
        if isinstance(e.func, ast.Attribute) and isinstance(e.func.value, ast.Name):
            held_ = st.env.get((frame[1], e.func.value.id))
            names_ = getattr(held_, '_record', None)
            rec_field_call = names_ is not None and e.func.attr in names_       # rec.field(args): the callable stored in a record
        if rec_field_call or not isinstance(e.func, (ast.Name, ast.Attribute)) or (isinstance(e.func, ast.Name) and isinstance(st.env.get((frame[1], e.func.id)), ast.Lambda)):
            res = []
            handled = True
            for fs, s, sig in self.ev(e.func, st, frame):
                if sig is not None:
                    res.append((None, s, sig))
                elif isinstance(fs, ast.Lambda) and not e.keywords and not any(isinstance(a, ast.Starred) for a in e.args) \
                        and len(fs.args.args) == len(e.args) and not fs.args.vararg and not fs.args.kwarg and not fs.args.kwonlyargs:
                    rs = [([], s, None)]
                    for a in e.args:
                        nrs = []
                        for acc_, s2, sg in rs:
                            if sg is not None:
                                nrs.append((acc_, s2, sg))
                            else:
                                for asym, s3, sg3 in self.ev(a, s2, frame):
                                    nrs.append((acc_ + [asym], s3, sg3))
                        rs = nrs
                    for acc_, s2, sg in rs:
                        if sg is not None:
                            res.append((None, s2, sg))
                            continue
                        self._fresh += 1
                        nf = (f, 'lam%d_%s' % (self._fresh, frame[1]), frame[2])
                        for k_, v_ in list(s2.env.items()):
                            if k_[0] == frame[1]:
                                s2.env[(nf[1], k_[1])] = v_       # the lambda closes over the enclosing function's locals
                        for pa, av in zip(fs.args.args, acc_):
                            s2.env[(nf[1], pa.arg)] = av
                        res.extend(self.ev(fs.body, s2, nf))
                elif isinstance(fs, (ast.Name, ast.Attribute)) and (rec_field_call or isinstance(e.func, (ast.Subscript, ast.Call, ast.IfExp))):
                    # the callee expression evaluated to a named function / method on this path: call that
                    e2 = ast.copy_location(ast.Call(func=fs, args=e.args, keywords=e.keywords), e)
                    e2._parent = getattr(e, '_parent', None)
                    res.extend(self.ev_call(e2, s, frame))
                else:
                    handled = False
                    break
            if handled:
                return res
        site = self.cg.site_of(f, e)
        # evaluate callee receiver, then args
        fn = e.func
        if isinstance(fn, ast.Name):
            held = st.env.get((frame[1], fn.id))
            if isinstance(held, ast.Attribute) and not isinstance(held.value, ast.Constant):
                # a local bound to a bound method (`append = acc.append` hoisted out of a loop): the call is the method call on that receiver
                fn = ast.Attribute(value=held.value, attr=held.attr, ctx=ast.Load())
                fn.lineno, fn.col_offset = getattr(e, 'lineno', 0), getattr(e, 'col_offset', 0)
        if isinstance(fn, ast.Attribute):
            frs = []
            for b, s, sig in self.ev(fn.value, st, frame):
                if sig is not None:
                    frs.append((None, None, s, sig))
                else:
                    fs = ast.Attribute(value=b, attr=fn.attr, ctx=ast.Load())
                    frs.append((fs, b, s, None))
        else:
            frs = [(fs, None, s, sig) for fs, s, sig in self.ev(fn, st, frame)]
        for fsym, recv, s, sig in frs:
            if sig is not None:
                out.append((None, s, sig))
                continue
            rs = [([], {}, s, None)]
            for a in e.args:
                nrs = []
                for acc, kw, s2, sg in rs:
                    if sg is not None:
                        nrs.append((acc, kw, s2, sg))
                        continue
                    ax = a.value if isinstance(a, ast.Starred) else a
                    for asym, s3, sg3 in self.ev(ax, s2, frame):
                        if isinstance(a, ast.Starred) and sg3 is None:
                            asym = ast.Starred(value=asym, ctx=ast.Load())
                        nrs.append((acc + [asym], kw, s3, sg3))
                rs = nrs
            for k in e.keywords:
                nrs = []
                for acc, kw, s2, sg in rs:
                    if sg is not None:
                        nrs.append((acc, kw, s2, sg))
                        continue
                    for ksym, s3, sg3 in self.ev(k.value, s2, frame):
                        kw2 = dict(kw)
                        kw2[k.arg or '**'] = ksym
                        nrs.append((acc, kw2, s3, sg3))
                rs = nrs
            for acc, kw, s2, sg in rs:
                if sg is not None:
                    out.append((None, s2, sg))
                    continue
                targets = tuple(self.cg.targets(site)) if site else ()
                if isinstance(fn, ast.Name) and isinstance(fsym, ast.Name) and fsym.id != fn.id and (frame[1], fn.id) in s2.env:
                    # a callable parameter / local that is bound, on this path, to a named function: that function is the callee
                    r_ = self.repo.lookup(f.module, fsym.id)
                    if r_ and r_[0] == 'func' and (not targets or r_[1] in targets):
                        targets = (r_[1],)
                if len(targets) == 1 and kw and not any(isinstance(a_, ast.Starred) for a_ in acc) and '**' not in kw:
                    g_ = targets[0]
                    ps_ = g_.params()
                    if g_.cls is not None and not g_.is_static() and (site.kind == 'ctor' or isinstance(e.func, ast.Attribute)):
                        ps_ = ps_[1:]
                    acc = list(acc)
                    kw = dict(kw)
                    while len(acc) < len(ps_) and ps_[len(acc)] in kw:
                        acc.append(kw.pop(ps_[len(acc)]))
                sym = ast.Call(func=fsym, args=acc,
                               keywords=[ast.keyword(arg=(None if k == '**' else k), value=v) for k, v in kw.items()])
                if site is not None and site.kind == 'ctor' and site.ext is not None and not any(isinstance(a_, ast.Starred) for a_ in acc) and '**' not in kw:
                    # a plain record (NamedTuple / dataclass without __init__): Rec(a, y=b) IS the tuple of its fields, in field order
                    flds = site.ext.record_fields()
                    if flds is not None and len(acc) <= len(flds) and all(k in [n_ for n_, _ in flds] for k in kw):
                        vals = list(acc) + [None] * (len(flds) - len(acc))
                        okr = True
                        for i_, (n_, dflt) in enumerate(flds):
                            if n_ in kw:
                                okr = okr and vals[i_] is None
                                vals[i_] = kw[n_]
                            elif vals[i_] is None:
                                vals[i_] = dflt
                        if okr and all(v_ is not None for v_ in vals):
                            rec = ast.Tuple(elts=vals, ctx=ast.Load())
                            rec._record = [n_ for n_, _ in flds]
                            rec._ep = s2.ep
                            out.append((rec, s2, None))
                            continue
                if isinstance(fn, ast.Name) and fn.id == 'len' and len(acc) == 1 and not kw and self.repo.lookup(f.module, 'len') is None:
                    known = _literal_elts(acc[0]) if not isinstance(acc[0], (ast.Tuple,)) or True else None
                    if known is not None and (isinstance(acc[0], (ast.List, ast.Tuple)) or hasattr(acc[0], '_elts') or isinstance(acc[0], ast.Name)):
                        out.append((ast.Constant(value=len(known)), s2, None))      # the length of a list known element by element
                        continue
                pure = self._is_pure_call(e, site, fn)
                g0 = next(iter(targets)) if len(targets) == 1 else None
                will_inline = g0 is not None and (g0 in self.inline or (self.auto_inline and is_new_function(g0) and not any(isinstance(x, (ast.Yield, ast.YieldFrom)) for x in ast.walk(g0.node)))) \
                    and frame[2] < self.inline_depth and not g0.is_module_body
                if not will_inline and self.auto_inline and not g0_is_none_marker(g0) and is_new_function(g0) and not g0.is_module_body \
                        and any(isinstance(x, (ast.Yield, ast.YieldFrom)) for x in ast.walk(g0.node)):
                    # a generator function the tree gained: its body runs lazily, interleaved with its consumer - the interpreter cannot follow
                    # that, and treating the call as opaque would hide the decisions taken inside it
                    self._blind.add(g0.short)
                if not pure and not will_inline:
                    # an opaque call may change any heap location; an inlined call's effects are those of its body
                    s2.ep += 1
                    self._clear_heap(s2)
                sym._ep = s2.ep
                sym._site = site
                evn = Event('call', e, f, text=norm(sym), ftext=norm(fsym), args=acc, kwargs=kw, recv=recv,
                            targets=targets, ep=s2.ep, loops=s2.loops, site=site)
                s2.events.append(evn)
                # a local that holds a fresh list display grows with what is appended to it (parts = [a]; parts.append(b) -> [a, b])
                if isinstance(recv, ast.Name) and isinstance(fn, ast.Attribute) and fn.attr in ('append', 'extend') and len(acc) == 1 and not kw:
                    cur_ = s2.env.get((frame[1], recv.id))
                    if not isinstance(cur_, ast.List) and hasattr(cur_, '_elts') and len(cur_._elts) <= 8:
                        cur_ = ast.List(elts=list(cur_._elts), ctx=ast.Load())      # the value of an expanded comprehension, known element by element
                    if isinstance(cur_, ast.List):
                        grown = None
                        if fn.attr == 'append':
                            grown = ast.List(elts=list(cur_.elts) + [acc[0]], ctx=ast.Load())
                        elif isinstance(acc[0], (ast.List, ast.Tuple)):
                            grown = ast.List(elts=list(cur_.elts) + list(acc[0].elts), ctx=ast.Load())
                        if grown is not None and len(grown.elts) <= 24:
                            s2.env[(frame[1], recv.id)] = grown
                if isinstance(recv, ast.Name) and isinstance(fn, ast.Attribute) and fn.attr == 'reverse' and not acc and not kw:
                    cur_ = s2.env.get((frame[1], recv.id))
                    if isinstance(cur_, ast.List):
                        s2.env[(frame[1], recv.id)] = ast.List(elts=list(reversed(cur_.elts)), ctx=ast.Load())
                if self.stable_attrs and isinstance(fn, ast.Attribute) and fn.attr in MUTATORS:
                    for k_ in list(s2.heap):
                        if k_ in self.stable_attrs and (norm(recv) == k_ or (isinstance(recv, ast.Name) and isinstance(s2.heap[k_], ast.Name) and s2.heap[k_].id == recv.id)):
                            del s2.heap[k_]         # mutated through the path or through its alias: no longer known element by element
                if isinstance(recv, ast.Name) and isinstance(fn, ast.Attribute) and fn.attr in MUTATORS and not (
                        (fn.attr in ('append', 'extend') and len(acc) == 1 and not kw and (fn.attr == 'append' or isinstance(acc[0], (ast.List, ast.Tuple)))) or
                        (fn.attr == 'reverse' and not acc and not kw)):
                    cur_ = s2.env.get((frame[1], recv.id))
                    if isinstance(cur_, (ast.List, ast.ListComp)) and not (isinstance(cur_, ast.List) and any(isinstance(x_, ast.Starred) for x_ in cur_.elts)):
                        # mutated in a way that is not followed element by element: the contents are no longer known
                        unk = ast.List(elts=[ast.Starred(value=ast.Name(id='<contents of %s>' % recv.id, ctx=ast.Load()), ctx=ast.Load())], ctx=ast.Load())
                        s2.env[(frame[1], recv.id)] = unk
                # exceptions the rule wants modelled
                if self.may_raise is not None:
                    for et in (self.may_raise(evn) or ()):
                        s3 = s2.fork()
                        s3.events.append(Event('raised-by-call', e, f, text=norm(sym), extra=et, ep=s3.ep,
                                               loops=s3.loops))
                        out.append((None, s3, ('raise', et, e, [])))
                # inlining
                g = None
                if len(targets) == 1:
                    g = next(iter(targets))
                auto = g is not None and self.auto_inline and is_new_function(g) and not any(isinstance(x, (ast.Yield, ast.YieldFrom)) for x in ast.walk(g.node))
                if g is not None and (g in self.inline or auto) and frame[2] < self.inline_depth and not g.is_module_body:
                    out.extend(self._inline(g, e, sym, recv, acc, kw, s2, frame, site))
                else:
                    out.append((sym, s2, None))
        return out

    def _inline(self, g, call, sym, recv, args, kw, st, frame, site):
        nf = self._new_frame(g, frame[2] + 1)
        self._bind_params(g, call, recv, args, kw, st, nf, site)
        st.events.append(Event('enter', call, g, text='enter ' + g.qual, ep=st.ep, loops=st.loops))
        out = []
        for s, sig in self.exec_block(g.node.body, st, nf):
            s.events.append(Event('leave', call, g, text='leave ' + g.qual, ep=s.ep, loops=s.loops))
            if sig is None:
                rv = ast.Constant(value=None)
                if site is not None and site.kind == 'ctor':
                    rv = sym
                out.append((rv, s, None))
            elif isinstance(sig, tuple) and sig[0] == 'return':
                rv = sig[1]
                if site is not None and site.kind == 'ctor':
                    rv = sym
                out.append((rv, s, None))
            elif isinstance(sig, tuple) and sig[0] in ('raise', 'loop-limit', 'outer', 'genbreak'):
                out.append((None, s, sig))
            else:
                raise AnalysisError('stray %s leaving %s' % (sig, g.qual))
        return out

    def _bind_params(self, g, call, recv, args, kw, st, nf, site):
        params = g.params()
        vals = {}
        pos = list(args)
        if site is not None and site.kind == 'ctor':
            selfv = ast.Name(id='<new %s>' % site.ext.name, ctx=ast.Load())
            pos = [selfv] + pos
        elif g.cls is not None and not g.is_static() and recv is not None:
            pos = [recv] + pos
        elif g.cls is not None and not g.is_static() and isinstance(call.func, ast.Attribute):
            pos = [ast.Name(id='<recv>', ctx=ast.Load())] + pos
        for i, p in enumerate(params):
            if i < len(pos):
                vals[p] = pos[i]
        for k, v in kw.items():
            if k in params:
                vals[k] = v
        # defaults
        a = g.node.args
        defaults = dict(zip([x.arg for x in a.args][len(a.args) - len(a.defaults):], a.defaults))
        for p in params:
            if p not in vals:
                vals[p] = defaults.get(p, ast.Name(id='<unbound %s>' % p, ctx=ast.Load()))
        for p, v in vals.items():
            st.env[(nf[1], p)] = v

    # -- conditions -----------------------------------------------------------------------------
    def cond(self, e, st, frame):
        """Evaluate e as a condition: [(bool, state, sig)]; forks on atoms."""
        if isinstance(e, ast.BoolOp):
            is_and = isinstance(e.op, ast.And)
            rs = [(None, st, None)]
            results = []
            cur = [(st, None)]
            for i, v in enumerate(e.values):
                nxt = []
                for s, _ in cur:
                    for val, s2, sig in self.cond(v, s, frame):
                        if sig is not None:
                            results.append((None, s2, sig))
                        elif is_and and not val:
                            results.append((False, s2, None))
                        elif (not is_and) and val:
                            results.append((True, s2, None))
                        else:
                            nxt.append((s2, None))
                cur = nxt
            for s, _ in cur:
                results.append((is_and, s, None))
            return results
        if isinstance(e, ast.UnaryOp) and isinstance(e.op, ast.Not):
            return [(None if v is None else (not v), s, sig) for v, s, sig in self.cond(e.operand, st, frame)]
        if isinstance(e, ast.Compare) and len(e.ops) > 1:
            parts = []
            left = e.left
            for op, right in zip(e.ops, e.comparators):
                parts.append(ast.Compare(left=left, ops=[op], comparators=[right]))
                left = right
            return self.cond(ast.BoolOp(op=ast.And(), values=parts), st, frame)
        if isinstance(e, ast.IfExp):
            out = []
            for v, s, sig in self.cond(e.test, st, frame):
                if sig is not None:
                    out.append((None, s, sig))
                elif v:
                    out.extend(self.cond(e.body, s, frame))
                else:
                    out.extend(self.cond(e.orelse, s, frame))
            return out
        if isinstance(e, ast.Compare) and len(e.ops) == 1 and isinstance(e.ops[0], (ast.Eq, ast.NotEq)) and isinstance(e.left, ast.Tuple) \
                and isinstance(e.comparators[0], ast.Tuple) and len(e.left.elts) == len(e.comparators[0].elts) and 1 < len(e.left.elts) <= 4 \
                and not any(isinstance(x, ast.Starred) for x in e.left.elts + e.comparators[0].elts):
            # (a, b) == (x, y)  is  a == x and b == y
            parts = [ast.Compare(left=l_, ops=[ast.Eq()], comparators=[r_]) for l_, r_ in zip(e.left.elts, e.comparators[0].elts)]
            res = self.cond(ast.BoolOp(op=ast.And(), values=parts), st, frame)
            if isinstance(e.ops[0], ast.NotEq):
                res = [(None if v is None else (not v), s_, sg_) for v, s_, sg_ in res]
            return res
        if isinstance(e, ast.Compare) and len(e.ops) == 1 and isinstance(e.ops[0], (ast.In, ast.NotIn)) and not any(isinstance(x, ast.Call) for x in ast.walk(e.left)):
            # `x in ('a', 'b')` - the display written out or a module-level constant - is `x == 'a' or x == 'b'`
            disp = e.comparators[0]
            if isinstance(disp, (ast.Name, ast.Attribute)) and not (isinstance(disp, ast.Name) and (frame[1], disp.id) in st.env):
                r_ = self.repo.resolve_expr_static(frame[0].module, disp)
                if r_ and r_[0] == 'var' and r_[1] is not None:
                    disp = r_[1]
                    if isinstance(disp, ast.Call) and isinstance(disp.func, ast.Name) and disp.func.id in ('frozenset', 'set', 'tuple') and len(disp.args) == 1:
                        disp = disp.args[0]
            if isinstance(disp, (ast.Tuple, ast.List, ast.Set)) and 1 <= len(disp.elts) <= 4 \
                    and all(isinstance(x, ast.Constant) and isinstance(x.value, (str, int)) and not isinstance(x.value, bool) for x in disp.elts):
                parts = [ast.Compare(left=e.left, ops=[ast.Eq()], comparators=[x]) for x in disp.elts]
                res = self.cond(ast.BoolOp(op=ast.Or(), values=parts) if len(parts) > 1 else parts[0], st, frame)
                if isinstance(e.ops[0], ast.NotIn):
                    res = [(None if v is None else (not v), s_, sg_) for v, s_, sg_ in res]
                return res
        if isinstance(e, ast.Compare) and isinstance(e.ops[0], (ast.In, ast.NotIn)) and isinstance(e.comparators[0], (ast.Tuple, ast.List, ast.Set)) \
                and 1 <= len(e.comparators[0].elts) <= 4 and not any(isinstance(x, ast.Starred) for x in e.comparators[0].elts) \
                and (isinstance(e.left, ast.Constant) and e.left.value is None or any(isinstance(x, ast.Constant) and x.value is None for x in e.comparators[0].elts)):
            # `x in (None, y)` / `None not in (a, b)`: membership in a written-out display involving None is a chain of identity / equality tests
            parts = []
            for x in e.comparators[0].elts:
                is_none = (isinstance(x, ast.Constant) and x.value is None) or (isinstance(e.left, ast.Constant) and e.left.value is None)
                if isinstance(e.left, ast.Constant) and e.left.value is None:
                    parts.append(ast.Compare(left=x, ops=[ast.Is()], comparators=[ast.Constant(value=None)]))
                else:
                    parts.append(ast.Compare(left=e.left, ops=[ast.Is() if is_none else ast.Eq()], comparators=[x]))
            res = self.cond(ast.BoolOp(op=ast.Or(), values=parts) if len(parts) > 1 else parts[0], st, frame)
            if isinstance(e.ops[0], ast.NotIn):
                res = [(None if v is None else (not v), s_, sg_) for v, s_, sg_ in res]
            return res
        if isinstance(e, ast.Compare):
            out = []
            for l, s, sig in self.ev(e.left, st, frame):
                if sig is not None:
                    out.append((None, s, sig))
                    continue
                for r, s2, sig2 in self.ev(e.comparators[0], s, frame):
                    if sig2 is not None:
                        out.append((None, s2, sig2))
                        continue
                    out.extend(self._atom_compare(e, e.ops[0], l, r, s2, frame))
            return out
        if isinstance(e, ast.Constant):
            return [(bool(e.value), st, None)]
        if isinstance(e, ast.Call) and isinstance(e.func, ast.Name) and e.func.id == 'isinstance' and len(e.args) == 2 and not e.keywords \
                and self.repo.lookup(frame[0].module, 'isinstance') is None and isinstance(e.args[0], ast.Name) \
                and isinstance(e.args[1], (ast.Name, ast.Attribute)):
            # isinstance(exc, T) on the exception a handler caught on this path: its type is known (builtin hierarchy)
            held = st.env.get((frame[1], e.args[0].id))
            if isinstance(held, ast.Name) and held.id.startswith('<exc ') and held.id.endswith('>'):
                raised = held.id[5:-1]
                tname = norm(e.args[1]).split('.')[-1]
                if getattr(builtins, tname, None) is not None and (getattr(builtins, raised, None) is not None or tname in ('Exception', 'BaseException')):
                    return [(exc_catches(tname, raised), st, None)]
        if isinstance(e, ast.Call) and isinstance(e.func, ast.Name) and e.func.id == 'isinstance' and len(e.args) == 2 and not e.keywords \
                and self.repo.lookup(frame[0].module, 'isinstance') is None and not any(isinstance(x, ast.Call) for x in ast.walk(e.args[0])):
            # isinstance(x, (A, B)) - the tuple written out or a module-level constant - is isinstance(x, A) or isinstance(x, B)
            kinds = e.args[1]
            if isinstance(kinds, (ast.Name, ast.Attribute)) and not (isinstance(kinds, ast.Name) and (frame[1], kinds.id) in st.env):
                r_ = self.repo.resolve_expr_static(frame[0].module, kinds)
                if r_ and r_[0] == 'var' and isinstance(r_[1], ast.Tuple):
                    kinds = r_[1]
            if isinstance(kinds, ast.Tuple) and 1 <= len(kinds.elts) <= 8 and not any(isinstance(x, (ast.Starred, ast.Tuple)) for x in kinds.elts):
                parts = [ast.Call(func=e.func, args=[e.args[0], k_], keywords=[]) for k_ in kinds.elts]
                for p_ in parts:
                    p_.lineno, p_.col_offset = getattr(e, 'lineno', 0), getattr(e, 'col_offset', 0)
                return self.cond(parts[0] if len(parts) == 1 else ast.BoolOp(op=ast.Or(), values=parts), st, frame)
        if isinstance(e, ast.Call) and isinstance(e.func, ast.Name) and e.func.id in ('any', 'all') and len(e.args) == 1 and not e.keywords \
                and isinstance(e.args[0], (ast.GeneratorExp, ast.ListComp)) and len(e.args[0].generators) == 1 \
                and isinstance(e.args[0].generators[0].target, ast.Name) and self.repo.lookup(frame[0].module, e.func.id) is None:
            return self._cond_any_all(e, st, frame, e.func.id == 'any')
        out = []
        for sym, s, sig in self.ev(e, st, frame):
            if sig is not None:
                out.append((None, s, sig))
                continue
            # a substituted local may itself be a boolean expression: evaluate structurally
            while isinstance(sym, ast.Call) and isinstance(sym.func, ast.Name) and sym.func.id == 'bool' and len(sym.args) == 1 and not sym.keywords \
                    and not isinstance(sym.args[0], ast.Starred) and self.repo.lookup(frame[0].module, 'bool') is None:
                sym = sym.args[0]           # bool(X) is true exactly when X is
            if isinstance(sym, ast.Constant):
                out.append((bool(sym.value), s, None))
            elif _literal_elts(sym) is not None and (hasattr(sym, '_elts') or isinstance(sym, (ast.List, ast.Tuple, ast.Name))):
                out.append((len(_literal_elts(sym)) > 0, s, None))      # a list known element by element is true iff it has elements
            elif isinstance(sym, (ast.BoolOp, ast.Compare)) or (isinstance(sym, ast.UnaryOp) and isinstance(sym.op, ast.Not)):
                out.extend(self._cond_sym(sym, s, frame, e))
            else:
                out.extend(self._decide(sym, e, s, frame))
        return out

    def _record_field(self, b, attr):
        """`.attr` of a value known to be a plain record: the field itself when the record was built on this path, the positional
        subscript when it is what a function annotated with the record class returned (f(..).matched is f(..)[1])"""
        names = getattr(b, '_record', None)
        if names is None and isinstance(b, ast.Name) and getattr(b, '_origin', None) is not None:
            names = getattr(b._origin, '_record', None)
            b = b._origin if names is not None else b
        if names is not None and isinstance(b, ast.Tuple) and attr in names and len(b.elts) == len(names):
            return b.elts[names.index(attr)]
        if isinstance(b, ast.Call) and getattr(b, '_site', None) is not None:
            site = b._site
            flds = None
            for g in self.cg.targets(site):
                if g.is_module_body or g.node.returns is None:
                    return None
                t = self.repo.ann_type(g.module, g.node.returns, g.cls)
                if not t or t[0] != 'inst':
                    return None
                f2 = t[1].record_fields()
                if f2 is None or (flds is not None and [n_ for n_, _ in f2] != flds):
                    return None
                flds = [n_ for n_, _ in f2]
            if flds and attr in flds:
                sub = ast.Subscript(value=b, slice=ast.Constant(value=flds.index(attr)), ctx=ast.Load())
                sub._ep = getattr(b, '_ep', 0)
                return sub
        return None

    def _iter_known_from_comp(self, it, st, frame):
        """is `it` a local that holds the value of an expanded comprehension (known element by element on this path)?"""
        if isinstance(it, ast.Name):
            v = st.env.get((frame[1], it.id))
            return v is not None and hasattr(v, '_elts')
        if isinstance(it, ast.Call) and isinstance(it.func, ast.Name) and it.func.id in ('enumerate', 'reversed', 'list', 'tuple') and it.args and not it.keywords \
                and self.repo.lookup(frame[0].module, it.func.id) is None:
            return self._iter_known_from_comp(it.args[0], st, frame)        # enumerate(xs) of a list known element by element is known pair by pair
        return False

    def _ev_filtered_comp(self, e, st, frame):
        """[elt for x in X if cond] as the loop it abbreviates: per iteration a decision on cond and, when it holds, an
        `append` event with the element; the value stays the (substituted) comprehension."""
        f = frame[0]
        gen = e.generators[0]
        loop = self._synth_loops.get(id(e))
        if loop is None:
            loop = ast.For(target=gen.target, iter=gen.iter, body=[], orelse=[])
            loop.lineno = getattr(e, 'lineno', 0)
            loop.col_offset = getattr(e, 'col_offset', 0)
            loop._parent = getattr(e, '_parent', None)
            self._synth_loops[id(e)] = loop
        out = []
        keys = [(frame[1], x.id) for x in ([gen.target] if isinstance(gen.target, ast.Name) else gen.target.elts)]
        for itsym, s0, sig in self.ev(gen.iter, st, frame):
            if sig is not None:
                out.append((None, s0, sig))
                continue
            base_loops = s0.loops
            saved = {k_: s0.env.get(k_) for k_ in keys}
            sym = self.subst(e, s0, frame)
            n_ev0 = len(s0.events)
            lit = _literal_elts(itsym)
            pending = [(s0, 0)]
            while pending:
                s, k = pending.pop()
                if lit is None or k == len(lit):
                    s_exit = s.fork()
                    s_exit.loops = base_loops
                    for k_ in keys:
                        if saved[k_] is None:
                            s_exit.env.pop(k_, None)
                        else:
                            s_exit.env[k_] = saved[k_]
                    s_exit.events.append(Event('loop-exit', loop, f, text='for-exit', extra=k, value=itsym, ep=s_exit.ep, loops=base_loops))
                    # on this path the comprehension's value is known element by element: what its iterations appended
                    res = clone_ast(sym)
                    res._elts = [ev_.args[0] for ev_ in s_exit.events[n_ev0:] if ev_.kind == 'call' and ev_.ftext == '<listcomp>.append' and ev_.recv is sym]
                    res._comp = sym
                    out.append((res, s_exit, None))
                    if lit is not None:
                        continue
                if lit is None and k >= self.unroll:
                    continue
                s.loops = base_loops + ((id(loop), k),)
                elem = lit[k] if lit is not None else ast.Name(id='<elem%d of %s>' % (k, norm(itsym)), ctx=ast.Load())
                self.assign(gen.target, elem, s, frame, loop, quiet=True)
                s.events.append(Event('loop-iter', loop, f, text='for-iter', extra=k, value=itsym, ep=s.ep, loops=s.loops))
                cur = [s]
                for cnd in gen.ifs:
                    nxt = []
                    for sx in cur:
                        for v, s2, sg in self.cond(cnd, sx, frame):
                            if sg is not None:
                                out.append((None, s2, sg))
                            elif v:
                                nxt.append(s2)
                            else:
                                pending.append((s2, k + 1))
                    cur = nxt
                for sx in cur:
                    for esym, s2, sg in self.ev(e.elt, sx, frame):
                        if sg is not None:
                            out.append((None, s2, sg))
                            continue
                        s2.events.append(Event('call', e, f, text='<listcomp>.append(%s)' % norm(esym), ftext='<listcomp>.append', args=[esym], recv=sym,
                                               ep=s2.ep, loops=s2.loops, extra='comprehension-element'))
                        pending.append((s2, k + 1))
        return out

    def _ev_next_first(self, e, st, frame):
        """next((ELT for x in X if COND), DEFAULT): the first element that satisfies COND, else DEFAULT - as the loop it abbreviates"""
        f = frame[0]
        comp = e.args[0]
        gen = comp.generators[0]
        loop = self._synth_loops.get(id(comp))
        if loop is None:
            loop = ast.For(target=gen.target, iter=gen.iter, body=[], orelse=[])
            loop.lineno = getattr(e, 'lineno', 0)
            loop.col_offset = getattr(e, 'col_offset', 0)
            loop._parent = getattr(e, '_parent', None)
            self._synth_loops[id(comp)] = loop
        out = []
        key = (frame[1], gen.target.id)
        for itsym, s0, sig in self.ev(gen.iter, st, frame):
            if sig is not None:
                out.append((None, s0, sig))
                continue
            base_loops = s0.loops
            saved = s0.env.get(key)
            lit = _literal_elts(itsym)
            pending = [(s0, 0)]
            while pending:
                s, k = pending.pop()
                if lit is None or k == len(lit):
                    s_exit = s.fork()
                    s_exit.loops = base_loops
                    if saved is None:
                        s_exit.env.pop(key, None)
                    else:
                        s_exit.env[key] = saved
                    s_exit.events.append(Event('loop-exit', loop, f, text='for-exit', extra=k, value=itsym, ep=s_exit.ep, loops=base_loops))
                    out.extend(self.ev(e.args[1], s_exit, frame))
                    if lit is not None:
                        continue
                if lit is None and k >= self.unroll:
                    continue
                s.loops = base_loops + ((id(loop), k),)
                elem = lit[k] if lit is not None else ast.Name(id='<elem%d of %s>' % (k, norm(itsym)), ctx=ast.Load())
                s.env[key] = elem
                s.events.append(Event('loop-iter', loop, f, text='for-iter', extra=k, value=itsym, ep=s.ep, loops=s.loops))
                cur = [s]
                for cnd in gen.ifs:
                    nxt = []
                    for sx in cur:
                        for v, s2, sg in self.cond(cnd, sx, frame):
                            if sg is not None:
                                out.append((None, s2, sg))
                            elif v:
                                nxt.append(s2)
                            else:
                                pending.append((s2, k + 1))
                    cur = nxt
                for sx in cur:
                    for esym, s2, sg in self.ev(comp.elt, sx, frame):
                        s2.loops = base_loops
                        if sg is None:
                            s2.events.append(Event('loop-break', loop, f, text='for-break', extra=k, ep=s2.ep, loops=base_loops))
                            if saved is None:
                                s2.env.pop(key, None)
                            else:
                                s2.env[key] = saved
                        out.append((esym if sg is None else None, s2, sg))
        return out

    def _cond_any_all(self, e, st, frame, is_any):
        """any(P(x) for x in X) / all(...) as the loop it abbreviates (same events as a for loop with an early exit)."""
        f = frame[0]
        comp = e.args[0]
        gen = comp.generators[0]
        loop = self._synth_loops.get(id(comp))
        if loop is None:
            loop = ast.For(target=gen.target, iter=gen.iter, body=[], orelse=[])
            loop.lineno = getattr(e, 'lineno', 0)
            loop.col_offset = getattr(e, 'col_offset', 0)
            loop._parent = getattr(e, '_parent', None)
            self._synth_loops[id(comp)] = loop
        out = []
        tname = gen.target.id
        key = (frame[1], tname)
        for itsym, s0, sig in self.ev(gen.iter, st, frame):
            if sig is not None:
                out.append((None, s0, sig))
                continue
            base_loops = s0.loops
            saved = s0.env.get(key)
            lit = _literal_elts(itsym)      # a written-out display (or a list known element by element): exactly these elements
            pending = [(s0, 0)]
            while pending:
                s, k = pending.pop()
                if lit is None or k == len(lit):
                    s_exit = s.fork()
                    s_exit.loops = base_loops
                    if saved is None:
                        s_exit.env.pop(key, None)
                    else:
                        s_exit.env[key] = saved
                    s_exit.events.append(Event('loop-exit', loop, f, text='for-exit', extra=k, value=itsym, ep=s_exit.ep, loops=base_loops))
                    out.append((not is_any, s_exit, None))
                    if lit is not None:
                        continue
                if lit is None and k >= self.unroll:
                    continue
                s.loops = base_loops + ((id(loop), k),)
                elem = lit[k] if lit is not None else ast.Name(id='<elem%d of %s>' % (k, norm(itsym)), ctx=ast.Load())
                s.env[key] = elem
                s.events.append(Event('loop-iter', loop, f, text='for-iter', extra=k, value=itsym, ep=s.ep, loops=s.loops))
                cur = [s]
                for cnd in gen.ifs:
                    nxt = []
                    for sx in cur:
                        for v, s2, sg in self.cond(cnd, sx, frame):
                            if sg is not None:
                                out.append((None, s2, sg))
                            elif v:
                                nxt.append(s2)
                            else:
                                pending.append((s2, k + 1))
                    cur = nxt
                for sx in cur:
                    for v, s2, sg in self.cond(comp.elt, sx, frame):
                        if sg is not None:
                            out.append((None, s2, sg))
                        elif bool(v) == is_any:
                            s2.loops = base_loops
                            if saved is None:
                                s2.env.pop(key, None)
                            else:
                                s2.env[key] = saved
                            s2.events.append(Event('loop-break', loop, f, text='for-break', extra=k, ep=s2.ep, loops=base_loops))
                            out.append((is_any, s2, None))
                        else:
                            pending.append((s2, k + 1))
        return out

    def _cond_sym(self, sym, st, frame, node):
        """Condition over an already-substituted symbolic boolean expression (no further events)."""
        if isinstance(sym, ast.BoolOp):
            is_and = isinstance(sym.op, ast.And)
            results = []
            cur = [st]
            for v in sym.values:
                nxt = []
                for s in cur:
                    for val, s2, sig in self._cond_sym(v, s, frame, node):
                        if is_and and not val:
                            results.append((False, s2, None))
                        elif (not is_and) and val:
                            results.append((True, s2, None))
                        else:
                            nxt.append(s2)
                cur = nxt
            for s in cur:
                results.append((is_and, s, None))
            return results
        if isinstance(sym, ast.UnaryOp) and isinstance(sym.op, ast.Not):
            return [(not v, s, sig) for v, s, sig in self._cond_sym(sym.operand, st, frame, node)]
        if isinstance(sym, ast.Compare) and len(sym.ops) == 1:
            return self._atom_compare(node, sym.ops[0], sym.left, sym.comparators[0], st, frame)
        if isinstance(sym, ast.Constant):
            return [(bool(sym.value), st, None)]
        return self._decide(sym, node, st, frame)

    def _atom_compare(self, node, op, l, r, st, frame):
        # len(xs) of a LOCAL list that is followed element by element on this path (a fresh display grown by append, the value of an expanded
        # comprehension) is that many: `if len(found) == 1` after a loop that appended nothing is decided, not forked
        def known_len(x):
            if isinstance(x, ast.Call) and isinstance(x.func, ast.Name) and x.func.id == 'len' and len(x.args) == 1 and not x.keywords:
                a = x.args[0]
                while isinstance(a, ast.Call) and isinstance(a.func, ast.Name) and a.func.id in ('list', 'tuple') and len(a.args) == 1 and not a.keywords:
                    a = a.args[0]
                if (isinstance(a, ast.Name) and getattr(a, '_origin', None) is not None and isinstance(a._origin, ast.List)) or hasattr(a, '_elts'):
                    elts = _literal_elts(a)
                    if elts is not None:
                        return ast.Constant(value=len(elts))
            return x
        l, r = known_len(l), known_len(r)
        okl, cl = const_value(l)
        okr, cr = const_value(r)
        if okl and okr:
            try:
                import operator
                table = {ast.Eq: operator.eq, ast.NotEq: operator.ne, ast.Lt: operator.lt, ast.LtE: operator.le,
                         ast.Gt: operator.gt, ast.GtE: operator.ge, ast.Is: operator.is_, ast.IsNot: operator.is_not,
                         ast.In: lambda a, b: a in b, ast.NotIn: lambda a, b: a not in b}
                return [(bool(table[type(op)](cl, cr)), st, None)]
            except Exception:
                pass
        neg = False
        if isinstance(op, ast.NotEq):
            op, neg = ast.Eq(), True
        elif isinstance(op, ast.IsNot):
            op, neg = ast.Is(), True
        elif isinstance(op, ast.NotIn):
            op, neg = ast.In(), True
        elif isinstance(op, ast.Gt):
            l, r, op = r, l, ast.Lt()
        elif isinstance(op, ast.GtE):
            op, neg = ast.Lt(), True        # a >= b  ==  not (a < b)
        elif isinstance(op, ast.LtE):
            l, r, op, neg = r, l, ast.Lt(), True    # a <= b  ==  not (b < a)
        if isinstance(op, ast.Eq):
            if norm(r) < norm(l):
                l, r = r, l
            # x == True / x == False on a truthy atom stay as they are
        if isinstance(op, (ast.Is, ast.Eq)) and isinstance(l, ast.Attribute) and isinstance(r, ast.Attribute):
            # two members of one class named in full (enum members, class-level constants): the same name is the same object, two names of an
            # Enum are different objects
            rl, rr = self.repo.resolve_expr_static(frame[0].module, l), self.repo.resolve_expr_static(frame[0].module, r)
            if rl and rr and rl[0] == 'classattr' and rr[0] == 'classattr' and rl[1] is rr[1]:
                if rl[2] == rr[2]:
                    return [(not neg, st, None)]
                if any(str(b).split('.')[-1] in ('Enum', 'IntEnum', 'Flag', 'IntFlag') for b in rl[1].ext_bases()):
                    return [(neg, st, None)]
        if isinstance(op, ast.Is) and isinstance(r, ast.Constant) and r.value is None and (_never_none(l) or self._typed_never_none(l)):
            return [(neg, st, None)]        # the result of str.strip(), str(), a display, a call annotated with a non-Optional class ... is never None
        sym = ast.Compare(left=l, ops=[op], comparators=[r])
        res = self._decide(sym, node, st, frame)
        if neg:
            res = [(not v, s, sig) for v, s, sig in res]
        return res

    def _typed_never_none(self, sym):
        """a call all of whose possible callees are annotated to return an instance of a repository class (not Optional, not None)"""
        if isinstance(sym, ast.Subscript) and isinstance(sym.slice, ast.Constant) and isinstance(sym.slice.value, int) and not isinstance(sym.slice.value, bool) \
                and isinstance(sym.value, ast.Call) and getattr(sym.value, '_site', None) is not None and not getattr(sym.value._site, 'prop', False):
            # f(..)[k] where every callee is annotated (Optional) Tuple[.., T_k, ..] with T_k one of the scalar builtins: an element of such a tuple is never None
            targets = self.cg.targets(sym.value._site)
            if not targets or sym.value._site.kind == 'ctor':
                return False
            for g in targets:
                ann = g.node.returns if not g.is_module_body else None
                if isinstance(ann, ast.Subscript) and norm(ann.value).split('.')[-1] == 'Optional':
                    ann = ann.slice
                if not (isinstance(ann, ast.Subscript) and norm(ann.value).split('.')[-1] in ('Tuple', 'tuple') and isinstance(ann.slice, ast.Tuple)):
                    return False
                elts = ann.slice.elts
                k = sym.slice.value
                if any(isinstance(x, ast.Constant) and x.value is Ellipsis for x in elts) or not (-len(elts) <= k < len(elts)):
                    return False
                if not (isinstance(elts[k], ast.Name) and elts[k].id in ('str', 'int', 'float', 'bool', 'bytes')):
                    return False
            return True
        site = getattr(sym, '_site', None)
        if not isinstance(sym, ast.Call) or site is None or getattr(site, 'prop', False):
            return False
        targets = self.cg.targets(site)
        if not targets or site.kind == 'ctor':
            return site.kind == 'ctor'
        for g in targets:
            ann = g.node.returns if not g.is_module_body else None
            if ann is None:
                return False
            t = norm(ann)
            if 'Optional' in t or 'None' in t or 'Any' in t or 'Union' in t or '|' in t:
                return False
            ty = self.repo.ann_type(g.module, ann, g.cls)
            if not ty or ty[0] != 'inst':
                return False
        return True

    def _decide(self, sym, node, st, frame):
        text = norm(sym)
        key = key_of(sym) if heap_dependent(sym) else text
        if key in st.dmap:
            return [(st.dmap[key], st, None)]
        # correlation between `X is None` and the truthiness of X
        if isinstance(sym, ast.Compare) and isinstance(sym.ops[0], ast.Is) and isinstance(sym.comparators[0], ast.Constant) \
                and sym.comparators[0].value is None:
            xk = key_of(sym.left) if heap_dependent(sym.left) else norm(sym.left)
            if st.dmap.get(xk) is True:
                st.dmap[key] = False
                return [(False, st, None)]
        else:
            nk = ast.Compare(left=sym, ops=[ast.Is()], comparators=[ast.Constant(value=None)])
            nkey = key_of(nk) if heap_dependent(nk) else norm(nk)
            if st.dmap.get(nkey) is True:
                st.dmap[key] = False
                return [(False, st, None)]
        atom = Atom(text, key, node, sym, frame[0])
        if self.oracle is not None:
            v = self.oracle(atom)
            if v is not None:
                st.dmap[key] = v
                st.decisions.append((atom, v))
                st.events.append(Event('decide', node, frame[0], text=text, value=v, extra=atom, ep=st.ep, loops=st.loops))
                return [(v, st, None)]
        s_t = st
        s_f = st.fork()
        s_t.dmap[key] = True
        s_t.decisions.append((atom, True))
        s_t.events.append(Event('decide', node, frame[0], text=text, value=True, extra=atom, ep=s_t.ep, loops=s_t.loops))
        s_f.dmap[key] = False
        s_f.decisions.append((atom, False))
        s_f.events.append(Event('decide', node, frame[0], text=text, value=False, extra=atom, ep=s_f.ep, loops=s_f.loops))
        self._count += 1
        return [(True, s_t, None), (False, s_f, None)]


# ----------------------------------------------------------------------------------------------
# helpers for rules
# ----------------------------------------------------------------------------------------------

def simulate(repo, func, **kw):
    return PathSim(repo, func, **kw).run()


def unknown_atoms(paths, mapper):
    """texts of the decisions on `paths` that `mapper` has no fact for"""
    out = []
    for p in paths:
        for a, v in p.decisions:
            if mapper(a) is None and a.text not in out:
                out.append(a.text)
    return out


def check_reach(paths, target, mapper, expected, feasible=None, universe=None, ignore_raise=False, first_only=False):
    """For every path: reached(target) must equal expected(F') for every completion F' of the path's mapped
    facts over `universe` (names of semantic atoms) that satisfies `feasible`.

    mapper(atom) -> (name, polarity) or None      (polarity False negates the decision value)
    target(event) -> bool
    Returns list of problems: (path, facts, reached, expected_value)."""
    import itertools
    problems = []
    uni = list(universe or [])
    for p in paths:
        if p.truncated:
            continue
        if ignore_raise and p.outcome and p.outcome[0] == 'raise':
            continue
        facts = {}
        contradictory = False
        for a, v in p.decisions:
            m = mapper(a)
            if m is None:
                continue
            name, pol = m
            val = v if pol else (not v)
            if name in facts and first_only:
                continue
            if name in facts and facts[name] != val:
                contradictory = True
            facts[name] = val
        if contradictory:
            continue
        reached = any(target(e) for e in p.events)
        missing = [u for u in uni if u not in facts]
        feas_any = False
        for combo in itertools.product([True, False], repeat=len(missing)):
            full = dict(facts)
            full.update(zip(missing, combo))
            if feasible is not None and not feasible(full):
                continue
            feas_any = True
            exp = expected(full)
            if exp is None:
                continue
            if bool(exp) != reached:
                problems.append((p, full, reached, bool(exp)))
                break
    return problems


def truthy_view(atom, v):
    """(base text, truthy?) - views `x is None` decisions as the truthiness of x (for values that are either
    None or truthy, such as match objects and connections)."""
    t = atom.text
    if t.endswith(' is None'):
        return t[:-len(' is None')], (not v)
    return t, v


def sym_root(sym):
    """Strip attribute / subscript / pure-call wrappers: text of the root name of a term."""
    n = sym
    while True:
        if isinstance(n, ast.Attribute):
            n = n.value
        elif isinstance(n, ast.Subscript):
            n = n.value
        elif isinstance(n, ast.Call):
            n = n.func
        else:
            break
    return norm(n)


def contains(sym, pred):
    for x in ast.walk(sym):
        if pred(x):
            return True
    return False


def eval_bool_sym(sym, facts):
    """Truth of a symbolic boolean term under the decisions of a path ({atom text: value}); None if not determined."""
    if isinstance(sym, ast.Constant):
        return bool(sym.value)
    if isinstance(sym, ast.UnaryOp) and isinstance(sym.op, ast.Not):
        v = eval_bool_sym(sym.operand, facts)
        return None if v is None else (not v)
    if isinstance(sym, ast.BoolOp):
        vals = [eval_bool_sym(v, facts) for v in sym.values]
        if isinstance(sym.op, ast.And):
            if any(v is False for v in vals):
                return False
            return True if all(v is True for v in vals) else None
        if any(v is True for v in vals):
            return True
        return False if all(v is False for v in vals) else None
    if isinstance(sym, ast.Compare) and len(sym.ops) == 1:
        op = sym.ops[0]
        l, r = sym.left, sym.comparators[0]
        neg = False
        if isinstance(op, ast.IsNot):
            op, neg = ast.Is(), True
        elif isinstance(op, ast.NotEq):
            op, neg = ast.Eq(), True
        elif isinstance(op, ast.NotIn):
            op, neg = ast.In(), True
        if isinstance(op, ast.Eq) and norm(r) < norm(l):
            l, r = r, l
        t = norm(ast.Compare(left=l, ops=[op], comparators=[r]))
        if t in facts:
            return facts[t] != neg
        if isinstance(op, ast.Is) and isinstance(r, ast.Constant) and r.value is None and norm(l) in facts and facts[norm(l)] is True:
            return neg          # truthy => not None
        if isinstance(op, ast.Is) and isinstance(r, ast.Constant) and r.value is None and norm(l) in facts and facts[norm(l)] is False \
                and isinstance(l, ast.Call) and isinstance(l.func, ast.Attribute) and l.func.attr in ('search', 'match', 'fullmatch'):
            return not neg      # a regex match result is falsy only when it is None
        return None
    t = norm(sym)
    if t in facts:
        return facts[t]
    if (t + ' is None') in facts and facts[t + ' is None'] is True:
        return False
    return None


def deep_norm(sym, concat=False):
    return norm(deep_ast(sym, concat)) if sym is not None else 'None'


def deep_ast(sym, concat=False):
    """Normalised text in which locals that hold a fresh container display are replaced by that display.
    concat=True additionally rewrites every way of building a string from pieces - `''.join([a, b])`, `'{} {}'.format(a, b)`,
    f-strings, `'%s %s' % (a, b)` - as the plain concatenation `a + ' ' + b` (see concat_form)."""
    class T(ast.NodeTransformer):
        def visit_Name(self, x):
            o = getattr(x, '_origin', None)
            if o is not None and hasattr(o, '_elts'):
                return self.visit(ast.List(elts=[clone_ast(y) for y in o._elts], ctx=ast.Load()))      # a comprehension whose elements are known on this path
            return self.visit(clone_ast(o)) if o is not None else x

        def visit_Call(self, x):
            x = self.generic_visit(x)
            if isinstance(x.func, ast.Name) and x.func.id == 'len' and len(x.args) == 1 and isinstance(x.args[0], (ast.List, ast.Tuple)) \
                    and not any(isinstance(y, ast.Starred) for y in x.args[0].elts):
                return ast.Constant(value=len(x.args[0].elts))      # the length of a list that is known element by element
            if isinstance(x.func, ast.Name) and x.func.id in ('list', 'tuple', 'reversed') and len(x.args) == 1 and not x.keywords:
                a0 = x.args[0]
                if isinstance(a0, ast.Call) and isinstance(a0.func, ast.Name) and a0.func.id == 'reversed' and len(a0.args) == 1 and isinstance(a0.args[0], (ast.List, ast.Tuple)):
                    a0 = ast.List(elts=list(reversed(a0.args[0].elts)), ctx=ast.Load())
                if isinstance(a0, (ast.List, ast.Tuple)) and not any(isinstance(y, ast.Starred) for y in a0.elts):
                    if x.func.id == 'reversed':
                        return x
                    return (ast.List if x.func.id == 'list' else ast.Tuple)(elts=list(a0.elts), ctx=ast.Load())
            return x

        def visit_Subscript(self, x):
            x = self.generic_visit(x)
            if isinstance(x.value, (ast.List, ast.Tuple)) and isinstance(x.slice, ast.Slice) and x.slice.lower is None and x.slice.upper is None \
                    and x.slice.step is not None and norm(x.slice.step) == '-1':
                return type(x.value)(elts=list(reversed(x.value.elts)), ctx=ast.Load())
            return x
    if sym is None:
        return ast.Constant(value=None)
    t = T().visit(clone_ast(sym))
    if concat:
        t = concat_form(t)
    return t


_STR_CALLS = ('color', 'str', 'repr', 'no_color', 'number_to_letter_id', 'format')


def _as_str_piece(v, conversion=-1, spec=None):
    """the expression a maintainer would write for `{}`-formatting v inside a `+` chain"""
    if conversion == 114:       # !r
        return ast.Call(func=ast.Name(id='repr', ctx=ast.Load()), args=[v], keywords=[])
    if spec:
        return ast.Call(func=ast.Attribute(value=ast.Constant(value='{:%s}' % spec), attr='format', ctx=ast.Load()), args=[v], keywords=[])
    if isinstance(v, ast.Constant) and isinstance(v.value, str):
        return v
    if isinstance(v, ast.JoinedStr):
        return v
    if isinstance(v, ast.Call):
        fn = v.func
        nm = fn.id if isinstance(fn, ast.Name) else (fn.attr if isinstance(fn, ast.Attribute) else '')
        if nm in _STR_CALLS or nm in ('join', 'format', 'strip', 'lstrip', 'rstrip', 'replace', 'lower', 'upper', 'string', 'to_str', 'id_str', 'type_str', 'value_to_str', 'name', 'capitalize'):
            return v
    if isinstance(v, ast.BinOp) and isinstance(v.op, ast.Add):
        return v
    return ast.Call(func=ast.Name(id='str', ctx=ast.Load()), args=[v], keywords=[])


def _format_pieces(tmpl, args, kwargs):
    """pieces of tmpl.format(*args, **kwargs) or None when the template is beyond the simple forms"""
    import string
    out = []
    auto = 0
    try:
        parsed = list(string.Formatter().parse(tmpl))
    except ValueError:
        return None
    for lit, field, spec, conv in parsed:
        if lit:
            out.append(ast.Constant(value=lit))
        if field is None:
            continue
        if spec and ('{' in spec):
            return None
        if field == '':
            if auto >= len(args):
                return None
            v = args[auto]
            auto += 1
        elif field.isdigit():
            if int(field) >= len(args):
                return None
            v = args[int(field)]
        elif field.isidentifier() and field in kwargs:
            v = kwargs[field]
        else:
            return None
        out.append(_as_str_piece(v, 114 if conv == 'r' else -1, spec or None))
        if conv not in (None, 'r', 's'):
            return None
    return out


def concat_parts(e):
    """Flatten a string-building expression into its pieces (AST nodes); a piece that is itself such an expression is flattened too."""
    if isinstance(e, ast.BinOp) and isinstance(e.op, ast.Add):
        return concat_parts(e.left) + concat_parts(e.right)
    if isinstance(e, ast.JoinedStr):
        out = []
        for v in e.values:
            if isinstance(v, ast.Constant):
                out.append(v)
            elif isinstance(v, ast.FormattedValue):
                spec = None
                if v.format_spec is not None:
                    if len(v.format_spec.values) == 1 and isinstance(v.format_spec.values[0], ast.Constant):
                        spec = v.format_spec.values[0].value
                    else:
                        return [e]
                out.extend(concat_parts(_as_str_piece(v.value, v.conversion, spec)))
        return out
    if isinstance(e, ast.Call) and isinstance(e.func, ast.Attribute) and e.func.attr == 'join' and len(e.args) == 1 and not e.keywords \
            and isinstance(e.func.value, ast.Constant) and e.func.value.value == '' and isinstance(e.args[0], (ast.List, ast.Tuple)) \
            and not any(isinstance(x, ast.Starred) for x in e.args[0].elts):
        out = []
        for x in e.args[0].elts:
            out.extend(concat_parts(x))
        return out
    if isinstance(e, ast.Call) and isinstance(e.func, ast.Attribute) and e.func.attr == 'format' and isinstance(e.func.value, ast.Constant) \
            and isinstance(e.func.value.value, str) and not any(isinstance(a, ast.Starred) for a in e.args) and not any(k.arg is None for k in e.keywords):
        ps = _format_pieces(e.func.value.value, e.args, {k.arg: k.value for k in e.keywords})
        if ps is not None and not (len(ps) == 1 and isinstance(ps[0], ast.Call) and ps[0].func is e.func):
            only_spec = len(e.args) == 1 and len(ps) == 1 and isinstance(ps[0], ast.Call) and isinstance(ps[0].func, ast.Attribute) and ps[0].func.attr == 'format'
            if only_spec:
                return [e]          # '{:7.4f}'.format(x) is already the canonical single piece
            out = []
            for x in ps:
                out.extend(concat_parts(x))
            return out
    if isinstance(e, ast.BinOp) and isinstance(e.op, ast.Mod) and isinstance(e.left, ast.Constant) and isinstance(e.left.value, str):
        vals = list(e.right.elts) if isinstance(e.right, ast.Tuple) else [e.right]
        bits = re.split(r'(%[sr])', e.left.value)
        if sum(1 for b in bits if b in ('%s', '%r')) == len(vals) and '%' not in ''.join(b for b in bits if b not in ('%s', '%r')):
            out = []
            it = iter(vals)
            for b in bits:
                if b in ('%s', '%r'):
                    out.extend(concat_parts(_as_str_piece(next(it), 114 if b == '%r' else -1)))
                elif b:
                    out.append(ast.Constant(value=b))
            return out
    return [e]


def concat_form(e):
    """Rewrite (recursively) every string-building sub-expression of e as a left-nested `+` chain of its pieces; adjacent literal
    pieces are merged and empty ones dropped."""
    class T(ast.NodeTransformer):
        def generic_visit(self, n):
            n = super().generic_visit(n)
            return n

        def _chain(self, n):
            ps = concat_parts(n)
            if len(ps) == 1 and ps[0] is n:
                return super().generic_visit(n)
            ps = [self.visit(p) if p is not n else p for p in ps]
            merged = []
            for p in ps:
                if isinstance(p, ast.Constant) and isinstance(p.value, str):
                    if p.value == '':
                        continue
                    if merged and isinstance(merged[-1], ast.Constant) and isinstance(merged[-1].value, str):
                        merged[-1] = ast.Constant(value=merged[-1].value + p.value)
                        continue
                merged.append(p)
            if not merged:
                return ast.Constant(value='')
            out = merged[0]
            for p in merged[1:]:
                out = ast.BinOp(left=out, op=ast.Add(), right=p)
            return out

        def visit_BinOp(self, n):
            if isinstance(n.op, (ast.Add, ast.Mod)):
                return self._chain(n)
            return super().generic_visit(n)

        def visit_JoinedStr(self, n):
            return self._chain(n)

        def visit_Call(self, n):
            if isinstance(n.func, ast.Attribute) and n.func.attr in ('join', 'format'):
                return self._chain(n)
            return super().generic_visit(n)
    return T().visit(clone_ast(e))
