"""Load-time canonicalisation: a NEW plain record class that only names the components of what a function returns.

    class _Split(NamedTuple):               def split(..):                      s = split(argv)
        before: List[str]                       ...                             use(s.before[1:], s.after)
        after: List[str]                        return _Split(a, b)

is the tuple-returning code the pinned tree has (`return (a, b)`; `before, after = split(argv)`) with the positions given names.  When every use of
the class is of that kind the trees are rewritten to the tuple form before any table is built, so that syntactic scans, fingerprints, the call graph
and the path interpreter see the shape they know.  The rewrite is all-or-nothing per record class; the conditions (checked over ALL loaded modules):

  * the class is new (its qualified name is not a pinned class), a typing.NamedTuple or a @dataclass, and its body holds nothing but a docstring
    and annotated fields without defaults;
  * the class name is mentioned only as the return annotation of functions ("producers"), as the callee of `return Cls(..)` statements inside
    producers - with every field given, by position or keyword - and in import statements;
  * every `return` of a producer is such a construction (or the producer returns the call of another producer of the same class);
  * the producers' names are unique among all function definitions, and every mention of a producer's name is the callee of a call that is
    either the whole value of `x = producer(..)` where the local `x` is bound once and every other occurrence of `x` is a load `x.<field>`, or
    the value of a tuple-unpacking assignment, or the base of `producer(..).<field>`, or a `return producer(..)` inside another producer.

Anything else - the record passed on whole, stored in an attribute, compared, iterated - leaves the class as it is (the interpreter knows records
as values, sa/sim.py).  Returns a list of human-readable notes of what was rewritten."""
import ast
import json
import os

_CANON_CLASSES = None


def _canon_classes():
    global _CANON_CLASSES
    if _CANON_CLASSES is None:
        try:
            with open(os.path.join(os.path.dirname(os.path.abspath(__file__)), 'canon_params.json')) as fh:
                _CANON_CLASSES = set(json.load(fh).get('class_attrs', {}))
        except (OSError, ValueError):
            _CANON_CLASSES = set()
    return _CANON_CLASSES


def _last(node):
    if isinstance(node, ast.Name):
        return node.id
    if isinstance(node, ast.Attribute):
        return node.attr
    return None


def _record_class(node):
    """field names when the ClassDef is a plain record, else None"""
    is_nt = any(_last(b) == 'NamedTuple' for b in node.bases)
    is_dc = any(_last(d.func if isinstance(d, ast.Call) else d) == 'dataclass' for d in node.decorator_list)
    if not (is_nt or is_dc) or (is_nt and (len(node.bases) != 1 or node.decorator_list)) or (is_dc and (node.bases or len(node.decorator_list) != 1)) or node.keywords:
        return None
    fields = []
    for i, st in enumerate(node.body):
        if i == 0 and isinstance(st, ast.Expr) and isinstance(st.value, ast.Constant) and isinstance(st.value.value, str):
            continue
        if isinstance(st, ast.Expr) and isinstance(st.value, ast.Constant) and isinstance(st.value.value, str):
            continue        # attribute docstrings
        if isinstance(st, ast.AnnAssign) and isinstance(st.target, ast.Name) and st.value is None:
            fields.append(st.target.id)
            continue
        if isinstance(st, ast.Pass):
            continue
        return None
    return fields or None


def _parents(tree):
    par = {}
    for n in ast.walk(tree):
        for c in ast.iter_child_nodes(n):
            par[id(c)] = n
    return par


def _enclosing_func(par, node):
    n = par.get(id(node))
    while n is not None and not isinstance(n, (ast.FunctionDef, ast.AsyncFunctionDef, ast.Lambda)):
        n = par.get(id(n))
    return n


def _own_nodes(fn):
    out = []

    def walk(n):
        out.append(n)
        for c in ast.iter_child_nodes(n):
            if isinstance(c, (ast.FunctionDef, ast.AsyncFunctionDef, ast.ClassDef, ast.Lambda)):
                out.append(c)       # the nested scope itself (its name / defaults), not its body
                nested.append(c)
                continue
            walk(c)
    nested = []
    for st in fn.body:
        if isinstance(st, (ast.FunctionDef, ast.AsyncFunctionDef, ast.ClassDef)):
            nested.append(st)
            continue
        walk(st)
    return out, nested


def _ctor_args(call, fields):
    """the field values of `Cls(..)` in field order, or None"""
    if any(isinstance(a, ast.Starred) for a in call.args) or any(k.arg is None for k in call.keywords):
        return None
    if len(call.args) > len(fields):
        return None
    vals = dict(zip(fields, call.args))
    for k in call.keywords:
        if k.arg not in fields or k.arg in vals:
            return None
        vals[k.arg] = k.value
    if set(vals) != set(fields):
        return None
    # keywords are evaluated in the order written: keep the rewrite only when that is the field order (or the values are atoms)
    order = [f for f in fields if f in dict(zip(fields, call.args))] + [k.arg for k in call.keywords]
    if order != fields and not all(isinstance(v, (ast.Name, ast.Constant)) for v in vals.values()):
        return None
    return [vals[f] for f in fields]


def destructure(modules):
    """modules: name -> object with .tree.  Rewrites in place; returns notes."""
    notes = []
    pinned = _canon_classes()
    trees = {name: m.tree for name, m in modules.items()}
    all_defs = {}
    for name, tree in trees.items():
        for n in ast.walk(tree):
            if isinstance(n, (ast.FunctionDef, ast.AsyncFunctionDef)):
                all_defs.setdefault(n.name, []).append((name, n))
    for modname, tree in trees.items():
        for cdef in [st for st in tree.body if isinstance(st, ast.ClassDef)]:
            if '%s.%s' % (modname, cdef.name) in pinned:
                continue
            fields = _record_class(cdef)
            if fields is None:
                continue
            plan = _plan(cdef, fields, modname, trees, all_defs)
            if plan is None:
                continue
            for act in plan:
                act()
            tree.body.remove(cdef)
            for t in trees.values():
                ast.fix_missing_locations(t)
            notes.append('record %s.%s(%s) read as the tuple it names' % (modname, cdef.name, ', '.join(fields)))
    return notes


def _plan(cdef, fields, modname, trees, all_defs):
    cname = cdef.name
    actions = []
    producers = {}
    pars = {name: _parents(t) for name, t in trees.items()}
    # ---- mentions of the class name
    ctor_calls = []
    for name, tree in trees.items():
        par = pars[name]
        for n in ast.walk(tree):
            if isinstance(n, ast.ClassDef) and n is not cdef and n.name == cname:
                return None
            if isinstance(n, ast.alias) and (n.name == cname or n.asname == cname):
                if n.asname not in (None, cname):
                    return None
                imp = par.get(id(n))
                if not isinstance(imp, ast.ImportFrom):
                    return None

                def drop(imp=imp, n=n, holder=par.get(id(imp))):
                    imp.names.remove(n)
                    if not imp.names:
                        for fld in ('body', 'orelse', 'finalbody'):
                            seq = getattr(holder, fld, None)
                            if isinstance(seq, list) and imp in seq:
                                seq[seq.index(imp)] = ast.Pass()
                actions.append(drop)
                continue
            if isinstance(n, ast.Attribute) and n.attr == cname:
                return None
            if isinstance(n, ast.Constant) and n.value == cname:
                p = par.get(id(n))
                if isinstance(p, (ast.FunctionDef, ast.AsyncFunctionDef)) and p.returns is n:
                    producers[id(p)] = (name, p)
                    continue
                return None
            if not (isinstance(n, ast.Name) and n.id == cname):
                continue
            p = par.get(id(n))
            if isinstance(p, (ast.FunctionDef, ast.AsyncFunctionDef)) and p.returns is n:
                producers[id(p)] = (name, p)
            elif isinstance(p, ast.Call) and p.func is n and isinstance(par.get(id(p)), ast.Return):
                ctor_calls.append((name, p, par.get(id(p))))
            else:
                return None
    if not producers:
        return None
    pnames = {p.name for _, p in producers.values()}
    for pn in pnames:
        if len(all_defs.get(pn, [])) != 1:
            return None
    # ---- every return of a producer builds the record (or hands on another producer's)
    for name, p in producers.values():
        own, nested = _own_nodes(p)
        if any(isinstance(x, (ast.Yield, ast.YieldFrom, ast.Await)) for x in own):
            return None
        rets = [x for x in own if isinstance(x, ast.Return)]
        if not rets:
            return None
        for r in rets:
            v = r.value
            if isinstance(v, ast.Call) and isinstance(v.func, ast.Name) and v.func.id == cname:
                vals = _ctor_args(v, fields)
                if vals is None:
                    return None

                def to_tuple(r=r, vals=vals):
                    r.value = ast.copy_location(ast.Tuple(elts=vals, ctx=ast.Load()), r.value)
                actions.append(to_tuple)
            elif isinstance(v, ast.Call) and _last(v.func) in pnames:
                pass
            else:
                return None

        def unannotate(p=p):
            p.returns = None
        actions.append(unannotate)
    for name, call, ret in ctor_calls:
        f = _enclosing_func(pars[name], ret)
        if f is None or id(f) not in producers:
            return None
    # ---- every mention of a producer is a call whose value is taken apart by field
    for name, tree in trees.items():
        par = pars[name]
        for n in ast.walk(tree):
            if isinstance(n, ast.alias) and (n.name in pnames or n.asname in pnames):
                if n.asname not in (None, n.name):
                    return None
                continue
            if isinstance(n, ast.Constant) and n.value in pnames and isinstance(n.value, str):
                continue        # text, not a reference (a getattr() by that string would be a different matter: producers are called by name below)
            ref = None
            if isinstance(n, ast.Name) and n.id in pnames:
                ref = n
            elif isinstance(n, ast.Attribute) and n.attr in pnames:
                ref = n
            if ref is None:
                continue
            call = par.get(id(ref))
            if not (isinstance(call, ast.Call) and call.func is ref):
                return None
            use = par.get(id(call))
            if isinstance(use, ast.Return):
                f = _enclosing_func(par, use)
                if f is None or id(f) not in producers:
                    return None
                continue
            if isinstance(use, ast.Attribute) and use.value is call and isinstance(use.ctx, ast.Load) and use.attr in fields:
                def index(use=use, call=call, holder=par.get(id(use))):
                    new = ast.copy_location(ast.Subscript(value=call, slice=ast.Constant(value=fields.index(use.attr)), ctx=ast.Load()), use)
                    _replace_child(holder, use, new)
                actions.append(index)
                continue
            if isinstance(use, ast.Assign) and use.value is call and len(use.targets) == 1:
                t = use.targets[0]
                if isinstance(t, (ast.Tuple, ast.List)) and len(t.elts) == len(fields) and not any(isinstance(e, ast.Starred) for e in t.elts):
                    continue
                if isinstance(t, ast.Name):
                    f = _enclosing_func(par, use)
                    if f is None or isinstance(f, ast.Lambda):
                        return None
                    got = _field_only_local(f, t, use, fields)
                    if got is None:
                        return None
                    actions.append(got)
                    continue
            if isinstance(use, ast.AnnAssign) and use.value is call and isinstance(use.target, ast.Name):
                return None
            return None
    return actions


def _replace_child(holder, old, new):
    for fld, val in ast.iter_fields(holder):
        if val is old:
            setattr(holder, fld, new)
            return True
        if isinstance(val, list):
            for i, x in enumerate(val):
                if x is old:
                    val[i] = new
                    return True
    return False


def _field_only_local(f, target, assign, fields):
    """`x = producer(..)` in f: x is bound once, not a parameter / global / closure variable, and every other occurrence is a load `x.<field>`."""
    x = target.id
    own, nested = _own_nodes(f)
    args = f.args
    params = [a.arg for a in args.posonlyargs + args.args + args.kwonlyargs] + ([args.vararg.arg] if args.vararg else []) + ([args.kwarg.arg] if args.kwarg else [])
    if x in params:
        return None
    for n in own:
        if isinstance(n, (ast.Global, ast.Nonlocal)) and x in n.names:
            return None
    for sc in nested:
        for n in ast.walk(sc):
            if isinstance(n, ast.Name) and n.id == x:
                return None         # read (or rebound) in a nested scope
    par = {}
    for n in own:
        for c in ast.iter_child_nodes(n):
            par[id(c)] = n
    uses = []
    for n in own:
        if isinstance(n, ast.Name) and n.id == x and n is not target:
            p = par.get(id(n))
            if not (isinstance(n.ctx, ast.Load) and isinstance(p, ast.Attribute) and p.value is n and isinstance(p.ctx, ast.Load) and p.attr in fields):
                return None
            uses.append((p, par.get(id(p))))
        if isinstance(n, (ast.ExceptHandler,)) and n.name == x:
            return None
    # names for the components: the field names, unless one is already a name of this function
    taken = set(params)
    for n in own:
        if isinstance(n, ast.Name):
            taken.add(n.id)
    for sc in nested:
        if hasattr(sc, 'name'):
            taken.add(sc.name)
        for n in ast.walk(sc):
            if isinstance(n, ast.Name):
                taken.add(n.id)
    names = {}
    for fl in fields:
        nm = fl if fl not in taken else '%s_%s' % (x, fl)
        if nm in taken:
            return None
        names[fl] = nm
        taken.add(nm)

    def act():
        new_t = ast.copy_location(ast.Tuple(elts=[ast.copy_location(ast.Name(id=names[fl], ctx=ast.Store()), target) for fl in fields], ctx=ast.Store()), target)
        assign.targets[0] = new_t
        for attr, holder in uses:
            _replace_child(holder, attr, ast.copy_location(ast.Name(id=names[attr.attr], ctx=ast.Load()), attr))
    return act
