"""E8 effects (writer enumeration, transitive write sets) and E9 exception flow."""
import ast

from .core import AnalysisError, norm, FuncInfo, ClassInfo, is_main_guard
from .sim import MUTATORS, exc_catches

DYNAMIC_WHITELIST = {'core.util.generate_disseminator', 'core.util.new_disseminator_of_type',
                     'core.util.generate_disseminator.<locals>.generate_method'}


class Write:
    __slots__ = ('func', 'node', 'kind', 'attr', 'owners', 'base', 'fresh', 'via', 'stmt')

    def __init__(self, func, node, kind, attr, owners, base, fresh, via, stmt):
        self.func = func
        self.node = node
        self.kind = kind        # store | aug | del | mutate:<method> | substore | subdel | global-store | ...
        self.attr = attr
        self.owners = owners    # set of class quals / module names; empty = unresolved receiver
        self.base = base        # text of receiver
        self.fresh = fresh      # self-store inside __init__ (object under construction)
        self.via = via          # mutator method or None
        self.stmt = stmt

    def __repr__(self):
        return 'Write(%s %s.%s in %s: %s)' % (self.kind, '|'.join(sorted(self.owners)) or '?', self.attr,
                                             self.func.short, norm(self.stmt)[:60])

    def loc(self):
        return self.func.loc(self.node)


def _stmt_of(n):
    while n is not None and not isinstance(n, ast.stmt):
        n = getattr(n, '_parent', None)
    return n


def _read_only_mapping_use(n):
    """is the mapping produced by the node n (vars(x), x.__dict__) only looked at?  `.items() / .keys() / .values() / .get(k) / .copy()` called on it,
    or the node handed to one of the reading builtins, iterated, or tested with `in`"""
    par = getattr(n, '_parent', None)
    if isinstance(par, ast.Attribute) and par.value is n and par.attr in ('items', 'keys', 'values', 'get', 'copy') and isinstance(getattr(par, '_parent', None), ast.Call) \
            and par._parent.func is par:
        return True
    if isinstance(par, ast.Call) and n in par.args and isinstance(par.func, ast.Name) and par.func.id in ('sorted', 'list', 'tuple', 'dict', 'len', 'repr', 'str', 'set', 'frozenset', 'iter'):
        return True
    if isinstance(par, (ast.For, ast.comprehension)) and par.iter is n:
        return True
    if isinstance(par, ast.Compare) and n in par.comparators and all(isinstance(o, (ast.In, ast.NotIn)) for o in par.ops):
        return True
    return False


class Effects:
    def __init__(self, repo):
        self.repo = repo
        self.cg = repo.callgraph()
        self.by_func = {}
        self._check_dynamic()
        for f in repo.all_funcs():
            self.by_func[f] = self._scan(f)

    def _check_dynamic(self):
        for f in self.repo.all_funcs():
            cq_ = lambda g: getattr(g, 'canon_qual', None) or g.qual
            if cq_(f) in DYNAMIC_WHITELIST or (f.outer_func and cq_(f.outer_func) in DYNAMIC_WHITELIST):
                continue
            for n in f.body_nodes():
                if isinstance(n, ast.Call) and isinstance(n.func, ast.Name):
                    if n.func.id in ('setattr', 'delattr', 'exec', 'eval', 'vars', 'globals', 'locals'):
                        if n.func.id == 'vars' and _read_only_mapping_use(n):
                            continue        # vars(x).items() and the like: the attribute table is looked at (a __repr__), nothing is written through it
                        if self.repo.lookup(f.module, n.func.id) is None:
                            raise AnalysisError('dynamic construct %s() at %s defeats writer enumeration'
                                                % (n.func.id, f.loc(n)))
                    if n.func.id == 'getattr' and len(n.args) >= 2 and not isinstance(n.args[1], ast.Constant):
                        raise AnalysisError('getattr with non-constant name at %s' % f.loc(n))
                if isinstance(n, ast.Attribute) and n.attr == '__dict__':
                    inside_whitelisted = f.qual.startswith('core.util.generate_disseminator')
                    if not inside_whitelisted and not (isinstance(n.ctx, ast.Load) and _read_only_mapping_use(n)):
                        raise AnalysisError('__dict__ access at %s defeats writer enumeration' % f.loc(n))
                if isinstance(n, ast.Call) and isinstance(n.func, ast.Attribute) and n.func.attr == '__init__':
                    v = n.func.value
                    if not (isinstance(v, ast.Call) and isinstance(v.func, ast.Name) and v.func.id == 'super'):
                        raise AnalysisError('explicit __init__ re-invocation at %s' % f.loc(n))

    # -- per function scan -------------------------------------------------------------------
    def _owners(self, f, base):
        """Which classes / modules own the attribute accessed on `base`."""
        owners = set()
        for t in self.repo.expr_types(f, base):
            if t[0] == 'inst':
                owners.add(t[1].qual)
            elif t[0] == 'class':
                owners.add('class:' + t[1].qual)
            elif t[0] == 'module':
                owners.add('module:' + t[1].name)
        return owners

    def _scan(self, f):
        repo = self.repo
        writes = []
        is_init = f.name == '__init__' and f.cls is not None
        selfname = f.params()[0] if (f.cls is not None and not f.is_static() and f.params()) else None
        local_names = set()
        global_decl = set()
        alias = {}      # local name -> attribute expression it aliases (x = self.attr / self.attr[k])
        if not f.is_module_body:
            for n in f.body_nodes():
                if isinstance(n, ast.Global):
                    global_decl.update(n.names)
            for n in f.body_nodes():
                if isinstance(n, ast.Name) and isinstance(n.ctx, (ast.Store, ast.Del)) and n.id not in global_decl:
                    local_names.add(n.id)
            local_names.update(f.params())
        for n in f.body_nodes():
            if isinstance(n, ast.Assign) and len(n.targets) == 1 and isinstance(n.targets[0], ast.Name):
                v = n.value
                root = v
                while isinstance(root, ast.Subscript):
                    root = root.value
                if isinstance(root, ast.Attribute):
                    alias.setdefault(n.targets[0].id, []).append(v)

        def attr_of(expr):
            """(base expr, attr) of the attribute a mutated expression lives in; follows x[k] and aliases."""
            e = expr
            while isinstance(e, ast.Subscript):
                e = e.value
            if isinstance(e, ast.Attribute):
                return [(e.value, e.attr)]
            if isinstance(e, ast.Name):
                if e.id in alias and e.id in local_names:
                    out = []
                    for a in alias[e.id]:
                        out.extend(attr_of(a))
                    return out
                if e.id not in local_names or e.id in global_decl or f.is_module_body:
                    r = repo.lookup(f.module, e.id)
                    if r is not None and r[0] == 'var':
                        return [(('module', r[3].name), e.id)]
                    if f.is_module_body:
                        return [(('module', f.module.name), e.id)]
            return []

        def record(node, kind, targets, via=None):
            for base, attr in targets:
                if isinstance(base, tuple):
                    owners = {'module:' + base[1]}
                    btxt = base[1]
                    fresh = f.is_module_body and base[1] == f.module.name
                else:
                    owners = self._owners(f, base)
                    btxt = norm(base)
                    fresh = bool(is_init and isinstance(base, ast.Name) and base.id == selfname)
                writes.append(Write(f, node, kind, attr, owners, btxt, fresh, via, _stmt_of(node)))

        skip = set()
        if f.is_module_body and f.module.name != 'main':
            for st in f.module.tree.body:
                if is_main_guard(st):
                    for x in ast.walk(st):
                        skip.add(id(x))
        for n in f.body_nodes():
            if id(n) in skip:
                continue
            if isinstance(n, (ast.Assign, ast.AnnAssign, ast.AugAssign)):
                tgts = n.targets if isinstance(n, ast.Assign) else [n.target]
                if isinstance(n, ast.AnnAssign) and n.value is None:
                    continue
                flat = []
                for t in tgts:
                    if isinstance(t, (ast.Tuple, ast.List)):
                        flat.extend(t.elts)
                    else:
                        flat.append(t)
                for t in flat:
                    kind = 'aug' if isinstance(n, ast.AugAssign) else 'store'
                    if isinstance(t, ast.Attribute):
                        record(t, kind, [(t.value, t.attr)])
                    elif isinstance(t, ast.Subscript):
                        record(t, 'sub' + kind, attr_of(t.value))
                    elif isinstance(t, ast.Name):
                        if t.id in global_decl:
                            record(t, 'global-' + kind, [(('module', f.module.name), t.id)])
                        elif f.is_module_body:
                            record(t, 'global-' + kind, [(('module', f.module.name), t.id)])
                        elif kind == 'aug' and t.id in alias:
                            record(t, 'aug', attr_of(t))
            elif isinstance(n, ast.Delete):
                for t in n.targets:
                    if isinstance(t, ast.Attribute):
                        record(t, 'del', [(t.value, t.attr)])
                    elif isinstance(t, ast.Subscript):
                        record(t, 'subdel', attr_of(t.value))
            elif isinstance(n, ast.Call) and isinstance(n.func, ast.Attribute) and n.func.attr in MUTATORS:
                tg = attr_of(n.func.value)
                if tg:
                    # only containers: skip if receiver is a production-class instance with such a method
                    site = self.cg.site_of(f, n)
                    if site is not None and site.kind in ('virtual', 'exact', 'diss'):
                        continue
                    record(n, 'mutate', tg, via=n.func.attr)
        return writes

    # -- queries -------------------------------------------------------------------------------
    def writers(self, owner_qual, attr, include_unresolved=True):
        """All writes to attribute `attr` of class `owner_qual` (or its sub/superclasses) anywhere."""
        repo = self.repo
        fam = set()
        if owner_qual.startswith('module:') or owner_qual.startswith('class:'):
            fam.add(owner_qual)
            if owner_qual.startswith('class:'):
                c = repo.cls(owner_qual[6:])
                fam |= {'class:' + k.qual for k in repo.subclasses(c)} | {'class:' + k.qual for k in c.mro()}
                fam |= {k.qual for k in repo.subclasses(c)} | {k.qual for k in c.mro()}
        else:
            c = repo.cls(owner_qual)
            fam = {k.qual for k in c.mro()} | {k.qual for k in repo.subclasses(c)}
            fam |= {'class:' + q for q in fam}
        out = []
        for f, ws in self.by_func.items():
            for w in ws:
                if w.attr != attr:
                    continue
                if w.owners & fam:
                    out.append(w)
                elif not w.owners and include_unresolved:
                    out.append(w)
        return out

    def closure_writes(self, roots, include_fresh=False, stop=None):
        fs = self.cg.closure(roots, stop=stop)
        out = []
        for f in fs:
            for w in self.by_func.get(f, []):
                if w.fresh and not include_fresh:
                    continue
                out.append(w)
        return out


# ----------------------------------------------------------------------------------------------
# E9 exceptions
# ----------------------------------------------------------------------------------------------

class RaiseSite:
    __slots__ = ('func', 'node', 'exc', 'kind', 'text')

    def __init__(self, func, node, exc, kind, text):
        self.func = func
        self.node = node
        self.exc = exc
        self.kind = kind        # explicit | assert | implicit
        self.text = text

    def __repr__(self):
        return 'Raise(%s %s at %s)' % (self.exc, self.kind, self.func.loc(self.node))

    def key(self):
        return '%s:%s:%s' % (self.func.qual, self.exc, self.text)


def is_abstract_marker(f):
    if f.is_module_body:
        return False
    body = [s for s in f.node.body if not (isinstance(s, ast.Expr) and isinstance(s.value, ast.Constant))]
    if len(body) != 1 or not isinstance(body[0], ast.Raise):
        return False
    e = body[0].exc
    e = e.func if isinstance(e, ast.Call) else e
    return e is not None and norm(e) == 'NotImplementedError'


def handler_stack(f, node):
    """Handlers covering `node` inside f, innermost first: list of (Try node, [ (handler, [type names]) ])."""
    out = []
    child = node
    p = getattr(node, '_parent', None)
    while p is not None and p is not f.node:
        if isinstance(p, ast.Try):
            if any(child is s for s in p.body):
                hs = []
                for h in p.handlers:
                    if h.type is None:
                        hs.append((h, [None]))
                    elif isinstance(h.type, ast.Tuple):
                        hs.append((h, [norm(e).split('.')[-1] for e in h.type.elts]))
                    else:
                        hs.append((h, [norm(h.type).split('.')[-1]]))
                out.append((p, hs))
        if isinstance(p, (ast.FunctionDef, ast.AsyncFunctionDef, ast.Lambda, ast.ClassDef)):
            break
        child = p
        p = getattr(p, '_parent', None)
    return out


def first_catcher(stack, exc):
    for tr, hs in stack:
        for h, types in hs:
            if any(exc_catches(t, exc) for t in types):
                return h
    return None


# ------------------------------------------------------------------------------------------------------------------------------
# local discharge of raise sites: forms whose safety is visible in the function itself
# ------------------------------------------------------------------------------------------------------------------------------
_KEY_VIEWS = ('sorted', 'list', 'tuple', 'reversed', 'set', 'frozenset', 'iter')
_REMOVERS = ('pop', 'popitem', 'clear')


def _same(a, b):
    return norm(a) == norm(b)


def _keys_of(it, d):
    """does iterating `it` yield keys of the dict expression `d`?  d, d.keys(), sorted(d), list(d.keys()), reversed(sorted(d)) .."""
    if _same(it, d):
        return True
    if isinstance(it, ast.Call) and isinstance(it.func, ast.Attribute) and it.func.attr == 'keys' and not it.args and _same(it.func.value, d):
        return True
    if isinstance(it, ast.Call) and isinstance(it.func, ast.Name) and it.func.id in _KEY_VIEWS and len(it.args) >= 1:
        return _keys_of(it.args[0], d)
    return False


def _removes_from(nodes, d):
    for x in nodes:
        if isinstance(x, ast.Delete):
            for t in x.targets:
                if isinstance(t, ast.Subscript) and _same(t.value, d):
                    return True
        if isinstance(x, ast.Call) and isinstance(x.func, ast.Attribute) and x.func.attr in _REMOVERS and _same(x.func.value, d):
            return True
        if isinstance(x, (ast.Assign, ast.AugAssign, ast.AnnAssign)):
            for t in (x.targets if isinstance(x, ast.Assign) else [x.target]):
                if _same(t, d):
                    return True
    return False


def key_locally_ensured(f, sub):
    """`D[k]` (load): k is the variable of an enclosing loop / comprehension over the keys of D, or the subscript sits under a test `k in D`
    (if-body, conditional expression, right operand of `and`), and nothing in the function removes entries from D or rebinds it.
    The reason as text, or None."""
    d, k = sub.value, sub.slice
    if not isinstance(k, ast.Name):
        return None
    if _removes_from(list(f.body_nodes()), d):
        return None
    n = sub
    par = getattr(n, '_parent', None)
    while par is not None and par is not f.node:
        if isinstance(par, (ast.ListComp, ast.SetComp, ast.GeneratorExp, ast.DictComp)):
            for g in par.generators:
                if isinstance(g.target, ast.Name) and g.target.id == k.id and _keys_of(g.iter, d) and n is not g.iter:
                    return 'the key iterates over the keys of %s' % norm(d)
        if isinstance(par, ast.For) and isinstance(par.target, ast.Name) and par.target.id == k.id and _keys_of(par.iter, d) and n in par.body:
            rebinds = [x for st in par.body for x in ast.walk(st) if isinstance(x, ast.Name) and x.id == k.id and isinstance(x.ctx, ast.Store)]
            if not rebinds:
                return 'the key iterates over the keys of %s' % norm(d)
        test = None
        if isinstance(par, ast.If) and n in par.body:
            test = par.test
        elif isinstance(par, ast.IfExp) and n is par.body:
            test = par.test
        elif isinstance(par, ast.BoolOp) and isinstance(par.op, ast.And) and n in par.values[1:]:
            test = ast.BoolOp(op=ast.And(), values=par.values[:par.values.index(n)])
        if test is not None:
            conj = test.values if isinstance(test, ast.BoolOp) and isinstance(test.op, ast.And) else [test]
            for c in conj:
                if isinstance(c, ast.Compare) and len(c.ops) == 1 and isinstance(c.ops[0], ast.In) and _same(c.left, k) and _same(c.comparators[0], d):
                    if isinstance(par, ast.If):
                        idx = par.body.index(n) if n in par.body else 0
                        upto = idx if isinstance(par.body[idx], (ast.Assign, ast.AnnAssign, ast.Expr, ast.Return)) else idx + 1    # (the right-hand side is evaluated before the store)
                        before = [x for st in par.body[:upto] for x in ast.walk(st) if isinstance(x, ast.Name) and x.id == k.id and isinstance(x.ctx, ast.Store)]
                        if before:
                            break
                    return 'under the test %s' % norm(c)
        n = par
        par = getattr(par, '_parent', None)
    return None


def _ann_alternatives(ann):
    """the alternatives of an annotation as names: Optional[X] -> ['X', 'None'];  Union[A, B] -> ['A', 'B'];  X -> ['X'];  None when not understood"""
    if ann is None:
        return None
    if isinstance(ann, ast.Constant):
        if ann.value is None:
            return ['None']
        if isinstance(ann.value, str):
            try:
                return _ann_alternatives(ast.parse(ann.value, mode='eval').body)
            except SyntaxError:
                return None
        return None
    if isinstance(ann, ast.BinOp) and isinstance(ann.op, ast.BitOr):
        l, r = _ann_alternatives(ann.left), _ann_alternatives(ann.right)
        return None if l is None or r is None else l + r
    if isinstance(ann, ast.Subscript):
        head = norm(ann.value).split('.')[-1]
        if head == 'Optional':
            inner = _ann_alternatives(ann.slice)
            return None if inner is None else inner + ['None']
        if head == 'Union':
            out = []
            for e in (ann.slice.elts if isinstance(ann.slice, ast.Tuple) else [ann.slice]):
                a = _ann_alternatives(e)
                if a is None:
                    return None
                out += a
            return out
        return [{'List': 'list', 'Dict': 'dict', 'Tuple': 'tuple', 'Set': 'set', 'FrozenSet': 'frozenset', 'Type': 'type'}.get(head, head)]
    if isinstance(ann, (ast.Name, ast.Attribute)):
        nm = norm(ann).split('.')[-1]
        return None if nm in ('Any', 'object') else [nm]
    return None


def assert_implied_by_annotations(repo, f, test):
    """an `assert` that only re-states the annotations of the function's own parameters: a Boolean combination of `isinstance(p, C)`,
    `p is None`, `p is not None` that is true for every alternative of each parameter's annotation (subclass relation by the repository's
    class table; bool is an int).  Assumes the program is type-correct with respect to its annotations (the repository's test suite runs mypy).
    The reason as text, or None."""
    if f.is_module_body:
        return None
    anns = {a.arg: a.annotation for a in f.param_nodes()}
    names = set()

    def atoms(e):
        if isinstance(e, ast.BoolOp):
            return all(atoms(v) for v in e.values)
        if isinstance(e, ast.UnaryOp) and isinstance(e.op, ast.Not):
            return atoms(e.operand)
        if isinstance(e, ast.Call) and isinstance(e.func, ast.Name) and e.func.id == 'isinstance' and len(e.args) == 2 and isinstance(e.args[0], ast.Name) and not e.keywords:
            names.add(e.args[0].id)
            return True
        if isinstance(e, ast.Compare) and len(e.ops) == 1 and isinstance(e.ops[0], (ast.Is, ast.IsNot)) and isinstance(e.left, ast.Name) \
                and isinstance(e.comparators[0], ast.Constant) and e.comparators[0].value is None:
            names.add(e.left.id)
            return True
        return False
    if not atoms(test) or not names:
        return None
    # the parameters must not be rebound before the assert (conservatively: anywhere in the function)
    for x in f.body_nodes():
        if isinstance(x, ast.Name) and x.id in names and isinstance(x.ctx, (ast.Store, ast.Del)):
            return None
    alts = {}
    for nm in names:
        a = _ann_alternatives(anns.get(nm))
        if not a:
            return None
        alts[nm] = a

    def is_sub(t, cexpr):
        cs = cexpr.elts if isinstance(cexpr, ast.Tuple) else [cexpr]
        for c in cs:
            cn = norm(c).split('.')[-1]
            if t == cn or (t == 'bool' and cn == 'int'):
                return True
            tc = [k for k in repo.classes.values() if k.name == t]
            cc = [k for k in repo.classes.values() if k.name == cn]
            if len(tc) == 1 and len(cc) == 1 and tc[0].is_subclass_of(cc[0]):
                return True
        return False

    def ev(e, env):
        if isinstance(e, ast.BoolOp):
            vals = [ev(v, env) for v in e.values]
            return all(vals) if isinstance(e.op, ast.And) else any(vals)
        if isinstance(e, ast.UnaryOp):
            return not ev(e.operand, env)
        if isinstance(e, ast.Call):
            t = env[e.args[0].id]
            return t != 'None' and is_sub(t, e.args[1])
        isnone = env[e.left.id] == 'None'
        return isnone if isinstance(e.ops[0], ast.Is) else not isnone
    import itertools
    order = sorted(alts)
    for combo in itertools.product(*[alts[n_] for n_ in order]):
        if not ev(test, dict(zip(order, combo))):
            return None
    return 'restates the annotations of %s' % ', '.join(order)


def locally_discharged(repo, f, node, exc):
    """a raise site that cannot fire for a reason visible in its own function: the reason, or None"""
    if exc == 'KeyError' and isinstance(node, ast.Subscript) and isinstance(node.ctx, ast.Load):
        return key_locally_ensured(f, node)
    if exc == 'AssertionError' and isinstance(node, ast.Assert):
        return assert_implied_by_annotations(repo, f, node.test)
    return None


class Exceptions:
    """Explicit raises, asserts and a frozen table of partial built-ins; propagation over the RTA call graph."""

    def __init__(self, repo, implicit=True, include_asserts=True):
        self.repo = repo
        self.cg = repo.callgraph()
        self.implicit = implicit
        self.include_asserts = include_asserts
        self.sites = {}
        self.discharged = []        # (func, node, exception, reason): sites whose safety is visible in their own function
        for f in repo.all_funcs():
            self.sites[f] = [] if is_abstract_marker(f) else self._scan(f)
        self._esc = None

    def _scan(self, f):
        repo = self.repo
        out = []
        for n in f.body_nodes():
            if isinstance(n, ast.Raise):
                if n.exc is None:
                    # re-raise inside a handler: the handler's own types
                    h = n
                    while h is not None and not isinstance(h, ast.ExceptHandler):
                        h = getattr(h, '_parent', None)
                    types = ['Exception']
                    if h is not None and h.type is not None:
                        types = [norm(e).split('.')[-1] for e in (h.type.elts if isinstance(h.type, ast.Tuple) else [h.type])]
                    for t in types:
                        out.append(RaiseSite(f, n, t, 'explicit', 're-raise'))
                else:
                    e = n.exc.func if isinstance(n.exc, ast.Call) else n.exc
                    out.append(RaiseSite(f, n, norm(e).split('.')[-1], 'explicit', norm(n)[:120]))
            elif isinstance(n, ast.Assert) and self.include_asserts:
                why = locally_discharged(repo, f, n, 'AssertionError')
                if why is not None:
                    self.discharged.append((f, n, 'AssertionError', why))
                    continue
                out.append(RaiseSite(f, n, 'AssertionError', 'assert', norm(n.test)[:120]))
            elif self.implicit and isinstance(n, ast.Call) and isinstance(n.func, ast.Name) \
                    and n.func.id in ('int', 'float') and len(n.args) >= 1 and repo.lookup(f.module, n.func.id) is None:
                ats = repo.expr_types(f, n.args[0])
                prims = {t[1] for t in ats if t[0] == 'prim'}
                if n.func.id == 'int' and prims and prims <= {'int', 'bool'}:
                    continue
                if n.func.id == 'float' and prims and prims <= {'int', 'float', 'bool'}:
                    continue
                if prims == {'float'} or (prims and prims <= {'float', 'int'}):
                    out.append(RaiseSite(f, n, 'OverflowError', 'implicit', norm(n)[:120]))
                    out.append(RaiseSite(f, n, 'ValueError', 'implicit', norm(n)[:120]))
                elif 'str' in prims or not ats:
                    if not ats and n.func.id == 'int':
                        # unknown operand: may be a float attribute (e.g. arg.value) or gdb value
                        out.append(RaiseSite(f, n, 'ValueError', 'implicit', norm(n)[:120]))
                        out.append(RaiseSite(f, n, 'OverflowError', 'implicit', norm(n)[:120]))
                    else:
                        out.append(RaiseSite(f, n, 'ValueError', 'implicit', norm(n)[:120]))
                else:
                    out.append(RaiseSite(f, n, 'ValueError', 'implicit', norm(n)[:120]))
                    if any(t == ('prim', 'float') for t in ats):
                        out.append(RaiseSite(f, n, 'OverflowError', 'implicit', norm(n)[:120]))
            elif self.implicit and isinstance(n, ast.Subscript) and isinstance(n.ctx, (ast.Load, ast.Del)):
                bts = repo.expr_types(f, n.value)
                if any(t[0] == 'dict' for t in bts):
                    why = locally_discharged(repo, f, n, 'KeyError')
                    if why is not None:
                        self.discharged.append((f, n, 'KeyError', why))
                        continue
                    out.append(RaiseSite(f, n, 'KeyError', 'implicit', norm(n)[:120]))
        return out

    def escapes(self, f):
        if self._esc is None:
            self._compute()
        return self._esc.get(f, set())

    def _compute(self):
        esc = {f: set() for f in self.sites}
        changed = True
        cg = self.cg
        while changed:
            changed = False
            for f in self.sites:
                cur = esc[f]
                new = set()
                for rs in self.sites[f]:
                    if first_catcher(handler_stack(f, rs.node), rs.exc) is None:
                        new.add(rs)
                for s in cg.sites.get(f, []):
                    stack = None
                    for g in cg.targets(s):
                        for rs in esc.get(g, ()):
                            if stack is None:
                                stack = handler_stack(f, s.node)
                            if first_catcher(stack, rs.exc) is None:
                                new.add(rs)
                if not new <= cur:
                    cur |= new
                    changed = True
        self._esc = esc

    def reaching_handler(self, f, handler):
        """Raise sites whose exception is caught first by `handler` (an ExceptHandler node inside f)."""
        out = []
        tr = handler._parent
        body_nodes = set()
        for s in tr.body:
            for n in ast.walk(s):
                body_nodes.add(id(n))
        for rs in self.sites[f]:
            if id(rs.node) in body_nodes and first_catcher(handler_stack(f, rs.node), rs.exc) is handler:
                out.append((rs, [f]))
        for s in self.cg.sites.get(f, []):
            if id(s.node) not in body_nodes:
                continue
            stack = handler_stack(f, s.node)
            for g in self.cg.targets(s):
                for rs in self.escapes(g):
                    if first_catcher(stack, rs.exc) is handler:
                        out.append((rs, [f, g]))
        return out

    def chain(self, src, rs):
        """A call chain from src to the function containing raise site rs along which rs escapes."""
        from collections import deque
        q = deque([(src, [src])])
        seen = {src}
        while q:
            f, path = q.popleft()
            if f is rs.func:
                return path
            for s in self.cg.sites.get(f, []):
                for g in self.cg.targets(s):
                    if g in seen:
                        continue
                    if rs in self.escapes(g):
                        seen.add(g)
                        q.append((g, path + [g]))
        return None
