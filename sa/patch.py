"""Apply a `git diff` style unified patch to source texts in memory (for the self-test overlays).

apply_patch(patch_text, read) -> {relpath: new text, or None for a file the patch deletes / moves away} or None when a hunk does not
apply to the current text (context / removed lines differ) or the patch is binary.  New files, deleted files and renames (with or without
content changes) are supported; an overlay value of None means "this path no longer exists"."""
import re

_HUNK = re.compile(r'^@@ -(\d+)(?:,(\d+))? \+(\d+)(?:,(\d+))? @@')


def parse(patch_text):
    files = []
    cur = None
    lines = patch_text.split('\n')
    i = 0
    while i < len(lines):
        ln = lines[i]
        if ln.startswith('diff --git '):
            cur = {'old': None, 'new': None, 'hunks': [], 'special': False, 'rename_from': None, 'rename_to': None, 'newfile': False, 'deleted': False}
            files.append(cur)
        elif cur is not None and (ln.startswith('Binary files') or ln.startswith('GIT binary patch')):
            cur['special'] = True
        elif cur is not None and ln.startswith('new file mode'):
            cur['newfile'] = True
        elif cur is not None and ln.startswith('deleted file mode'):
            cur['deleted'] = True
        elif cur is not None and ln.startswith('rename from '):
            cur['rename_from'] = ln[len('rename from '):].strip()
        elif cur is not None and ln.startswith('rename to '):
            cur['rename_to'] = ln[len('rename to '):].strip()
        elif cur is not None and ln.startswith('--- ') and not cur['hunks']:
            cur['old'] = ln[4:].strip()
        elif cur is not None and ln.startswith('+++ ') and not cur['hunks']:
            cur['new'] = ln[4:].strip()
        elif cur is not None and _HUNK.match(ln):
            m = _HUNK.match(ln)
            h = {'start': int(m.group(1)), 'lines': []}
            i += 1
            while i < len(lines) and not lines[i].startswith('diff --git ') and not _HUNK.match(lines[i]):
                if lines[i].startswith('\\'):      # "\ No newline at end of file"
                    h['lines'].append(('\\', ''))
                elif lines[i][:1] in (' ', '+', '-'):
                    h['lines'].append((lines[i][0], lines[i][1:]))
                elif lines[i] == '' and i == len(lines) - 1:
                    pass
                else:
                    h['lines'].append((' ', lines[i]))
                i += 1
            cur['hunks'].append(h)
            continue
        i += 1
    return files


def apply_patch(patch_text, read):
    out = {}
    for f in parse(patch_text):
        if f['special']:
            return None
        if f['rename_from'] and f['rename_to'] and not f['hunks']:
            try:
                out[f['rename_to']] = read(f['rename_from'])     # a pure move
            except OSError:
                return None
            out[f['rename_from']] = None
            continue
        if not f['old'] or not f['new']:
            continue            # e.g. a mode change only
        if f['new'] == '/dev/null' or f['deleted']:
            out[re.sub(r'^[ab]/', '', f['old'])] = None
            continue
        rel = re.sub(r'^[ab]/', '', f['new'])
        if f['old'] == '/dev/null' or f['newfile']:
            src = ''
        else:
            src_rel = f['rename_from'] or re.sub(r'^[ab]/', '', f['old'])
            if src_rel != rel and not f['rename_from']:
                return None
            try:
                src = read(src_rel)
            except OSError:
                return None
            if src_rel != rel:
                out[src_rel] = None
        trailing_nl = src.endswith('\n')
        sl = src.split('\n')
        if trailing_nl:
            sl = sl[:-1]
        res = []
        pos = 0
        for h in f['hunks']:
            start = h['start'] - 1 if h['start'] > 0 else 0
            if start < pos:
                return None
            res.extend(sl[pos:start])
            pos = start
            for k, (tag, text) in enumerate(h['lines']):
                if tag == '\\':
                    continue
                if tag in (' ', '-'):
                    if pos >= len(sl) or sl[pos] != text:
                        return None
                    if tag == ' ':
                        res.append(text)
                    pos += 1
                else:
                    res.append(text)
        res.extend(sl[pos:])
        out[rel] = '\n'.join(res) + ('\n' if trailing_nl else '')
    return out
