"""Engine core (E1-E4): loader, symbols, light types, call graph with RTA.

Pure standard library. Nothing from the analysed repository is imported or executed.
"""
import ast
import re
import hashlib
import os
import sys

PROD_ROOTS = ['main.py', 'core', 'backends', 'frontends', 'interfaces']


class AnalysisError(Exception):
    """The analysis cannot be carried out soundly (exit 2, never a VIOLATION)."""


def norm(node):
    """Normalised text of an AST node (position independent)."""
    if node is None:
        return 'None'
    if isinstance(node, str):
        return node
    try:
        return ast.unparse(node)
    except Exception:
        return ast.dump(node)


# ----------------------------------------------------------------------------------------------
# E1 loader
# ----------------------------------------------------------------------------------------------

def _inline_callable_aliases(tree):
    """Canonicalisation at load time: a local that is bound ONCE to an attribute chain (`readline = input_file.readline`,
    `found = acc.append`, `show = self.out.show`) and is used ONLY as the callee of calls is a hoisted bound method.  Every such call is
    rewritten to the spelled-out method call, so that syntactic scans, the call graph and the path interpreter all see `input_file.readline()`.
    Conditions (all checked on the function's own body, nested scopes excluded): the local is not a parameter, global or nonlocal, has exactly one
    binding and it is that plain assignment; every load of it is the `func` of a Call located after the assignment; the base name of the chain is
    bound at most once in the function, before the alias; no attribute of the chain is stored to in the function.  Returns the number of calls rewritten."""
    count = 0

    def own_nodes(fn):
        out = []

        def walk(n, top):
            if not top and isinstance(n, (ast.FunctionDef, ast.AsyncFunctionDef, ast.ClassDef, ast.Lambda)):
                out.append(('nested', n))
                return
            out.append(('own', n))
            for c in ast.iter_child_nodes(n):
                walk(c, False)
        for st in fn.body:
            walk(st, False)
        return out

    for fn in [n for n in ast.walk(tree) if isinstance(n, (ast.FunctionDef, ast.AsyncFunctionDef))]:
        nodes = own_nodes(fn)
        own = [n for k, n in nodes if k == 'own']
        nested = [n for k, n in nodes if k == 'nested']
        params = {a.arg for a in fn.args.posonlyargs + fn.args.args + fn.args.kwonlyargs}
        if fn.args.vararg:
            params.add(fn.args.vararg.arg)
        if fn.args.kwarg:
            params.add(fn.args.kwarg.arg)
        declared = set()
        for n in own:
            if isinstance(n, (ast.Global, ast.Nonlocal)):
                declared.update(n.names)
        stores = {}
        for n in own:
            if isinstance(n, ast.Name) and isinstance(n.ctx, (ast.Store, ast.Del)):
                stores.setdefault(n.id, []).append(n)
            elif isinstance(n, ast.ExceptHandler) and n.name:
                stores.setdefault(n.name, []).append(n)
            elif isinstance(n, (ast.Import, ast.ImportFrom)):
                for a in n.names:
                    stores.setdefault((a.asname or a.name).split('.')[0], []).append(n)
        nested_names = {x.id for nn in nested for x in ast.walk(nn) if isinstance(x, ast.Name)}
        attr_stores = {norm(n) for n in own if isinstance(n, ast.Attribute) and isinstance(n.ctx, (ast.Store, ast.Del))}
        call_funcs = {id(n.func) for n in own if isinstance(n, ast.Call)}
        for st in own:
            if not (isinstance(st, ast.Assign) and len(st.targets) == 1 and isinstance(st.targets[0], ast.Name)):
                continue
            x = st.targets[0].id
            v = st.value
            if x in params or x in declared or x in nested_names or len(stores.get(x, [])) != 1:
                continue
            chain = v
            ok = isinstance(chain, ast.Attribute)
            prefixes = []
            while isinstance(chain, ast.Attribute):
                prefixes.append(norm(chain))
                chain = chain.value
            if not ok or not isinstance(chain, ast.Name):
                continue
            base = chain.id
            bst = stores.get(base, [])
            if base in declared or len(bst) > 1 or (bst and (base in params or getattr(bst[0], 'lineno', 0) >= st.lineno)):
                continue
            if any(p_ in attr_stores for p_ in prefixes):
                continue
            loads = [n for n in own if isinstance(n, ast.Name) and n.id == x and isinstance(n.ctx, ast.Load)]
            if not loads or not all(id(n) in call_funcs and (n.lineno, n.col_offset) > (st.lineno, st.col_offset) for n in loads):
                continue
            for call in [n for n in own if isinstance(n, ast.Call) and isinstance(n.func, ast.Name) and n.func.id == x]:
                new = ast.parse(norm(v), mode='eval').body
                for y in ast.walk(new):
                    y.lineno, y.col_offset = call.func.lineno, call.func.col_offset
                    y.end_lineno, y.end_col_offset = getattr(call.func, 'end_lineno', call.func.lineno), getattr(call.func, 'end_col_offset', call.func.col_offset)
                call.func = new
                count += 1
    return count


def fingerprint_of(fn_node):
    """bag (sorted list, repetitions capped) of the attribute names, global names, constants and statement kinds a function body uses -
    what stays when the function, its parameters or its locals are renamed (names bound inside the function are left out)"""
    bound = set()
    if isinstance(fn_node, (ast.FunctionDef, ast.AsyncFunctionDef)):
        a = fn_node.args
        bound |= {x.arg for x in a.posonlyargs + a.args + a.kwonlyargs}
        if a.vararg:
            bound.add(a.vararg.arg)
        if a.kwarg:
            bound.add(a.kwarg.arg)
    for n in ast.walk(fn_node):
        if isinstance(n, ast.Name) and isinstance(n.ctx, (ast.Store, ast.Del)):
            bound.add(n.id)
        elif isinstance(n, ast.ExceptHandler) and n.name:
            bound.add(n.name)
        elif isinstance(n, ast.arg):
            bound.add(n.arg)
    bag = {}
    for n in ast.walk(fn_node):
        t = None
        if isinstance(n, ast.Attribute):
            t = '.' + n.attr
        elif isinstance(n, ast.Name):
            t = n.id if n.id not in bound else None
        elif isinstance(n, ast.Constant) and isinstance(n.value, (str, int, float)) and not isinstance(n.value, bool):
            t = repr(n.value)[:40]
        elif isinstance(n, (ast.If, ast.For, ast.While, ast.Return, ast.Raise, ast.Try, ast.With, ast.Assert, ast.Assign, ast.AugAssign, ast.Call, ast.Compare, ast.BoolOp)):
            t = '#' + type(n).__name__
        if t is not None:
            bag[t] = min(bag.get(t, 0) + 1, 4)
    return sorted('%s*%d' % kv for kv in bag.items())


_CANON_VARS = None


def _canon_module_vars(modname):
    """names bound at module level on the pinned tree (None when the module is unknown / the table is missing)"""
    global _CANON_VARS
    if _CANON_VARS is None:
        import json
        try:
            with open(os.path.join(os.path.dirname(os.path.abspath(__file__)), 'canon_params.json')) as fh:
                _CANON_VARS = json.load(fh).get('module_vars', {})
        except (OSError, ValueError):
            _CANON_VARS = {}
    return _CANON_VARS.get(modname)


def _inline_new_compiled_regexes(tree, modname):
    """Canonicalisation at load time: a module-level `X = re.compile(P[, flags])` that did not exist on the pinned tree is a hoisted
    pattern.  `X.split(s, 1)`, `X.sub(r, s)`, `X.match(s)` ... inside this module are rewritten to the module-function spelling
    `re.split(P, s, 1)` they were hoisted from (the `re` module caches compiled patterns, the two are the same function of their arguments).
    Only for names bound exactly once at module level, never declared global, in modules that import `re` under that name."""
    canon = _canon_module_vars(modname)
    if canon is None:
        return 0
    if not any(isinstance(st, ast.Import) and any(a.name == 're' and a.asname is None for a in st.names) for st in tree.body):
        return 0
    binds = {}
    for st in tree.body:
        for n in ast.walk(st) if not isinstance(st, (ast.FunctionDef, ast.AsyncFunctionDef, ast.ClassDef)) else []:
            if isinstance(n, ast.Name) and isinstance(n.ctx, ast.Store):
                binds[n.id] = binds.get(n.id, 0) + 1
    globals_declared = {nm for n in ast.walk(tree) if isinstance(n, ast.Global) for nm in n.names}
    pats = {}
    for st in tree.body:
        if isinstance(st, ast.Assign) and len(st.targets) == 1 and isinstance(st.targets[0], ast.Name) and isinstance(st.value, ast.Call) \
                and norm(st.value.func) == 're.compile' and 1 <= len(st.value.args) <= 2 and all(k.arg == 'flags' for k in st.value.keywords):
            x = st.targets[0].id
            if x in canon or binds.get(x) != 1 or x in globals_declared:
                continue
            flags = st.value.args[1] if len(st.value.args) == 2 else (st.value.keywords[0].value if st.value.keywords else None)
            pats[x] = (st.value.args[0], flags)
    if not pats:
        return 0
    count = 0
    for call in [n for n in ast.walk(tree) if isinstance(n, ast.Call)]:
        fn = call.func
        if not (isinstance(fn, ast.Attribute) and isinstance(fn.value, ast.Name) and fn.value.id in pats):
            continue
        m = fn.attr
        if m in ('match', 'search', 'fullmatch', 'findall', 'finditer'):
            if len(call.args) != 1 or call.keywords:
                continue
        elif m not in ('split', 'sub', 'subn'):
            continue
        if any(isinstance(a, ast.Starred) for a in call.args) or any(k.arg is None or k.arg == 'flags' for k in call.keywords):
            continue
        pat, flags = pats[fn.value.id]

        def fresh(node):
            c = ast.parse(norm(node), mode='eval').body
            for y in ast.walk(c):
                y.lineno, y.col_offset = call.lineno, call.col_offset
                y.end_lineno, y.end_col_offset = getattr(call, 'end_lineno', call.lineno), getattr(call, 'end_col_offset', call.col_offset)
            return c
        newf = fresh(ast.Attribute(value=ast.Name(id='re', ctx=ast.Load()), attr=m, ctx=ast.Load()))
        call.func = newf
        call.args = [fresh(pat)] + list(call.args)
        if flags is not None:
            call.keywords = list(call.keywords) + [ast.keyword(arg='flags', value=fresh(flags))]
        count += 1
    return count


class Module:
    def __init__(self, name, relpath, src, is_pkg):
        self.name = name
        self.relpath = relpath
        self.src = src
        self.is_pkg = is_pkg
        try:
            self.tree = ast.parse(src, filename=relpath)
        except SyntaxError as e:
            raise AnalysisError('%s does not parse: %s' % (relpath, e))
        self.inlined_aliases = _inline_callable_aliases(self.tree)
        self.inlined_regexes = _inline_new_compiled_regexes(self.tree, name)
        self.reparent()
        self.scope = None       # name -> binding, built lazily
        self.stars = []
        self.sha = hashlib.sha256(src.encode()).hexdigest()

    def reparent(self):
        for n in ast.walk(self.tree):
            for c in ast.iter_child_nodes(n):
                c._parent = n
        self.tree._parent = None

    @property
    def package(self):
        return self.name if self.is_pkg else self.name.rpartition('.')[0]


class ClassInfo:
    def __init__(self, repo, module, node, outer):
        self.repo = repo
        self.module = module
        self.node = node
        self.outer = outer      # enclosing ClassInfo or None
        self.name = node.name
        self.qual = (outer.qual + '.' if outer else module.name + '.') + node.name
        self.methods = {}
        self.nested = {}
        self.class_attrs = {}   # name -> value node (class body assignments)
        self.class_anns = {}    # name -> annotation node (class body annotated assignments)
        self._bases = None
        self._attr_types = None
        for st in node.body:
            if isinstance(st, (ast.FunctionDef, ast.AsyncFunctionDef)):
                self.methods[st.name] = FuncInfo(repo, module, st, self, None)
            elif isinstance(st, ast.ClassDef):
                self.nested[st.name] = ClassInfo(repo, module, st, self)
            elif isinstance(st, ast.Assign):
                for t in st.targets:
                    if isinstance(t, ast.Name):
                        self.class_attrs[t.id] = st.value
            elif isinstance(st, ast.AnnAssign) and isinstance(st.target, ast.Name):
                self.class_attrs[st.target.id] = st.value
                self.class_anns[st.target.id] = st.annotation

    def __repr__(self):
        return '<class %s>' % self.qual

    @property
    def bases(self):
        """Resolved base classes: list of ClassInfo or ('ext', text)."""
        if self._bases is None:
            out = []
            for b in self.node.bases:
                e = b
                if isinstance(e, ast.Subscript):     # Generic[T], Matcher[T]
                    e = e.value
                r = self.repo.resolve_expr_static(self.module, e, self)
                if r and r[0] == 'class':
                    out.append(r[1])
                else:
                    out.append(('ext', norm(e)))
            self._bases = out
        return self._bases

    def mro(self):
        seen = []
        def walk(c):
            if c in seen:
                return
            seen.append(c)
            for b in c.bases:
                if isinstance(b, ClassInfo):
                    walk(b)
        walk(self)
        return seen

    def ext_bases(self):
        out = []
        for c in self.mro():
            for b in c.bases:
                if not isinstance(b, ClassInfo):
                    out.append(b[1])
        return out

    def find_method(self, name):
        for c in self.mro():
            if name in c.methods:
                return c.methods[name]
        return None

    def record_fields(self):
        """field names, in order, when this class is a plain record: a typing.NamedTuple or a @dataclass without an __init__ of its own
        (the constructor just stores its arguments: Rec(a, b).x is a); else None"""
        if '__init__' in self.methods or '__new__' in self.methods:
            return None
        is_nt = any(str(b).split('.')[-1] == 'NamedTuple' for b in self.ext_bases())
        is_dc = any(norm(d.func if isinstance(d, ast.Call) else d).split('.')[-1] == 'dataclass' for d in self.node.decorator_list)
        if not (is_nt or is_dc):
            return None
        out = []
        for st in self.node.body:
            if isinstance(st, ast.AnnAssign) and isinstance(st.target, ast.Name):
                out.append((st.target.id, st.value))
        return out or None

    def is_subclass_of(self, other):
        return other in self.mro()

    def all_nested(self):
        for c in self.nested.values():
            yield c
            yield from c.all_nested()


class FuncInfo:
    def __init__(self, repo, module, node, cls, outer_func):
        self.repo = repo
        self.module = module
        self.node = node
        self.cls = cls
        self.outer_func = outer_func
        self.name = node.name if hasattr(node, 'name') else '<module>'
        if cls is not None:
            self.qual = cls.qual + '.' + self.name
        elif outer_func is not None:
            self.qual = outer_func.qual + '.<locals>.' + self.name
        else:
            self.qual = module.name + '.' + self.name
        self._locals = None

    def __repr__(self):
        return '<func %s>' % self.qual

    @property
    def short(self):
        return (self.cls.name + '.' if self.cls else '') + self.name

    @property
    def is_module_body(self):
        return isinstance(self.node, ast.Module)

    def params(self):
        if self.is_module_body:
            return []
        a = self.node.args
        return [x.arg for x in a.posonlyargs + a.args + a.kwonlyargs]

    def param_nodes(self):
        if self.is_module_body:
            return []
        a = self.node.args
        return a.posonlyargs + a.args + a.kwonlyargs

    def is_property(self):
        """a getter: `@property` / `@cached_property` (the attribute load X.name runs this body)"""
        if self.is_module_body:
            return False
        for d in self.node.decorator_list:
            if norm(d).split('.')[-1] in ('property', 'cached_property'):
                return True
        return False

    def is_static(self):
        if self.is_module_body:
            return True
        for d in self.node.decorator_list:
            if isinstance(d, ast.Name) and d.id == 'staticmethod':
                return True
        return False

    def body_nodes(self):
        """All AST nodes of this function body excluding nested function/class definitions' bodies."""
        out = []
        def walk(n, top):
            if not top and isinstance(n, (ast.FunctionDef, ast.AsyncFunctionDef, ast.ClassDef)):
                return
            out.append(n)
            for c in ast.iter_child_nodes(n):
                walk(c, False)
        if self.is_module_body:
            for st in self.node.body:
                walk(st, False)
        else:
            for st in self.node.body:
                walk(st, False)
        return out

    def loc(self, node=None):
        n = node if node is not None and hasattr(node, 'lineno') else self.node
        return '%s:%s %s' % (self.module.relpath, getattr(n, 'lineno', 0), self.short)


def is_main_guard(st):
    """`if __name__ == '__main__':`"""
    if not isinstance(st, ast.If):
        return False
    t = st.test
    return (isinstance(t, ast.Compare) and isinstance(t.left, ast.Name) and t.left.id == '__name__'
            and len(t.ops) == 1 and isinstance(t.ops[0], ast.Eq))


def is_type_checking_guard(st):
    return isinstance(st, ast.If) and isinstance(st.test, ast.Name) and st.test.id == 'TYPE_CHECKING'


class Repo:
    def __init__(self, root, overlay=None):
        self.root = os.path.abspath(root)
        self.overlay = overlay or {}
        self.modules = {}
        self.by_relpath = {}
        self.classes = {}       # qual -> ClassInfo
        self.funcs = {}         # qual -> FuncInfo
        self.consulted = {}
        self._load()
        self._cg = None

    # -- loading --------------------------------------------------------------------------
    def _load(self):
        paths = []
        for r in PROD_ROOTS:
            p = os.path.join(self.root, r)
            if os.path.isfile(p):
                paths.append(r)
            elif os.path.isdir(p):
                for dp, dns, fns in os.walk(p):
                    dns[:] = sorted(d for d in dns if d not in ('test', '__pycache__'))
                    for fn in sorted(fns):
                        if fn.endswith('.py') and fn != 'conftest.py':
                            paths.append(os.path.relpath(os.path.join(dp, fn), self.root))
        def _is_prod(rel):
            parts = rel.split(os.sep)
            return rel.endswith('.py') and (rel in PROD_ROOTS or parts[0] in PROD_ROOTS) and 'test' not in parts[:-1] and parts[-1] != 'conftest.py'
        for rel in set(self.overlay) - set(paths):
            if self.overlay[rel] is not None and _is_prod(rel):
                paths.append(rel)           # a file the overlay creates (or moves here)
        paths = [rel for rel in paths if not (rel in self.overlay and self.overlay[rel] is None)]     # .. deletes (or moves away)
        if not paths:
            raise AnalysisError('no production modules found under ' + self.root)
        for rel in sorted(paths):
            src = self.overlay.get(rel)
            if src is None:
                with open(os.path.join(self.root, rel), encoding='utf-8') as f:
                    src = f.read()
            parts = rel[:-3].split(os.sep)
            is_pkg = parts[-1] == '__init__'
            if is_pkg:
                parts = parts[:-1]
            name = '.'.join(parts)
            m = Module(name, rel, src, is_pkg)
            self.modules[name] = m
            self.by_relpath[rel] = m
        # a new record class that only names the components of a returned tuple is read as that tuple (sa/destructure.py)
        from . import destructure as _destructure
        self.destructured = _destructure.destructure(self.modules)
        if self.destructured:
            for m in self.modules.values():
                m.reparent()
        # identifiers that were merely renamed are mapped back to their pinned names before any table is built (sa/rename.py)
        from . import rename as _rename
        self.renames = _rename.canonicalise(self.modules, fingerprint_of) + self.destructured
        for m in self.modules.values():
            m.body_func = FuncInfo(self, m, m.tree, None, None)
            m.body_func.qual = m.name + '.<module>'
            self.funcs[m.body_func.qual] = m.body_func
            m.classes = {}
            m.functions = {}
            self._collect_defs(m, m.tree.body)
        for m in self.modules.values():
            for c in list(m.classes.values()):
                self._register_class(c)
            for f in m.functions.values():
                self.funcs[f.qual] = f
        # a function / method / class that moved to another module keeps its pinned qualified name (every table, predicate and report
        # that goes by `qual` then sees the pinned identity; `module` stays the module it lives in now, for name resolution and locations)
        def requalify(f, new_qual):
            for k in [k for k, v in self.funcs.items() if v is f]:
                del self.funcs[k]
            f.qual = new_qual
            f.canon_qual = new_qual
            self.funcs[new_qual] = f
        for old_qual, (mn, cn, fname) in getattr(_rename.canonicalise, 'moved', {}).items():
            mm = self.modules.get(mn)
            if mm is None or old_qual in self.funcs:
                continue
            target = None
            if cn is None:
                target = mm.functions.get(fname)
            elif cn in mm.classes:
                target = mm.classes[cn].methods.get(fname)
            if target is not None:
                requalify(target, old_qual)
        for old_qual, (mn, cname) in getattr(_rename.canonicalise, 'moved_classes', {}).items():
            mm = self.modules.get(mn)
            if mm is None or cname not in mm.classes or old_qual in self.classes:
                continue
            c = mm.classes[cname]
            for k in [k for k, v in self.classes.items() if v is c]:
                del self.classes[k]
            c.qual = old_qual
            c.canon_qual = old_qual
            self.classes[old_qual] = c
            for mname_, f in c.methods.items():
                requalify(f, '%s.%s' % (old_qual, mname_))

    def _collect_defs(self, m, body):
        for st in body:
            if isinstance(st, (ast.FunctionDef, ast.AsyncFunctionDef)):
                m.functions[st.name] = FuncInfo(self, m, st, None, None)
            elif isinstance(st, ast.ClassDef):
                m.classes[st.name] = ClassInfo(self, m, st, None)
            elif isinstance(st, ast.If):
                self._collect_defs(m, st.body)
                self._collect_defs(m, st.orelse)
            elif isinstance(st, ast.Try):
                self._collect_defs(m, st.body)

    def _register_class(self, c):
        self.classes[c.qual] = c
        for f in c.methods.values():
            self.funcs[f.qual] = f
        for n in c.nested.values():
            self._register_class(n)

    def digest_table(self):
        return {m.relpath: 'sha256:' + m.sha for m in self.modules.values()}

    def read_text(self, rel):
        if rel in self.overlay:
            return self.overlay[rel]
        with open(os.path.join(self.root, rel), encoding='utf-8') as f:
            return f.read()

    # -- lookup helpers ---------------------------------------------------------------------
    def func(self, qual):
        """Find a function by qualified name suffix, e.g. 'ConnectionImpl.create_object' or 'parse.message'."""
        if qual in self.funcs:
            return self.funcs[qual]
        hits = []
        for q, f in self.funcs.items():
            if q.endswith('.' + qual) and not any(h is f for h in hits):
                hits.append(f)          # (a moved function is registered under its pinned and its present name)
        if len(hits) == 1:
            return hits[0]
        if not hits:
            raise AnalysisError('anchor function %s not found' % qual)
        raise AnalysisError('anchor function %s ambiguous: %s' % (qual, [h.qual for h in hits]))

    def try_func(self, qual):
        try:
            return self.func(qual)
        except AnalysisError:
            return None

    def cls(self, qual):
        if qual in self.classes:
            return self.classes[qual]
        hits = []
        for q, c in self.classes.items():
            if q.endswith('.' + qual) and not any(h is c for h in hits):
                hits.append(c)
        if len(hits) == 1:
            return hits[0]
        if not hits:
            raise AnalysisError('anchor class %s not found' % qual)
        raise AnalysisError('anchor class %s ambiguous: %s' % (qual, [h.qual for h in hits]))

    def all_funcs(self, include_module_bodies=True):
        for f in self.funcs.values():
            if f.is_module_body and not include_module_bodies:
                continue
            yield f

    def subclasses(self, c):
        return [k for k in self.classes.values() if k is not c and k.is_subclass_of(c)]

    # -- E2 symbols ---------------------------------------------------------------------------
    def module_scope(self, m):
        if m.scope is not None:
            return m.scope
        scope = {}
        m.scope = scope
        m.stars = []
        def add_import(st):
            if isinstance(st, ast.Import):
                for a in st.names:
                    if a.asname:
                        scope[a.asname] = ('modref', a.name)
                    else:
                        scope[a.name.split('.')[0]] = ('modref', a.name.split('.')[0])
            elif isinstance(st, ast.ImportFrom):
                base = st.module or ''
                if st.level:
                    pk = m.package.split('.') if m.package else []
                    up = st.level - 1
                    if up:
                        pk = pk[:-up]
                    base = '.'.join(pk + ([st.module] if st.module else []))
                for a in st.names:
                    if a.name == '*':
                        m.stars.append(base)
                    else:
                        scope[a.asname or a.name] = ('from', base, a.name)
        def walk(body):
            for st in body:
                if isinstance(st, (ast.Import, ast.ImportFrom)):
                    add_import(st)
                elif isinstance(st, (ast.FunctionDef, ast.AsyncFunctionDef)):
                    if st.name in m.functions and m.functions[st.name].node is st:
                        scope[st.name] = ('func', m.functions[st.name])
                elif isinstance(st, ast.ClassDef):
                    if st.name in m.classes and m.classes[st.name].node is st:
                        scope[st.name] = ('class', m.classes[st.name])
                elif isinstance(st, ast.Assign):
                    for t in st.targets:
                        if isinstance(t, ast.Name):
                            scope[t.id] = ('var', st.value, None, m)
                        elif isinstance(t, ast.Tuple):
                            comps = st.value.elts if isinstance(st.value, ast.Tuple) and len(st.value.elts) == len(t.elts) \
                                and not any(isinstance(x, ast.Starred) for x in list(t.elts) + list(st.value.elts)) else None
                            for i_, e in enumerate(t.elts):
                                if isinstance(e, ast.Name):
                                    scope[e.id] = ('var', comps[i_] if comps is not None else None, None, m)     # A, B = x, y  is  A = x; B = y
                elif isinstance(st, ast.AnnAssign) and isinstance(st.target, ast.Name):
                    scope[st.target.id] = ('var', st.value, st.annotation, m)
                elif isinstance(st, ast.If):
                    if is_main_guard(st):
                        continue
                    walk(st.body)
                    walk(st.orelse)
                elif isinstance(st, ast.Try):
                    walk(st.body)
                    for h in st.handlers:
                        walk(h.body)
        walk(m.tree.body)
        return scope

    def lookup(self, m, name, _seen=None):
        """Resolve a global name in module m to ('func',F) ('class',C) ('module',M) ('var',value,ann,module)
        ('ext', dotted) or None."""
        _seen = _seen or set()
        key = (m.name, name)
        if key in _seen:
            return None
        _seen.add(key)
        scope = self.module_scope(m)
        b = scope.get(name)
        if b is None:
            for s in m.stars:
                sm = self.modules.get(s)
                if sm is None:
                    continue
                if name.startswith('_'):
                    continue
                r = self.lookup(sm, name, _seen)
                if r is not None:
                    return r
            return None
        return self._follow(b, _seen)

    def _follow(self, b, _seen):
        if b[0] == 'modref':
            if b[1] in self.modules:
                return ('module', self.modules[b[1]])
            return ('ext', b[1])
        if b[0] == 'from':
            base, name = b[1], b[2]
            sub = (base + '.' + name) if base else name
            if base in self.modules:
                bm = self.modules[base]
                r = self.lookup(bm, name, _seen)
                if r is not None:
                    return r
                if sub in self.modules:
                    return ('module', self.modules[sub])
                return None
            if sub in self.modules:
                return ('module', self.modules[sub])
            return ('ext', sub)
        return b

    def resolve_expr_static(self, m, e, cls_ctx=None):
        """Resolve Name / dotted Attribute expression to a static entity (no instance typing)."""
        if isinstance(e, ast.Constant) and isinstance(e.value, str):
            try:
                e = ast.parse(e.value, mode='eval').body
            except SyntaxError:
                return None
        if isinstance(e, ast.Name):
            c = cls_ctx
            while c is not None:       # nested class names visible by qualified access only, but handle siblings
                if e.id in c.nested:
                    return ('class', c.nested[e.id])
                c = c.outer
            return self.lookup(m, e.id)
        if isinstance(e, ast.Attribute):
            base = self.resolve_expr_static(m, e.value, cls_ctx)
            if base is None:
                return None
            if base[0] == 'module':
                bm = base[1]
                r = self.lookup(bm, e.attr)
                if r is not None:
                    return r
                sub = bm.name + '.' + e.attr
                if sub in self.modules:
                    return ('module', self.modules[sub])
                return None
            if base[0] == 'class':
                c = base[1]
                for k in c.mro():
                    if e.attr in k.nested:
                        return ('class', k.nested[e.attr])
                    if e.attr in k.methods:
                        return ('func', k.methods[e.attr])
                    if e.attr in k.class_attrs:
                        return ('classattr', k, e.attr)
                return None
            if base[0] == 'ext':
                return ('ext', base[1] + '.' + e.attr)
        return None

    # -- E3 light types ---------------------------------------------------------------------
    def ann_type(self, m, ann, cls_ctx=None, _depth=0):
        if ann is None or _depth > 6:
            return None
        if isinstance(ann, ast.Constant):
            if isinstance(ann.value, str):
                try:
                    return self.ann_type(m, ast.parse(ann.value, mode='eval').body, cls_ctx, _depth + 1)
                except SyntaxError:
                    return None
            if ann.value is None:
                return ('none',)
            return None
        if isinstance(ann, ast.Subscript):
            head = norm(ann.value).split('.')[-1]
            sl = ann.slice
            elts = sl.elts if isinstance(sl, ast.Tuple) else [sl]
            if head == 'Optional':
                return self.ann_type(m, elts[0], cls_ctx, _depth + 1)
            if head in ('List', 'list', 'Iterator', 'Iterable', 'Sequence'):
                return ('list', self.ann_type(m, elts[0], cls_ctx, _depth + 1))
            if head in ('Set', 'set'):
                return ('set', self.ann_type(m, elts[0], cls_ctx, _depth + 1))
            if head in ('Tuple', 'tuple'):
                if len(elts) == 2 and isinstance(elts[1], ast.Constant) and elts[1].value is Ellipsis:
                    return ('list', self.ann_type(m, elts[0], cls_ctx, _depth + 1))
                return ('tuple', tuple(self.ann_type(m, e, cls_ctx, _depth + 1) for e in elts))
            if head in ('Dict', 'dict', 'OrderedDict'):
                if len(elts) == 2:
                    return ('dict', self.ann_type(m, elts[0], cls_ctx, _depth + 1),
                            self.ann_type(m, elts[1], cls_ctx, _depth + 1))
                return ('dict', None, None)
            if head == 'Callable':
                return ('callable',)
            if head == 'IO':
                return ('ext', 'IO')
            # Generic class subscript, e.g. Matcher[wl.Message]
            return self.ann_type(m, ann.value, cls_ctx, _depth + 1)
        if isinstance(ann, (ast.Name, ast.Attribute)):
            txt = norm(ann)
            if txt in ('str', 'int', 'float', 'bool', 'bytes'):
                return ('prim', txt)
            if txt in ('Any', 'typing.Any', 'type'):
                return None
            r = self.resolve_expr_static(m, ann, cls_ctx)
            if r is None:
                return None
            if r[0] == 'class':
                return ('inst', r[1])
            if r[0] == 'var' and r[1] is not None:       # type alias
                return self.ann_type(r[3], r[1], None, _depth + 1)
            if r[0] == 'ext':
                return ('ext', r[1])
        return None

    def class_attr_types(self, c):
        """attr -> set of types, from `self.attr = ...` in methods of c (not bases)."""
        if c._attr_types is not None:
            return c._attr_types
        c._attr_types = {}
        table = {}
        for f in c.methods.values():
            if f.is_static() or not f.params():
                continue
            selfname = f.params()[0]
            for n in f.body_nodes():
                tgt = None
                val = None
                ann = None
                if isinstance(n, ast.Assign):
                    for t in n.targets:
                        if (isinstance(t, ast.Attribute) and isinstance(t.value, ast.Name)
                                and t.value.id in (selfname, c.name)):
                            table.setdefault(t.attr, []).append((f, n.value, None))
                elif isinstance(n, ast.AnnAssign):
                    t = n.target
                    if isinstance(t, ast.Attribute) and isinstance(t.value, ast.Name) and t.value.id == selfname:
                        table.setdefault(t.attr, []).append((f, n.value, n.annotation))
        c._attr_defs = table
        for attr, ann in c.class_anns.items():
            t = self.ann_type(c.module, ann, c)
            if t:
                c._attr_types.setdefault(attr, set()).add(t)
        for attr, defs in table.items():
            ts = set()
            for f, val, ann in defs:
                if ann is not None:
                    t = self.ann_type(f.module, ann, c)
                    if t:
                        ts.add(t)
                        continue
                if val is not None:
                    for t in self.expr_types(f, val):
                        ts.add(t)
            c._attr_types.setdefault(attr, set()).update(ts)
        return c._attr_types

    def attr_types(self, c, attr):
        out = set()
        for k in c.mro():
            t = self.class_attr_types(k).get(attr)
            if t:
                out |= t
        return out

    def func_locals(self, f):
        """name -> set of types (flow-insensitive)."""
        if f._locals is not None:
            return f._locals
        f._locals = {}
        env = f._locals
        def add(name, ts):
            if ts:
                env.setdefault(name, set()).update(t for t in ts if t)
        if not f.is_module_body:
            ps = f.param_nodes()
            for i, p in enumerate(ps):
                if i == 0 and f.cls is not None and not f.is_static():
                    add(p.arg, {('inst', f.cls)})
                elif p.annotation is not None:
                    add(p.arg, {self.ann_type(f.module, p.annotation, f.cls)})
        # iterate twice so later definitions can feed earlier uses
        for _ in range(2):
            for n in f.body_nodes():
                if isinstance(n, ast.AnnAssign) and isinstance(n.target, ast.Name):
                    add(n.target.id, {self.ann_type(f.module, n.annotation, f.cls)})
                elif isinstance(n, ast.Assign):
                    for t in n.targets:
                        self._bind_target(f, t, self.expr_types(f, n.value), add)
                elif isinstance(n, (ast.For, ast.comprehension)):
                    its = self.expr_types(f, n.iter)
                    self._bind_target(f, n.target, {self._elem(t) for t in its}, add)
                elif isinstance(n, ast.With):
                    for it in n.items:
                        if it.optional_vars is not None:
                            self._bind_target(f, it.optional_vars, self.expr_types(f, it.context_expr), add)
                elif isinstance(n, ast.Call) and isinstance(n.func, ast.Name) and n.func.id == 'isinstance' \
                        and len(n.args) == 2 and isinstance(n.args[0], ast.Name):
                    t = self.ann_type(f.module, n.args[1], f.cls)
                    add(n.args[0].id, {t})
        return env

    def _bind_target(self, f, t, types, add):
        if isinstance(t, ast.Name):
            add(t.id, types)
        elif isinstance(t, (ast.Tuple, ast.List)):
            for i, e in enumerate(t.elts):
                sub = set()
                for ty in types:
                    if ty and ty[0] == 'tuple' and i < len(ty[1]):
                        sub.add(ty[1][i])
                    elif ty and ty[0] == 'list':
                        sub.add(ty if isinstance(e, ast.Starred) else ty[1])
                self._bind_target(f, e.value if isinstance(e, ast.Starred) else e, sub, add)

    @staticmethod
    def _elem(t):
        if not t:
            return None
        if t[0] in ('list', 'set'):
            return t[1]
        if t[0] == 'dict':
            return t[1]
        if t[0] == 'enumerate':
            return ('tuple', (('prim', 'int'), t[1]))
        if t[0] == 'items':
            return ('tuple', (t[1], t[2]))
        return None

    _typing_guard = 0

    def expr_types(self, f, e):
        """Set of light types for expression e in function f."""
        if self._typing_guard > 40:
            return set()
        self._typing_guard += 1
        try:
            return {t for t in self._expr_types(f, e) if t}
        finally:
            self._typing_guard -= 1

    def _expr_types(self, f, e):
        if e is None:
            return set()
        if isinstance(e, ast.Constant):
            if isinstance(e.value, bool):
                return {('prim', 'bool')}
            if isinstance(e.value, str):
                return {('prim', 'str')}
            if isinstance(e.value, int):
                return {('prim', 'int')}
            if isinstance(e.value, float):
                return {('prim', 'float')}
            return set()
        if isinstance(e, ast.Name):
            env = self.func_locals(f) if f._locals is not None or True else {}
            if e.id in env and env[e.id]:
                return set(env[e.id])
            of = f.outer_func
            while of is not None:
                oenv = self.func_locals(of)
                if e.id in oenv:
                    return set(oenv[e.id])
                of = of.outer_func
            r = self.lookup(f.module, e.id)
            if r is None:
                return set()
            if r[0] == 'class':
                return {('class', r[1])}
            if r[0] == 'module':
                return {('module', r[1])}
            if r[0] == 'func':
                return {('funcref', r[1])}
            if r[0] == 'ext':
                return {('ext', r[1])}
            if r[0] == 'var':
                if r[2] is not None:
                    return {self.ann_type(r[3], r[2])}
                if r[1] is not None:
                    return self.expr_types(r[3].body_func, r[1])
            return set()
        if isinstance(e, ast.Attribute):
            out = set()
            for bt in self.expr_types(f, e.value):
                if bt[0] == 'inst':
                    c = bt[1]
                    m = c.find_method(e.attr)
                    if m is not None and m.is_property():
                        if m.node.returns is not None:
                            out.add(self.ann_type(m.module, m.node.returns, m.cls))
                        continue
                    if m is not None:
                        out.add(('bound', m, c))
                    out |= self.attr_types(c, e.attr)
                    for k in c.mro():
                        if e.attr in k.class_attrs and k.class_attrs[e.attr] is not None:
                            out |= self.expr_types(k.module.body_func, k.class_attrs[e.attr])
                elif bt[0] == 'class':
                    c = bt[1]
                    out |= self.attr_types(c, e.attr)
                    for k in c.mro():
                        if e.attr in k.nested:
                            out.add(('class', k.nested[e.attr]))
                            break
                        if e.attr in k.methods:
                            out.add(('funcref', k.methods[e.attr]))
                            break
                        if e.attr in k.class_attrs and k.class_attrs[e.attr] is not None:
                            out |= self.expr_types(k.module.body_func, k.class_attrs[e.attr])
                            break
                elif bt[0] == 'module':
                    r = self.lookup(bt[1], e.attr)
                    if r is None:
                        sub = bt[1].name + '.' + e.attr
                        if sub in self.modules:
                            out.add(('module', self.modules[sub]))
                    elif r[0] == 'class':
                        out.add(('class', r[1]))
                    elif r[0] == 'func':
                        out.add(('funcref', r[1]))
                    elif r[0] == 'module':
                        out.add(('module', r[1]))
                    elif r[0] == 'ext':
                        out.add(('ext', r[1]))
                    elif r[0] == 'var':
                        if r[2] is not None:
                            out.add(self.ann_type(r[3], r[2]))
                        elif r[1] is not None:
                            out |= self.expr_types(r[3].body_func, r[1])
                elif bt[0] == 'ext':
                    out.add(('ext', bt[1] + '.' + e.attr))
                elif bt[0] == 'diss':
                    out.add(('dissmethod', bt[1], e.attr))
                elif bt[0] in ('list', 'dict', 'set', 'prim', 'tuple'):
                    out.add(('builtinmethod', bt, e.attr))
            return out
        if isinstance(e, ast.Call):
            return self._call_types(f, e)
        if isinstance(e, ast.Subscript):
            out = set()
            for bt in self.expr_types(f, e.value):
                if bt[0] == 'list':
                    if isinstance(e.slice, ast.Slice):
                        out.add(bt)
                    else:
                        out.add(bt[1])
                elif bt[0] == 'dict':
                    out.add(bt[2])
                elif bt[0] == 'tuple':
                    if isinstance(e.slice, ast.Constant) and isinstance(e.slice.value, int) \
                            and -len(bt[1]) <= e.slice.value < len(bt[1]):
                        out.add(bt[1][e.slice.value])
                    else:
                        out.update(bt[1])
                elif bt[0] == 'prim' and bt[1] == 'str':
                    out.add(bt)
            return out
        if isinstance(e, ast.IfExp):
            return self.expr_types(f, e.body) | self.expr_types(f, e.orelse)
        if isinstance(e, ast.BoolOp):
            out = set()
            for v in e.values:
                out |= self.expr_types(f, v)
            return out
        if isinstance(e, (ast.List, ast.ListComp)):
            if isinstance(e, ast.List):
                ts = set()
                for x in e.elts:
                    ts |= self.expr_types(f, x)
                return {('list', t) for t in ts} or {('list', None)}
            return {('list', t) for t in self.expr_types(f, e.elt)} or {('list', None)}
        if isinstance(e, ast.Tuple):
            parts = []
            for x in e.elts:
                ts = self.expr_types(f, x)
                parts.append(next(iter(ts)) if len(ts) == 1 else None)
            return {('tuple', tuple(parts))}
        if isinstance(e, (ast.Dict, ast.DictComp)):
            if isinstance(e, ast.Dict) and e.values:
                vt = set()
                for v in e.values:
                    vt |= self.expr_types(f, v)
                return {('dict', None, t) for t in vt} or {('dict', None, None)}
            return {('dict', None, None)}
        if isinstance(e, ast.BinOp):
            lt = self.expr_types(f, e.left)
            if any(t[0] == 'prim' and t[1] == 'str' for t in lt):
                return {('prim', 'str')}
            if any(t[0] == 'list' for t in lt):
                return {t for t in lt if t[0] == 'list'}
            return lt
        if isinstance(e, ast.JoinedStr):
            return {('prim', 'str')}
        if isinstance(e, ast.Compare) or (isinstance(e, ast.UnaryOp) and isinstance(e.op, ast.Not)):
            return {('prim', 'bool')}
        return set()

    def _call_types(self, f, e):
        out = set()
        fn = e.func
        if isinstance(fn, ast.Name):
            nm = fn.id
            if nm in ('tuple', 'list', 'reversed', 'sorted') and e.args and nm not in self.func_locals(f):
                r = self.lookup(f.module, nm)
                if r is None:
                    ts = self.expr_types(f, e.args[0])
                    return {('list', self._elem(t)) for t in ts if t[0] in ('list', 'set', 'dict')} or {('list', None)}
            if nm == 'enumerate' and e.args:
                return {('enumerate', self._elem(t)) for t in self.expr_types(f, e.args[0])}
            if nm == 'super':
                if f.cls is not None:
                    return {('super', f.cls)}
                return set()
            if nm in ('str', 'repr') and self.lookup(f.module, nm) is None:
                return {('prim', 'str')}
            if nm in ('int', 'len') and self.lookup(f.module, nm) is None:
                return {('prim', 'int')}
            if nm == 'float' and self.lookup(f.module, nm) is None:
                return {('prim', 'float')}
            if nm == 'new_disseminator_of_type' and e.args:
                t = self.ann_type(f.module, e.args[0], f.cls)
                if t and t[0] == 'inst':
                    return {('diss', t[1])}
            if nm == 'cast' and len(e.args) == 2:
                t = self.ann_type(f.module, e.args[0], f.cls)
                return {t} if t else set()
            if nm in ('open', 'input', 'range', 'zip', 'map', 'filter', 'iter', 'bytes', 'bytearray', 'hex', 'chr', 'format') \
                    and nm not in self.func_locals(f) and self.lookup(f.module, nm) is None:
                return {('extcall', 'builtins.' + nm)}
        for ct in self.expr_types(f, fn):
            if ct[0] == 'class':
                out.add(('inst', ct[1]))
            elif ct[0] in ('funcref', 'bound'):
                g = ct[1]
                if not g.is_module_body and g.node.returns is not None:
                    out.add(self.ann_type(g.module, g.node.returns, g.cls))
            elif ct[0] == 'builtinmethod':
                bt, meth = ct[1], ct[2]
                if bt[0] == 'dict':
                    if meth in ('get', 'pop', 'setdefault'):
                        out.add(bt[2])
                    elif meth == 'values':
                        out.add(('list', bt[2]))
                    elif meth == 'keys':
                        out.add(('list', bt[1]))
                    elif meth == 'items':
                        out.add(('list', ('tuple', (bt[1], bt[2]))))
                    elif meth == 'copy':
                        out.add(bt)
                elif bt[0] == 'list' and meth in ('pop',):
                    out.add(bt[1])
                elif bt[0] == 'list' and meth == 'copy':
                    out.add(bt)
                elif bt[0] == 'prim' and bt[1] == 'str':
                    if meth in ('split', 'rsplit', 'splitlines'):
                        out.add(('list', ('prim', 'str')))
                    elif meth in ('partition', 'rpartition'):
                        out.add(('tuple', (('prim', 'str'), ('prim', 'str'), ('prim', 'str'))))
                    elif meth in ('find', 'rfind', 'index', 'rindex', 'count'):
                        out.add(('prim', 'int'))
                    elif meth in ('startswith', 'endswith', 'isdigit'):
                        out.add(('prim', 'bool'))
                    else:
                        out.add(('prim', 'str'))
            elif ct[0] == 'ext':
                out.add(('extcall', ct[1]))
        return out

    # -- E4 call graph ---------------------------------------------------------------------
    def callgraph(self):
        if self._cg is None:
            self._cg = CallGraph(self)
        return self._cg


BUILTIN_FUNCS = set(dir(__builtins__)) if not isinstance(__builtins__, dict) else set(__builtins__)


class CallSite:
    __slots__ = ('caller', 'node', 'targets', 'kind', 'ext', 'prop')

    def __init__(self, caller, node):
        self.prop = False       # the node is an Attribute load that runs a @property getter, not a Call
        self.caller = caller
        self.node = node
        self.targets = set()    # FuncInfo
        self.kind = 'unknown'   # exact | virtual | cha | diss | hof | builtin | ext | unknown
        self.ext = None


class CallGraph:
    """Call graph over production code with rapid type analysis.

    Virtual calls on a receiver of static type C dispatch to C's resolved method and to overrides in
    subclasses of C that are instantiated somewhere in reachable production code.  Unknown receivers fall
    back to class-hierarchy analysis by method name (all production methods of that name in instantiated
    classes) which over-approximates."""

    GDB_ROOT_METHODS = {'stop', 'invoke', 'complete'}

    def __init__(self, repo):
        self.repo = repo
        self.sites = {}         # FuncInfo -> [CallSite]
        self.instantiated = set()
        self._ctor_sites = {}   # ClassInfo -> [(caller, Call)]
        self._func_call_sites = {}  # FuncInfo -> [(caller, Call)]
        self.reachable = set()
        self._build()

    # roots: main.py module body (incl. __main__ block), all other module bodies (executed at import)
    def roots(self):
        out = []
        for m in self.repo.modules.values():
            out.append(m.body_func)
        return out

    def _calls_in(self, f):
        out = []
        for n in f.body_nodes():
            if isinstance(n, ast.Call):
                out.append(n)
        return out

    def _property_names(self):
        if getattr(self, '_prop_names', None) is None:
            self._prop_names = {}
            for g in self.repo.all_funcs():
                if g.cls is not None and g.is_property():
                    self._prop_names.setdefault(g.name, []).append(g)
        return self._prop_names

    def _property_sites(self, f, skip):
        """A load of X.name where name is a getter of X's class runs that getter: a call site whose node is the Attribute."""
        props = self._property_names()
        out = []
        if not props:
            return out
        for n in f.body_nodes():
            if isinstance(n, ast.Attribute) and isinstance(n.ctx, ast.Load) and n.attr in props and id(n) not in skip:
                s = CallSite(f, n)
                insts = [t for t in self.repo.expr_types(f, n.value) if t[0] == 'inst']
                if insts:
                    s.kind = 'virtual'
                    for t in insts:
                        m = t[1].find_method(n.attr)
                        if m is not None and m.is_property():
                            s.targets.add(m)
                        for k in self.repo.subclasses(t[1]):
                            if n.attr in k.methods and k.methods[n.attr].is_property():
                                s.targets.add(k.methods[n.attr])
                else:
                    s.kind = 'cha'
                    s.targets |= set(props[n.attr])
                if s.targets:
                    s.prop = True
                    out.append(s)
        return out

    def _main_guard_nodes(self, m):
        """nodes inside `if __name__ == '__main__'` blocks of non-main modules (never executed)"""
        skip = set()
        if m.name == 'main':
            return skip
        for st in m.tree.body:
            if is_main_guard(st):
                for n in ast.walk(st):
                    skip.add(id(n))
        return skip

    def _build(self):
        repo = self.repo
        # pass 1: raw resolution without RTA filter, collect instantiations among all code
        raw = {}
        for f in repo.all_funcs():
            skip = self._main_guard_nodes(f.module) if f.is_module_body else set()
            sites = []
            for call in self._calls_in(f):
                if id(call) in skip:
                    continue
                sites.append(self._resolve_site(f, call))
            sites.extend(self._property_sites(f, skip))
            raw[f] = sites
        self.sites = raw
        # callable flows (higher-order)
        self._resolve_hof()
        # RTA fixpoint: reachable functions from roots, instantiated classes in reachable functions
        reachable = set()
        inst = set()
        work = list(self.roots())
        # gdb entry points: classes deriving from gdb.* become roots once instantiated
        pending_virtual = []
        changed = True
        while changed:
            changed = False
            while work:
                f = work.pop()
                if f in reachable:
                    continue
                reachable.add(f)
                changed = True
                for s in self.sites.get(f, []):
                    for c in self._instantiations(s):
                        if c not in inst:
                            inst.add(c)
                            changed = True
                            for k in c.mro():
                                init = k.methods.get('__init__')
                            if any(b.startswith('gdb.') for b in c.ext_bases()):
                                for mn in self.GDB_ROOT_METHODS:
                                    mm = c.find_method(mn)
                                    if mm is not None:
                                        work.append(mm)
                    for t in self._filtered_targets(s, inst):
                        if t not in reachable:
                            work.append(t)
            # after instantiation set grew, virtual sites in already reachable functions may gain targets
            for f in list(reachable):
                for s in self.sites.get(f, []):
                    for t in self._filtered_targets(s, inst):
                        if t not in reachable:
                            work.append(t)
                            changed = True
        self.reachable = reachable
        self.instantiated = inst

    def _instantiations(self, s):
        out = []
        if s.kind == 'ctor':
            out.append(s.ext)
        return out

    def _filtered_targets(self, s, inst):
        if s.kind in ('virtual', 'cha', 'diss'):
            out = set()
            for t in s.targets:
                if t.cls is None:
                    out.add(t)
                    continue
                # a method is a possible target if some instantiated class resolves the name to it
                ok = False
                for c in inst:
                    if c.is_subclass_of(t.cls) and c.find_method(t.name) is t:
                        ok = True
                        break
                if ok:
                    out.add(t)
            return out
        return s.targets

    def targets(self, s):
        return self._filtered_targets(s, self.instantiated)

    def callees(self, f):
        out = set()
        for s in self.sites.get(f, []):
            out |= self.targets(s)
        return out

    def site_of(self, f, call_node):
        for s in self.sites.get(f, []):
            if s.node is call_node:
                return s
        return None

    def callers_of(self, g):
        out = []
        for f, sites in self.sites.items():
            if f not in self.reachable:
                continue
            for s in sites:
                if g in self.targets(s):
                    out.append((f, s))
        return out

    def closure(self, roots, stop=None):
        """All functions transitively callable from roots (inclusive)."""
        seen = set()
        work = list(roots)
        while work:
            f = work.pop()
            if f in seen:
                continue
            seen.add(f)
            if stop and stop(f):
                continue
            for g in self.callees(f):
                if g not in seen:
                    work.append(g)
        return seen

    def find_path(self, src, dst_pred, avoid=None):
        """Shortest call chain from src to a function satisfying dst_pred."""
        from collections import deque
        q = deque([(src, [src])])
        seen = {src}
        while q:
            f, path = q.popleft()
            if dst_pred(f) and f is not src:
                return path
            for g in sorted(self.callees(f), key=lambda x: x.qual):
                if g in seen or (avoid and avoid(g)):
                    continue
                seen.add(g)
                q.append((g, path + [g]))
        return None

    # -- per-site resolution -------------------------------------------------------------------
    def _resolve_site(self, f, call):
        repo = self.repo
        s = CallSite(f, call)
        fn = call.func
        # super().m(...)
        if isinstance(fn, ast.Attribute) and isinstance(fn.value, ast.Call) and isinstance(fn.value.func, ast.Name) \
                and fn.value.func.id == 'super' and f.cls is not None:
            mro = f.cls.mro()[1:]
            for k in mro:
                if fn.attr in k.methods:
                    s.targets.add(k.methods[fn.attr])
                    s.kind = 'exact'
                    return s
            s.kind = 'ext'
            s.ext = 'super().' + fn.attr
            return s
        cts = repo.expr_types(f, fn)
        if isinstance(fn, ast.Name) and not cts:
            if fn.id in ('str', 'repr') and len(call.args) == 1:
                # str(x) dispatches to x.__str__ / x.__repr__
                dunder = '__%s__' % fn.id
                rts = repo.expr_types(f, call.args[0])
                insts = [t for t in rts if t[0] == 'inst']
                if rts and not insts and all(t[0] in ('prim', 'list', 'dict', 'set', 'tuple', 'ext', 'extcall')
                                             for t in rts):
                    s.kind = 'builtin'
                    s.ext = fn.id
                    return s
                if insts:
                    s.kind = 'virtual'
                    for t in insts:
                        c = t[1]
                        m = c.find_method(dunder)
                        if m is not None:
                            s.targets.add(m)
                        for k in repo.subclasses(c):
                            if dunder in k.methods:
                                s.targets.add(k.methods[dunder])
                    if not s.targets:
                        s.kind = 'builtin'
                        s.ext = fn.id
                    return s
                a0 = call.args[0]
                if isinstance(a0, ast.Name):
                    # the name bound by `except ... as e`: an exception object; only exception classes of the repo can supply __str__
                    h = getattr(call, '_parent', None)
                    while h is not None and not (isinstance(h, ast.ExceptHandler) and h.name == a0.id):
                        h = getattr(h, '_parent', None)
                    if h is not None and not any(isinstance(x, ast.Name) and x.id == a0.id and isinstance(x.ctx, ast.Store) for b_ in h.body for x in ast.walk(b_)):
                        def is_exc(k, seen=()):
                            for b in k.bases:
                                if isinstance(b, ClassInfo):
                                    if b not in seen and is_exc(b, seen + (k,)):
                                        return True
                                elif re.search(r'(Error|Exception|Warning|Exit|Interrupt)$', str(b[1])):
                                    return True
                            return False
                        s.kind = 'virtual'
                        s.targets.update(k.methods[dunder] for k in repo.classes.values() if dunder in k.methods and is_exc(k))
                        if not s.targets:
                            s.kind = 'builtin'
                            s.ext = fn.id
                        return s
                s.kind = 'cha'
                s.ext = fn.id
                s.targets.update(k.methods[dunder] for k in repo.classes.values() if dunder in k.methods)
                return s
            if fn.id in BUILTIN_FUNCS:
                s.kind = 'builtin'
                s.ext = fn.id
                return s
        for ct in cts:
            if ct[0] == 'class':
                c = ct[1]
                s.kind = 'ctor'
                s.ext = c
                init = c.find_method('__init__')
                if init is not None:
                    s.targets.add(init)
                self._ctor_sites.setdefault(c, []).append((f, call))
            elif ct[0] == 'funcref':
                s.kind = 'exact'
                s.targets.add(ct[1])
                self._func_call_sites.setdefault(ct[1], []).append((f, call))
            elif ct[0] == 'bound':
                m, c = ct[1], ct[2]
                s.kind = 'virtual' if s.kind not in ('ctor',) else s.kind
                s.targets.add(m)
                for k in repo.subclasses(c):
                    if m.name in k.methods:         # (the callee may be a local bound to the method: `f = x.m; f(..)`)
                        s.targets.add(k.methods[m.name])
            elif ct[0] == 'dissmethod':
                L, name = ct[1], ct[2]
                if name in ('add_listener', 'remove_listener'):
                    if s.kind == 'unknown':
                        s.kind = 'builtin'
                        s.ext = 'disseminator.' + name
                else:
                    s.kind = 'diss'
                    s.ext = L
                    for k in repo.subclasses(L):
                        if name in k.methods:
                            s.targets.add(k.methods[name])
            elif ct[0] == 'builtinmethod':
                if s.kind == 'unknown':
                    s.kind = 'builtin'
                    s.ext = '%s.%s' % (ct[1][0] if ct[1][0] != 'prim' else ct[1][1], ct[2])
            elif ct[0] == 'ext':
                if s.kind == 'unknown':
                    s.kind = 'ext'
                    s.ext = ct[1]
            elif ct[0] == 'callable':
                if s.kind == 'unknown':
                    s.kind = 'hof'
            elif ct[0] == 'extcall':
                if s.kind == 'unknown':
                    s.kind = 'ext'
                    s.ext = ct[1] + '()'
        if s.kind == 'unknown' and isinstance(fn, ast.Attribute):
            # is the receiver of a known external / primitive nature?
            rts = repo.expr_types(f, fn.value)
            if rts and all(t[0] in ('prim', 'list', 'dict', 'set', 'tuple', 'ext', 'extcall', 'enumerate', 'none')
                           for t in rts):
                s.kind = 'builtin' if not any(t[0] in ('ext', 'extcall') for t in rts) else 'ext'
                s.ext = '%s.%s' % (sorted(t[0] if t[0] != 'prim' else t[1] for t in rts)[0], fn.attr)
                return s
            if rts and all(t[0] == 'inst' for t in rts):
                # typed receiver without such a method in its MRO: a down-cast (isinstance-narrowed) call to a
                # subclass method, or a method inherited from an external base
                for t in rts:
                    for k in repo.subclasses(t[1]):
                        if fn.attr in k.methods:
                            s.targets.add(k.methods[fn.attr])
                if s.targets:
                    s.kind = 'virtual'
                    return s
                s.kind = 'ext'
                s.ext = norm(fn)
                return s
            # class-hierarchy fallback by method name
            cands = [k.methods[fn.attr] for k in repo.classes.values() if fn.attr in k.methods]
            if cands:
                s.kind = 'cha'
                s.targets.update(cands)
            else:
                s.kind = 'builtin'      # method name unknown to production classes: str/list/dict/gdb value API
                s.ext = '?.' + fn.attr
        if s.kind == 'unknown' and isinstance(fn, ast.Name):
            # local callable (parameter or nested function)
            of = f
            while of is not None:
                for n in (of.body_nodes() if True else []):
                    if isinstance(n, (ast.FunctionDef,)) and n.name == fn.id and n is not of.node:
                        s.kind = 'nested'
                        s.ext = fn.id
                        return s
                of = of.outer_func
            if fn.id in f.params():
                s.kind = 'hof'
        return s

    # -- higher-order flows ----------------------------------------------------------------------
    def _callable_values(self, f, e, depth=0):
        """FuncInfo targets (or ('ext', name)) a callable-valued expression may denote."""
        repo = self.repo
        out = set()
        if depth > 4:
            return out
        for t in repo.expr_types(f, e):
            if t[0] == 'funcref':
                out.add(t[1])
            elif t[0] == 'bound':
                m, c = t[1], t[2]
                out.add(m)
                for k in repo.subclasses(c):
                    if m.name in k.methods:
                        out.add(k.methods[m.name])
            elif t[0] == 'ext':
                out.add(('ext', t[1]))
        if isinstance(e, ast.Name) and e.id in f.params() and not out:
            out |= self._param_values(f, e.id, depth + 1)
        if isinstance(e, ast.Name) and not out and e.id in BUILTIN_FUNCS:
            out.add(('ext', e.id))
        if isinstance(e, ast.Attribute) and not out:
            # self.attr assigned from an __init__ parameter
            for bt in repo.expr_types(f, e.value):
                if bt[0] == 'inst':
                    out |= self._attr_callable_values(bt[1], e.attr, depth + 1)
        return out

    def _param_values(self, g, pname, depth):
        out = set()
        idx = g.params().index(pname)
        sites = list(self._func_call_sites.get(g, []))
        if g.cls is not None and g.name == '__init__':
            for c in [g.cls] + self.repo.subclasses(g.cls):
                if c.find_method('__init__') is g:
                    sites += self._ctor_sites.get(c, [])
            off = 1
        elif g.cls is not None and not g.is_static():
            # bound-method calls: find via sites whose targets include g
            for f, ss in self.sites.items():
                for s in ss:
                    if g in s.targets and not s.prop and s.kind in ('virtual', 'cha', 'exact') and isinstance(s.node.func, ast.Attribute):
                        sites.append((f, s.node))
            off = 1
        else:
            off = 0
        for f, call in sites:
            arg = None
            pos = idx - off
            if 0 <= pos < len(call.args):
                arg = call.args[pos]
            for kw in call.keywords:
                if kw.arg == pname:
                    arg = kw.value
            if arg is not None:
                out |= self._callable_values(f, arg, depth)
        return out

    def _attr_callable_values(self, c, attr, depth):
        out = set()
        for k in c.mro():
            self.repo.class_attr_types(k)
            for f, val, ann in getattr(k, '_attr_defs', {}).get(attr, []):
                if val is not None:
                    out |= self._callable_values(f, val, depth)
        return out

    def _resolve_hof(self):
        for f, sites in self.sites.items():
            for s in sites:
                call = s.node
                # threading.Thread(target=X)
                if s.kind == 'ext' and s.ext and s.ext.endswith('Thread'):
                    for kw in call.keywords:
                        if kw.arg == 'target':
                            for v in self._callable_values(f, kw.value):
                                if isinstance(v, FuncInfo):
                                    s.targets.add(v)
                                    s.kind = 'hof'
                    continue
                if s.kind in ('hof', 'unknown', 'cha'):
                    vals = self._callable_values(f, call.func)
                    fis = {v for v in vals if isinstance(v, FuncInfo)}
                    exts = {v for v in vals if not isinstance(v, FuncInfo)}
                    if s.kind == 'cha' and not fis:
                        continue
                    if fis:
                        # callable attribute wins over CHA-by-name only when the attribute is not a method
                        if s.kind == 'cha':
                            continue
                        s.targets |= fis
                        s.kind = 'hof'
                    elif exts:
                        s.kind = 'ext'
                        s.ext = sorted(e[1] for e in exts)[0]

    def stats(self):
        kinds = {}
        total = 0
        for f, sites in self.sites.items():
            for s in sites:
                total += 1
                kinds[s.kind] = kinds.get(s.kind, 0) + 1
        return {'calls': total, 'by_kind': kinds,
                'resolved': total - kinds.get('unknown', 0),
                'fallback_cha': kinds.get('cha', 0),
                'reachable_functions': len(self.reachable),
                'instantiated_classes': len(self.instantiated)}

    def unknown_sites(self):
        out = []
        for f, sites in self.sites.items():
            for s in sites:
                if s.kind == 'unknown':
                    out.append(s)
        return out
