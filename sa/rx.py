"""E12: regular expressions taken from the source -> NFAs; language inclusion / intersection with witnesses."""
import ast
import re._parser as sp
from re._constants import (LITERAL, NOT_LITERAL, ANY, IN, NEGATE, RANGE, CATEGORY, SUBPATTERN, BRANCH,
                           MAX_REPEAT, MIN_REPEAT, MAXREPEAT, AT, AT_BEGINNING, AT_END, AT_BEGINNING_STRING,
                           AT_END_STRING, CATEGORY_DIGIT, CATEGORY_NOT_DIGIT, CATEGORY_WORD, CATEGORY_NOT_WORD,
                           CATEGORY_SPACE, CATEGORY_NOT_SPACE)
from collections import deque

from .core import AnalysisError, norm

# ASCII printable plus representatives of non-ASCII word / digit / other characters and TAB (a space that is
# not ' ').  Newlines never occur inside a stripped line.
UNIVERSE = [chr(c) for c in range(32, 127)] + ['\t', 'é', '٣', '→', '\x1b']


def _cat_pred(cat):
    return {
        CATEGORY_DIGIT: lambda ch: ch.isdigit(),
        CATEGORY_NOT_DIGIT: lambda ch: not ch.isdigit(),
        CATEGORY_WORD: lambda ch: ch.isalnum() or ch == '_',
        CATEGORY_NOT_WORD: lambda ch: not (ch.isalnum() or ch == '_'),
        CATEGORY_SPACE: lambda ch: ch.isspace(),
        CATEGORY_NOT_SPACE: lambda ch: not ch.isspace(),
    }[cat]


class NFA:
    def __init__(self):
        self.n = 0
        self.eps = []
        self.tr = []
        self.start = None
        self.accept = None

    def new(self):
        self.eps.append(set())
        self.tr.append([])
        self.n += 1
        return self.n - 1


def chars_of(op, av):
    if op is LITERAL:
        return frozenset(ch for ch in UNIVERSE if ord(ch) == av)
    if op is NOT_LITERAL:
        return frozenset(ch for ch in UNIVERSE if ord(ch) != av)
    if op is ANY:
        return frozenset(ch for ch in UNIVERSE if ch != '\n')
    if op is IN:
        neg = False
        acc = set()
        for o, a in av:
            if o is NEGATE:
                neg = True
            elif o is LITERAL:
                acc |= {ch for ch in UNIVERSE if ord(ch) == a}
            elif o is RANGE:
                acc |= {ch for ch in UNIVERSE if a[0] <= ord(ch) <= a[1]}
            elif o is CATEGORY:
                acc |= {ch for ch in UNIVERSE if _cat_pred(a)(ch)}
            else:
                raise AnalysisError('unsupported character-class item %s' % (o,))
        return frozenset(set(UNIVERSE) - acc) if neg else frozenset(acc)
    raise AnalysisError('unsupported regex op %s' % (op,))


def _build(nfa, items, top=False, n_items=None):
    s = nfa.new()
    cur = s
    items = list(items)
    for idx, (op, av) in enumerate(items):
        if op in (LITERAL, NOT_LITERAL, ANY, IN):
            t = nfa.new()
            nfa.tr[cur].append((chars_of(op, av), t))
            cur = t
        elif op is SUBPATTERN:
            a, b = _build(nfa, av[3])
            nfa.eps[cur].add(a)
            cur = b
        elif op is BRANCH:
            t = nfa.new()
            for alt in av[1]:
                a, b = _build(nfa, alt)
                nfa.eps[cur].add(a)
                nfa.eps[b].add(t)
            cur = t
        elif op in (MAX_REPEAT, MIN_REPEAT):
            lo, hi, sub = av
            for _ in range(lo):
                a, b = _build(nfa, sub)
                nfa.eps[cur].add(a)
                cur = b
            if hi is MAXREPEAT:
                a, b = _build(nfa, sub)
                t = nfa.new()
                nfa.eps[cur].add(a)
                nfa.eps[cur].add(t)
                nfa.eps[b].add(a)
                nfa.eps[b].add(t)
                cur = t
            else:
                t = nfa.new()
                nfa.eps[cur].add(t)
                for _ in range(hi - lo):
                    a, b = _build(nfa, sub)
                    nfa.eps[cur].add(a)
                    cur = b
                    nfa.eps[cur].add(t)
                cur = t
        elif op is AT:
            if top and idx == 0 and av in (AT_BEGINNING, AT_BEGINNING_STRING):
                continue
            if top and idx == len(items) - 1 and av in (AT_END, AT_END_STRING):
                continue
            raise AnalysisError('anchor inside a regex is not supported')
        else:
            raise AnalysisError('unsupported regex operator %s' % (op,))
    return s, cur


def anchors(pattern):
    items = list(sp.parse(pattern))
    a0 = bool(items) and items[0][0] is AT and items[0][1] in (AT_BEGINNING, AT_BEGINNING_STRING)
    a1 = bool(items) and items[-1][0] is AT and items[-1][1] in (AT_END, AT_END_STRING)
    return a0, a1


def regex_nfa(pattern, mode='full'):
    """mode: 'full' (language of the pattern itself), 'search' (re.search: free prefix unless ^, free suffix
    unless $), 'match' (re.match: anchored start, free suffix unless $)."""
    try:
        parsed = sp.parse(pattern)
    except Exception as e:
        raise AnalysisError('regex does not parse: %r: %s' % (pattern, e))
    nfa = NFA()
    a, b = _build(nfa, list(parsed), top=True)
    a0, a1 = anchors(pattern)
    allch = frozenset(UNIVERSE)
    if mode == 'search' and not a0:
        s = nfa.new()
        nfa.tr[s].append((allch, s))
        nfa.eps[s].add(a)
        a = s
    if mode in ('search', 'match') and not a1:
        t = nfa.new()
        nfa.eps[b].add(t)
        nfa.tr[t].append((allch, t))
        b = t
    nfa.start, nfa.accept = a, b
    return nfa


def _closure(nfa, states):
    st = list(states)
    seen = set(states)
    while st:
        x = st.pop()
        for y in nfa.eps[x]:
            if y not in seen:
                seen.add(y)
                st.append(y)
    return frozenset(seen)


def _partition(nfas):
    sets = set()
    for n in nfas:
        for trs in n.tr:
            for cs, _ in trs:
                sets.add(cs)
    sets = list(sets)
    sig = {}
    for ch in UNIVERSE:
        k = tuple(ch in s for s in sets)
        sig.setdefault(k, ch)
    return list(sig.values())


def _step(nfa, S, ch, cache):
    k = (S, ch)
    r = cache.get(k)
    if r is None:
        out = set()
        for x in S:
            for cs, t in nfa.tr[x]:
                if ch in cs:
                    out.add(t)
        r = _closure(nfa, out)
        cache[k] = r
    return r


def find(A, B, want, limit=400000):
    reps = _partition([A, B])
    ca, cb = {}, {}
    a0, b0 = _closure(A, {A.start}), _closure(B, {B.start})
    q = deque([(a0, b0, '')])
    seen = {(a0, b0)}
    while q:
        a, b, w = q.popleft()
        if want(A.accept in a, B.accept in b):
            return w
        for ch in reps:
            a2 = _step(A, a, ch, ca)
            if not a2:
                continue
            b2 = _step(B, b, ch, cb)
            if (a2, b2) not in seen:
                seen.add((a2, b2))
                if len(seen) > limit:
                    raise AnalysisError('automaton product too large')
                q.append((a2, b2, w + ch))
    return None


def included(A, B):
    """None if L(A) is a subset of L(B), else a shortest counter-example."""
    return find(A, B, lambda x, y: x and not y)


def intersects(A, B):
    """None if L(A) and L(B) are disjoint, else a shortest common word."""
    return find(A, B, lambda x, y: x and y)


def nonempty(A):
    B = NFA()
    s = B.new()
    B.start = B.accept = s
    B.tr[s].append((frozenset(UNIVERSE), s))
    return find(A, B, lambda x, y: x)


# -- pattern structure ---------------------------------------------------------------------------

def split_alternatives(pattern):
    """Top-level alternatives of `^(?:A|B|...)$` (anchors and one enclosing non-capturing group stripped)."""
    p = pattern
    if p.startswith('^'):
        p = p[1:]
    if p.endswith('$') and not p.endswith('\\$'):
        p = p[:-1]

    def scan(p):
        depth = 0
        i = 0
        cuts = []
        in_class = False
        close_of_first = None
        while i < len(p):
            c = p[i]
            if c == '\\':
                i += 2
                continue
            if in_class:
                if c == ']':
                    in_class = False
            elif c == '[':
                in_class = True
                if i + 1 < len(p) and p[i + 1] == ']':
                    i += 1
                elif p[i + 1:i + 3] == '^]':
                    i += 2
            elif c == '(':
                depth += 1
            elif c == ')':
                depth -= 1
                if depth == 0 and close_of_first is None:
                    close_of_first = i
            elif c == '|' and depth == 0:
                cuts.append(i)
            i += 1
        return cuts, close_of_first
    cuts, close_first = scan(p)
    if not cuts and p.startswith('(?:') and close_first == len(p) - 1:
        p = p[3:-1]
        cuts, _ = scan(p)
    parts = []
    last = 0
    for c in cuts:
        parts.append(p[last:c])
        last = c + 1
    parts.append(p[last:])
    return parts


def group_names(pattern):
    """Named groups of a pattern in order of their opening parenthesis."""
    parsed = sp.parse(pattern)
    gd = parsed.state.groupdict
    return [k for k, _ in sorted(gd.items(), key=lambda kv: kv[1])]


def group_min_width(pattern, name):
    """Minimum width of named group `name` in pattern."""
    parsed = sp.parse(pattern)
    gid = parsed.state.groupdict[name]

    def walk(items):
        for op, av in items:
            if op is SUBPATTERN:
                if av[0] == gid:
                    return av[3].getwidth()[0]
                r = walk(av[3])
                if r is not None:
                    return r
            elif op is BRANCH:
                for a in av[1]:
                    r = walk(a)
                    if r is not None:
                        return r
            elif op in (MAX_REPEAT, MIN_REPEAT):
                r = walk(av[2])
                if r is not None:
                    return r
        return None
    return walk(parsed)


def group_can_be_empty_on(pattern, name, lang_nfa):
    """Is there a word of lang_nfa matched by `pattern` such that group `name` may be empty?  Decided
    conservatively: min width of the group is 0 and the pattern with the group's body replaced by the empty
    string still intersects the language."""
    return group_min_width(pattern, name) == 0


# -- constant folding of pattern strings from the source --------------------------------------------

def fold_strings(func_node, module_consts=None):
    """Abstractly fold string-valued locals of a function body (straight-line assignments of literals and `+`).
    Returns (locals env, {self.attr: (pattern string, compile call node)})."""
    env = dict(module_consts or {})
    pats = {}

    def fold(e):
        if isinstance(e, ast.Constant) and isinstance(e.value, str):
            return e.value
        if isinstance(e, ast.Name):
            if e.id in env:
                return env[e.id]
            raise KeyError(e.id)
        if isinstance(e, ast.BinOp) and isinstance(e.op, ast.Add):
            return fold(e.left) + fold(e.right)
        if isinstance(e, ast.JoinedStr):
            out = ''
            for v in e.values:
                if isinstance(v, ast.Constant):
                    out += v.value
                elif isinstance(v, ast.FormattedValue) and v.format_spec is None and v.conversion == -1:
                    out += fold(v.value)
                else:
                    raise KeyError('fstring')
            return out
        if isinstance(e, ast.Call) and isinstance(e.func, ast.Attribute) and e.func.attr == 'join' and len(e.args) == 1:
            a = e.args[0]
            if isinstance(a, ast.Name) and isinstance(env.get(a.id), list):
                return fold(e.func.value).join(env[a.id])
            if isinstance(a, (ast.List, ast.Tuple)):
                return fold(e.func.value).join(fold(x) for x in a.elts)
        if isinstance(e, ast.Call) and isinstance(e.func, ast.Attribute) and e.func.attr == 'format' and not any(k.arg is None for k in e.keywords):
            # constant folding of 'lit {} lit'.format(<folded strings>)
            tmpl = fold(e.func.value)
            try:
                return tmpl.format(*[fold(a) for a in e.args], **{k.arg: fold(k.value) for k in e.keywords})
            except (IndexError, ValueError):
                raise KeyError('format')
        if isinstance(e, ast.BinOp) and isinstance(e.op, ast.Mod):
            tmpl = fold(e.left)
            r = e.right
            vals = tuple(fold(x) for x in r.elts) if isinstance(r, ast.Tuple) else (fold(r),)
            try:
                return tmpl % vals
            except (TypeError, ValueError):
                raise KeyError('percent')
        if isinstance(e, ast.Call) and isinstance(e.func, ast.Name) and e.func.id == 'str' and len(e.args) == 1:
            return fold(e.args[0])
        raise KeyError(norm(e))

    for st in func_node.body:
        if isinstance(st, ast.Assign) and len(st.targets) == 1:
            t = st.targets[0]
            v = st.value
            try:
                if isinstance(t, ast.Name) and isinstance(v, (ast.List, ast.Tuple)):
                    env[t.id] = [fold(x) for x in v.elts]
                elif isinstance(t, ast.Name):
                    env[t.id] = fold(v)
                elif isinstance(t, ast.Attribute) and isinstance(v, ast.Call) and norm(v.func) in ('re.compile',) and v.args:
                    if len(v.args) > 1 or v.keywords:
                        raise AnalysisError('re.compile with flags is not modelled: ' + norm(v))
                    pats[t.attr] = (fold(v.args[0]), v)
                elif isinstance(t, ast.Attribute) and isinstance(v, (ast.Constant, ast.BinOp, ast.Name)):
                    env['self.' + t.attr] = fold(v)
            except KeyError:
                if isinstance(t, ast.Name):
                    env.pop(t.id, None)
    return env, pats


# -- DFAs (for conditioning a language on a sequence of decisions) ---------------------------------------

class DFA:
    __slots__ = ('reps', 'trans', 'start', 'accept')

    def __init__(self, reps, trans, start, accept):
        self.reps = reps
        self.trans = trans      # list of dict: rep -> state (complete)
        self.start = start
        self.accept = accept


def common_partition(nfas):
    return _partition(nfas)


def to_dfa(nfa, reps, limit=60000):
    start = _closure(nfa, {nfa.start})
    index = {start: 0}
    order = [start]
    trans = []
    cache = {}
    i = 0
    while i < len(order):
        S = order[i]
        row = {}
        for ch in reps:
            T = _step(nfa, S, ch, cache)
            if T not in index:
                index[T] = len(order)
                order.append(T)
                if len(order) > limit:
                    raise AnalysisError('DFA too large')
            row[ch] = index[T]
        trans.append(row)
        i += 1
    accept = {k for S, k in index.items() if nfa.accept in S}
    return DFA(reps, trans, 0, accept)


def dfa_not(d):
    return DFA(d.reps, d.trans, d.start, set(range(len(d.trans))) - d.accept)


def dfa_and(a, b, limit=400000):
    index = {(a.start, b.start): 0}
    order = [(a.start, b.start)]
    trans = []
    i = 0
    while i < len(order):
        x, y = order[i]
        row = {}
        for ch in a.reps:
            t = (a.trans[x][ch], b.trans[y][ch])
            if t not in index:
                index[t] = len(order)
                order.append(t)
                if len(order) > limit:
                    raise AnalysisError('DFA product too large')
            row[ch] = index[t]
        trans.append(row)
        i += 1
    accept = {k for (x, y), k in index.items() if x in a.accept and y in b.accept}
    return DFA(a.reps, trans, 0, accept)


def dfa_witness(d):
    """Shortest accepted word or None."""
    q = deque([(d.start, '')])
    seen = {d.start}
    while q:
        s, w = q.popleft()
        if s in d.accept:
            return w
        for ch in d.reps:
            t = d.trans[s][ch]
            if t not in seen:
                seen.add(t)
                q.append((t, w + ch))
    return None


def contains_literal_nfa(lit):
    """Sigma* lit Sigma*"""
    return regex_nfa(sp_escape(lit), 'search')


def sp_escape(lit):
    import re as _re
    return _re.escape(lit)


def groups_possibly_unset(pattern):
    """names of the groups of `pattern` that can stay unset in a successful match: a named group inside one branch of an alternation, or
    under a repetition that may run zero times"""
    import re._parser as _rp
    import re._constants as _rc
    tree = _rp.parse(pattern)
    names = {idx: nm for nm, idx in tree.state.groupdict.items()}
    out = set()

    def walk(items, optional):
        for op, av in items:
            if op is _rc.SUBPATTERN:
                gid, _, _, sub = av
                if gid in names and optional:
                    out.add(names[gid])
                walk(sub, optional)
            elif op is _rc.BRANCH:
                for br in av[1]:
                    walk(br, True if len(av[1]) > 1 else optional)
            elif op in (_rc.MAX_REPEAT, _rc.MIN_REPEAT, getattr(_rc, 'POSSESSIVE_REPEAT', None)):
                walk(av[2], optional or av[0] == 0)
            elif op in (_rc.ASSERT, _rc.ASSERT_NOT):
                walk(av[1], True)
            elif op is getattr(_rc, 'ATOMIC_GROUP', None):
                walk(av, optional)
            elif op is _rc.GROUPREF_EXISTS:
                walk(av[1], True)
                if av[2]:
                    walk(av[2], True)
    walk(list(tree), False)
    return out


def group_alphabet(pattern, name):
    """the set of characters (of the analysis universe) that can occur inside a match of the named group of `pattern`; None if the group is absent"""
    import re._parser as _rp
    import re._constants as _rc
    tree = _rp.parse(pattern)
    gid = tree.state.groupdict.get(name)
    if gid is None:
        return None
    found = []

    def find(items):
        for op, av in items:
            if op is _rc.SUBPATTERN:
                if av[0] == gid:
                    found.append(av[3])
                find(av[3])
            elif op is _rc.BRANCH:
                for br in av[1]:
                    find(br)
            elif op in (_rc.MAX_REPEAT, _rc.MIN_REPEAT):
                find(av[2])
            elif op in (_rc.ASSERT, _rc.ASSERT_NOT):
                find(av[1])
    find(list(tree))
    if not found:
        return None
    out = set()

    def collect(items):
        for op, av in items:
            if op in (_rc.LITERAL, _rc.NOT_LITERAL, _rc.ANY, _rc.IN):
                out.update(chars_of(op, av))
            elif op is _rc.SUBPATTERN:
                collect(av[3])
            elif op is _rc.BRANCH:
                for br in av[1]:
                    collect(br)
            elif op in (_rc.MAX_REPEAT, _rc.MIN_REPEAT):
                collect(av[2])
            elif op is _rc.AT:
                pass
            else:
                raise AnalysisError('unsupported regex op %s inside group %s' % (op, name))
    collect(found[0])
    return out
