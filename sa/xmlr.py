"""E13 data readers: the shipped protocol XML corpus (read as data, never through the repository's code)."""
import os
import xml.etree.ElementTree as ET

from .core import AnalysisError

_cache = {}


class Corpus:
    def __init__(self, root):
        self.root = root
        self.files = []
        self.interfaces = {}        # name -> [desc]; desc = dict(version, file, messages{name: dict(kind, args[list of dict])}, enums{name: dict(bitfield, entries{name: value})})
        self.elem_attrs = {}        # tag -> {attr: count}
        self.tag_count = {}
        self.children = {}          # parent tag -> {child tag: count}
        self.bitfield_values = set()
        self.enum_values = set()
        self.versions = set()
        d = os.path.join(root, 'resources', 'protocols')
        if not os.path.isdir(d):
            raise AnalysisError('protocol directory %s not found' % d)
        for dp, dns, fns in os.walk(d):
            dns.sort()
            for fn in sorted(fns):
                if fn.endswith('.xml'):
                    self._read(os.path.join(dp, fn))
        if not self.files:
            raise AnalysisError('no protocol XML shipped under %s' % d)

    def _read(self, path):
        try:
            root = ET.parse(path).getroot()
        except ET.ParseError as e:
            raise AnalysisError('%s does not parse: %s' % (path, e))
        self.files.append(path)

        def walk(el, parent):
            self.tag_count[el.tag] = self.tag_count.get(el.tag, 0) + 1
            if parent is not None:
                self.children.setdefault(parent.tag, {})
                self.children[parent.tag][el.tag] = self.children[parent.tag].get(el.tag, 0) + 1
            d = self.elem_attrs.setdefault(el.tag, {})
            for k in el.attrib:
                d[k] = d.get(k, 0) + 1
            for c in el:
                walk(c, el)
        walk(root, None)
        self.root_tags = getattr(self, 'root_tags', set()) | {root.tag}
        for iface in root:
            if iface.tag != 'interface':
                continue
            desc = {'version': iface.attrib.get('version'), 'file': os.path.relpath(path, self.root), 'messages': {}, 'enums': {}}
            self.versions.add(iface.attrib.get('version'))
            for node in iface:
                if node.tag in ('request', 'event'):
                    args = []
                    for a in node:
                        if a.tag == 'arg':
                            args.append(dict(a.attrib))
                    desc['messages'][node.attrib.get('name')] = {'kind': node.tag, 'args': args}
                elif node.tag == 'enum':
                    bf = node.attrib.get('bitfield')
                    if bf is not None:
                        self.bitfield_values.add(bf)
                    entries = {}
                    for e in node:
                        if e.tag == 'entry':
                            entries[e.attrib.get('name')] = e.attrib.get('value')
                            self.enum_values.add(e.attrib.get('value'))
                    desc['enums'][node.attrib.get('name')] = {'bitfield': bf, 'entries': entries}
            self.interfaces.setdefault(iface.attrib.get('name'), []).append(desc)

    def winners(self, name):
        """Descriptions of interface `name` that can win the version contest (all with the maximal version)."""
        ds = self.interfaces.get(name, [])
        if not ds:
            return []
        mx = max(int(d['version']) for d in ds)
        return [d for d in ds if int(d['version']) == mx]


def corpus(root):
    if root not in _cache:
        _cache[root] = Corpus(root)
    return _cache[root]
