"""E14: obligations, violations, known findings, evidence and replay files."""
import json
import os
import time

from .core import AnalysisError

VERIF = os.path.dirname(os.path.dirname(os.path.abspath(__file__)))


class Ctx:
    def __init__(self, prop, repo, tier='quick', seed=0, only_rule=None, verbose=False, quiet=False):
        self.prop = prop
        self.repo = repo
        self.tier = tier
        self.seed = seed
        self.only_rule = only_rule
        self.verbose = verbose
        self.quiet = quiet
        self.obligations = []       # dicts: rule, site, stmt, verdict, ok
        self.violations = []        # dicts: rule, key, site, msg, witness
        self.notes = []
        self.assumptions = []
        self.decided = []
        self.undecided = []
        self.rule_counts = {}
        self.floor_failures = []
        self._seen_ok = set()
        self.extra = {}
        self.t0 = time.time()

    # -- recording ---------------------------------------------------------------------------
    def want(self, rule):
        return self.only_rule is None or rule == self.only_rule or rule.startswith(self.only_rule + ' ')

    def ok(self, rule, site, stmt='', verdict=''):
        k = (rule, site, stmt, verdict)
        if k in self._seen_ok:
            return
        self._seen_ok.add(k)
        self.obligations.append({'rule': rule, 'site': site, 'stmt': stmt, 'verdict': verdict, 'ok': True})
        self.rule_counts[rule] = self.rule_counts.get(rule, 0) + 1
        if self.verbose:
            print('  ok   %-8s %s | %s | %s' % (rule, site, stmt, verdict))

    def violation(self, rule, key, site, msg, witness=None):
        self.obligations.append({'rule': rule, 'site': site, 'stmt': key, 'verdict': msg, 'ok': False})
        self.rule_counts[rule] = self.rule_counts.get(rule, 0) + 1
        for v in self.violations:
            if v['rule'] == rule and v['key'] == key:
                return
        self.violations.append({'rule': rule, 'key': key, 'site': site, 'msg': msg, 'witness': witness})

    def check(self, cond, rule, key, site, msg_ok, msg_bad=None, stmt='', witness=None):
        if cond:
            self.ok(rule, site, stmt or key, msg_ok)
        else:
            self.violation(rule, key, site, msg_bad or ('NOT: ' + msg_ok), witness)
        return bool(cond)

    def floor(self, rule, found, minimum, what):
        """Instance floor: fewer instances than confirmed by hand => the rule lost its anchor."""
        if found < minimum:
            # deferred: a violation found elsewhere in the run takes precedence over a lost anchor
            self.floor_failures.append('%s: only %d instance(s) of %s found, at least %d confirmed on the pinned tree'
                                       % (rule, found, what, minimum))

    def note(self, text):
        self.notes.append(text)

    # -- finishing ---------------------------------------------------------------------------
    def split_known(self):
        kf_path = os.path.join(VERIF, 'known_findings.json')
        known = []
        if os.path.exists(kf_path):
            with open(kf_path) as f:
                known = json.load(f).get('findings', [])
        open_known = [k for k in known if k.get('property') == self.prop and k.get('status') == 'open']
        new = []
        matched = []
        for v in self.violations:
            hit = None
            for k in open_known:
                if k['rule'] == v['rule'] and k['key'] == v['key']:
                    hit = k
            if hit:
                matched.append((v, hit))
            else:
                new.append(v)
        return new, matched

    def finish(self, explanation, trusted_base=None):
        new, matched = self.split_known()
        ev_dir = os.path.join(VERIF, 'evidence')
        os.makedirs(os.path.join(ev_dir, 'replay'), exist_ok=True)
        lines = []
        for v, k in matched:
            lines.append('KNOWN-FINDING: property=%s rule=%s %s :: %s' % (self.prop, v['rule'], v['key'], k.get('what', v['msg'])))
        replay_paths = []
        for i, v in enumerate(new):
            rp = os.path.join(ev_dir, 'replay', '%s-%d.json' % (self.prop, i))
            with open(rp, 'w') as f:
                json.dump({'property': self.prop, 'rule': v['rule'], 'key': v['key'], 'site': v['site'],
                           'msg': v['msg'], 'witness': v['witness']}, f, indent=1, default=str)
            replay_paths.append(rp)
            lines.append('VIOLATION property=%s replay=%s' % (self.prop, rp))
            lines.append('  %s rule=%s instance=%s' % (v['site'], v['rule'], v['key']))
            lines.append('  %s' % v['msg'])
            if v['witness'] is not None:
                lines.append('  witness: %s' % (json.dumps(v['witness'], default=str)[:600]))
        n_obl = len(self.obligations)
        n_ok = sum(1 for o in self.obligations if o['ok'])
        distinct = len({(o['rule'], o['site'], o['stmt']) for o in self.obligations})
        samples = []
        seen_rules = set()
        for o in self.obligations:
            if o['rule'] not in seen_rules or not o['ok']:
                seen_rules.add(o['rule'])
                samples.append({'rule': o['rule'], 'site': o['site'], 'stmt': o['stmt'][:200], 'verdict': o['verdict'][:300]})
        cg = self.repo.callgraph().stats() if self.repo is not None else {}
        evidence = {
            'property_id': self.prop, 'tier': self.tier, 'seed': self.seed, 'level': 'other',
            'coverage': {
                'explanation': explanation,
                'decided_clauses': self.decided, 'undecided_clauses': self.undecided,
                'obligations': n_obl, 'discharged': n_ok,
                'evaluations': n_obl, 'distinct_nontrivial': distinct,
                'rule': 'one evaluation = one rule instance (site x obligation) located in the current source and '
                        'actually evaluated; distinct = distinct (rule, site, statement) triples',
                'instances_per_rule': self.rule_counts,
                'samples': samples[:60],
                'checker_cmd': './check %s --tier %s' % (self.prop, self.tier),
                'trusted_base': trusted_base or ['CPython ast / re._parser', 'engine /verif/sa'],
                'files': self.repo.digest_table() if self.repo is not None else {},
                'callgraph': cg,
                'known_findings': [{'rule': v['rule'], 'key': v['key']} for v, _ in matched],
                'notes': self.notes,
                'exhaustive': True,
            },
            'assumptions': self.assumptions,
            'wall_s': round(time.time() - self.t0, 3),
            'violations': len(new),
        }
        evidence['coverage'].update(self.extra)
        with open(os.path.join(ev_dir, self.prop + '.json'), 'w') as f:
            json.dump(evidence, f, indent=1, default=str)
        if not self.quiet:
            print('%s [%s]: %d obligations, %d discharged, %d known finding(s), %d new violation(s), %.2fs'
                  % (self.prop, self.tier, n_obl, n_ok, len(matched), len(new), time.time() - self.t0))
            for r in sorted(self.rule_counts):
                print('  rule %-28s instances=%d' % (r, self.rule_counts[r]))
            for l in lines:
                print(l)
        return 1 if new else 0
