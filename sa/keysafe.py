"""Key safety (C15.1, also C04/C18): every dict subscript load / del is reached only where the key is present."""
import ast
import re

from .core import norm
from .sim import simulate
from .flow import handler_stack, first_catcher


def analyse(repo, func, dict_texts, inline=()):
    """-> list of (node, kind, dict text, key text, safe?, reason, path description) for subscript uses of the named
    dict attributes (e.g. 'self.connections') in `func` (and inlined callees)."""
    paths = simulate(repo, func, inline=inline, asserts='ignore', unroll=1)
    results = {}
    for p in paths:
        present = set()
        absent = set()
        for e in p.events:
            if e.kind == 'decide':
                t = e.text
                v = e.value
                m = re.match(r'^(.+) in (.+)$', t)
                if m and m.group(2) in dict_texts:
                    (present if v else absent).add((m.group(2), m.group(1)))
                    (absent if v else present).discard((m.group(2), m.group(1)))
                    continue
                m = re.match(r'^(.+)\.get\((.+?)(?:, None)?\)( is None)?$', t)
                if m and m.group(1) in dict_texts:
                    truthy = (not v) if m.group(3) else v
                    if truthy:
                        present.add((m.group(1), m.group(2)))
                    continue
            elif e.kind == 'store' and e.target:
                m = re.match(r'^(.+)\[(.+)\]$', e.target)
                if m and m.group(1) in dict_texts:
                    present.add((m.group(1), m.group(2)))
                    absent.discard((m.group(1), m.group(2)))
            elif e.kind in ('del', 'load-sub'):
                if e.kind == 'del':
                    m = re.match(r'^(.+)\[(.+)\]$', e.target or '')
                    if not m:
                        continue
                    d, k = m.group(1), m.group(2)
                else:
                    d, k = norm(e.recv), norm(e.value)
                if d not in dict_texts:
                    continue
                key = (id(e.node), e.kind)
                safe = (d, k) in present
                reason = 'key shown present on the path' if safe else 'key not shown present'
                if not safe:
                    h = first_catcher(handler_stack(e.func, e.node), 'KeyError')
                    if h is not None:
                        safe, reason = True, 'inside try/except KeyError'
                r = results.setdefault(key, {'node': e.node, 'func': e.func, 'kind': e.kind, 'dict': d, 'key': k, 'safe': True, 'reason': reason, 'path': None})
                if not safe:
                    r['safe'] = False
                    r['reason'] = reason
                    r['path'] = p.describe()[:200]
                if e.kind == 'del':
                    present.discard((d, k))
            elif e.kind == 'call' and e.ftext:
                m = re.match(r'^(.+)\.pop$', e.ftext)
                if m and m.group(1) in dict_texts and e.args:
                    k = norm(e.args[0])
                    if len(e.args) < 2 and (m.group(1), k) not in present:
                        key = (id(e.node), 'pop')
                        r = results.setdefault(key, {'node': e.node, 'func': e.func, 'kind': 'pop', 'dict': m.group(1), 'key': k, 'safe': True, 'reason': '', 'path': None})
                        r['safe'] = False
                        r['reason'] = 'pop without default and key not shown present'
                        r['path'] = p.describe()[:200]
                    present.discard((m.group(1), k))
    return list(results.values())


def check(ctx, rule, func, dict_texts, inline=(), floor=0):
    res = analyse(ctx.repo, func, dict_texts, inline)
    for r in res:
        key = 'key-safety:%s:%s:%s[%s]' % (r['func'].qual, r['kind'], r['dict'], r['key'])
        ctx.check(r['safe'], rule, key, r['func'].loc(r['node']), '%s %s[%s]: %s' % (r['kind'], r['dict'], r['key'], r['reason']),
                  '%s of %s[%s] can be reached with the key absent (KeyError): %s; path %s' % (r['kind'], r['dict'], r['key'], r['reason'], r['path']))
    if floor:
        ctx.floor(rule, len(res), floor, 'dict subscript uses in ' + func.qual)
    return res
