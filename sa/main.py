"""CLI: ./check <ID> --tier quick|thorough   (exit 0 held / 1 VIOLATION / 2 ANALYSIS-ERROR)"""
import argparse
import importlib
import json
import os
import sys
import traceback

HERE = os.path.dirname(os.path.abspath(__file__))
sys.path.insert(0, os.path.dirname(HERE))

from sa.core import Repo, AnalysisError     # noqa: E402
from sa.report import Ctx                   # noqa: E402


def run_property(prop, repo_root, tier, seed=0, only_rule=None, verbose=False, overlay=None, quiet=False,
                 write=True, extra=None):
    """Returns (exit code, ctx)."""
    repo = Repo(repo_root, overlay=overlay)
    ctx = Ctx(prop, repo, tier=tier, seed=seed, only_rule=only_rule, verbose=verbose, quiet=quiet)
    mod = importlib.import_module('sa.rules.' + prop.lower())
    try:
        explanation = mod.run(ctx)
    except AnalysisError as ex_:
        # a rule lost its footing part-way: what was established before stands - a violation found is a violation (reported, with a note
        # that the remaining rules were not evaluated); without one the run is undecided as a whole
        if not ctx.split_known()[0]:
            raise
        explanation = 'INCOMPLETE: the analysis stopped at `%s`; the violations listed were established before that point' % str(ex_)[:300]
        ctx.note(explanation)
        ctx.floor_failures = []
    if getattr(repo, 'renames', None):
        ctx.assumptions = list(getattr(ctx, 'assumptions', None) or []) + \
            ['identifiers mapped back to their pinned names before the analysis (sa/rename.py): ' + '; '.join(repo.renames[:40])]
        if not quiet:
            print('note: %d identifier(s) mapped back to pinned names: %s' % (len(repo.renames), '; '.join(repo.renames[:6])))
    if ctx.floor_failures and not ctx.split_known()[0]:
        raise AnalysisError('; '.join(ctx.floor_failures))
    if not write:
        return (1 if ctx.violations else 0), ctx
    if extra:
        ctx.extra.update(extra)
    code = ctx.finish(explanation, trusted_base=getattr(mod, 'TRUSTED', None))
    return code, ctx


def main(argv):
    ap = argparse.ArgumentParser()
    ap.add_argument('prop')
    ap.add_argument('--tier', default='quick', choices=['quick', 'thorough'])
    ap.add_argument('--replay')
    ap.add_argument('--rule')
    ap.add_argument('--repo', default=os.environ.get('REPO', '/repo'))
    ap.add_argument('--verbose', action='store_true')
    ap.add_argument('--dry', action='store_true', help='do not write evidence / replay files (used when analysing scratch copies)')
    a = ap.parse_args(argv)
    tier = os.environ.get('VERIF_TIER') or a.tier
    if tier not in ('quick', 'thorough'):
        tier = a.tier
    try:
        seed = int(os.environ.get('VERIF_SEED', '0'))
    except ValueError:
        seed = 0
    prop = a.prop.upper()
    only = a.rule
    verbose = a.verbose
    if a.replay:
        with open(a.replay) as f:
            rp = json.load(f)
        only = rp['rule']
        verbose = True
        print('replaying %s rule %s instance %s' % (rp['property'], rp['rule'], rp['key']))
    # a watchdog: an analysis that does not end (path explosion on a tree the rules were not written for) is "undecided", never a hang
    try:
        import signal
        limit = int(os.environ.get('VERIF_ANALYSIS_TIMEOUT', '1800' if tier == 'thorough' else '600'))

        def _too_long(signum, frame):
            raise AnalysisError('analysis did not finish within %d s (path explosion?)' % limit)
        signal.signal(signal.SIGALRM, _too_long)
        signal.alarm(limit)
    except (ValueError, AttributeError, OSError):
        pass
    try:
        if a.dry:
            code, ctx = run_property(prop, a.repo, tier, seed, only, verbose, write=False, quiet=True)
            new, matched = ctx.split_known()
            for v in new:
                print('VIOLATION property=%s replay=- rule=%s instance=%s\n  %s\n  %s' % (prop, v['rule'], v['key'], v['site'], v['msg'][:300]))
            print('%s [dry]: %d new violation(s), %d known' % (prop, len(new), len(matched)))
            return 1 if new else 0
        extra = None
        st = None
        if tier == 'thorough' and not a.replay:
            from sa import selftest
            st = selftest.run_for(prop, a.repo)
            if st is not None:
                extra = {'selftest': {'summary': st['summary'], 'counts': st['counts'],
                                      'results': [{'name': n, 'status': s_, 'detail': d[:160]} for n, s_, d in st['results']]}}
        code, ctx = run_property(prop, a.repo, tier, seed, only, verbose, extra=extra)
        if st is not None:
            print(st['summary'])
            if st['failed'] and code == 0:
                for l in st['failed']:
                    print('ANALYSIS-ERROR property=%s self-test: %s' % (prop, l))
                return 2
        return code
    except AnalysisError as e:
        print('ANALYSIS-ERROR property=%s %s' % (prop, e))
        return 2
    except Exception:
        traceback.print_exc()
        print('ANALYSIS-ERROR property=%s checker raised' % prop)
        return 2


if __name__ == '__main__':
    try:
        rc = main(sys.argv[1:])
        sys.stdout.flush()
    except BrokenPipeError:
        # the reader closed the pipe (e.g. `| head`): not an analysis problem
        try:
            sys.stdout.close()
        except Exception:
            pass
        os._exit(0)
    sys.exit(rc)
