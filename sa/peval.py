"""Evaluation of PURE symbolic terms on representative constants.

The path interpreter hands the rules fully substituted terms such as `enum_path.rpartition('.')[0].rpartition('.')[2]`.  Two
spellings of the same string / integer computation cannot be compared as text; they are compared by folding the term for
a small, complete set of input *shapes* chosen by the rule (e.g. an enum path with no, one and two dots).  Only total, side-effect
free operations on str / int / bool / tuple / list constants are folded; anything else raises Unfoldable and the rule reports
"undecided", never a verdict.  Nothing of the repository is executed: the evaluator interprets the term itself."""
import ast
import operator

from .core import norm


class Unfoldable(Exception):
    pass


_STR_METHODS = {'split', 'rsplit', 'partition', 'rpartition', 'strip', 'lstrip', 'rstrip', 'startswith', 'endswith', 'lower', 'upper',
                'replace', 'isdigit', 'isalpha', 'isalnum', 'islower', 'isupper', 'isascii', 'find', 'rfind', 'index', 'count',
                'capitalize', 'title', 'removeprefix', 'removesuffix', 'zfill', 'format'}
_BIN = {ast.Add: operator.add, ast.Sub: operator.sub, ast.Mult: operator.mul, ast.FloorDiv: operator.floordiv, ast.Mod: operator.mod,
        ast.BitAnd: operator.and_, ast.BitOr: operator.or_, ast.LShift: operator.lshift, ast.RShift: operator.rshift}
_CMP = {ast.Lt: operator.lt, ast.LtE: operator.le, ast.Gt: operator.gt, ast.GtE: operator.ge, ast.Eq: operator.eq, ast.NotEq: operator.ne,
        ast.In: lambda a, b: a in b, ast.NotIn: lambda a, b: a not in b, ast.Is: operator.is_, ast.IsNot: operator.is_not}
_FUNCS = {'len': len, 'ord': ord, 'chr': chr, 'int': int, 'float': float, 'str': str, 'range': lambda *a: list(range(*a)) if len(range(*a)) <= 100000 else (_ for _ in ()).throw(ValueError('range too long')), 'hex': hex, 'format': format, 'bool': bool, 'abs': abs, 'min': min, 'max': max, 'tuple': tuple,
          'list': list, 'frozenset': lambda x=(): tuple(dict.fromkeys(x)), 'set': lambda x=(): list(dict.fromkeys(x)), 'reversed': lambda x: list(reversed(x)), 'sorted': sorted, 'divmod': divmod, 'sum': sum, 'repr': repr}
_OK_TYPES = (str, int, float, bool, tuple, list, dict, type(None))


def module_resolver(repo, module):
    """resolver for fold(): module-level names bound once to a literal / display (lookup tables, hoisted constants)"""
    def res(name):
        r = repo.lookup(module, name)
        if r and r[0] == 'var' and r[1] is not None:
            return r[1]
        return None

    def nonnull(text):
        """does the dotted name denote a class, a function or a class-level member bound to something other than None (an enum member)?"""
        try:
            e = ast.parse(text, mode='eval').body
        except SyntaxError:
            return False
        r = repo.resolve_expr_static(module, e)
        if r is None:
            return False
        if r[0] in ('class', 'func'):
            return True
        if r[0] == 'classattr':
            v = r[1].class_attrs.get(r[2])
            return v is not None and not (isinstance(v, ast.Constant) and v.value is None)
        return False
    res.nonnull = nonnull
    return res


def fold(e, env=None, texts=None, resolver=None):
    """Value of the pure term e.  env: {name: constant}; texts: {normalised sub-term text: constant} (for opaque sub-terms the rule
    wants to treat as inputs); resolver(name) -> AST of a module-level constant, or None.  Dotted names that are not inputs
    (Mode.RUN, wl.Arg.Int) fold to the opaque symbol ('sym', text)."""
    env = env or {}
    texts = texts or {}
    resolving = set()

    def is_sym(v):
        return isinstance(v, tuple) and len(v) == 2 and v[0] == 'sym'

    def truth(v, x):
        if is_sym(v):
            raise Unfoldable('truth of ' + norm(x))
        return bool(v)

    def ev(x):
        t = norm(x) if texts else None
        if texts and t in texts:
            return texts[t]
        if isinstance(x, ast.Constant):
            if isinstance(x.value, _OK_TYPES):
                return x.value
            raise Unfoldable(norm(x))
        if isinstance(x, ast.Name):
            if x.id in env:
                return env[x.id]
            if resolver is not None and x.id not in resolving:
                node = resolver(x.id)
                if node is not None:
                    resolving.add(x.id)
                    try:
                        return ev(node)
                    finally:
                        resolving.discard(x.id)
            raise Unfoldable(x.id)
        if isinstance(x, ast.Attribute):
            b = x
            while isinstance(b, ast.Attribute):
                b = b.value
            if isinstance(b, ast.Name) and b.id not in env:
                return ('sym', norm(x))
            raise Unfoldable(norm(x))
        if isinstance(x, ast.Dict):
            if any(k is None for k in x.keys):
                raise Unfoldable(norm(x))
            try:
                return {ev(k): ev(v) for k, v in zip(x.keys, x.values)}
            except TypeError as ex:
                raise Unfoldable('%s: %s' % (norm(x), ex))
        if isinstance(x, (ast.Tuple, ast.List)):
            vals = []
            for v in x.elts:
                if isinstance(v, ast.Starred):
                    inner = ev(v.value)
                    if not isinstance(inner, (list, tuple)) or is_sym(inner):
                        raise Unfoldable(norm(x))
                    vals.extend(inner)
                else:
                    vals.append(ev(v))
            return tuple(vals) if isinstance(x, ast.Tuple) else vals
        if isinstance(x, ast.BinOp) and type(x.op) in _BIN:
            a, b = ev(x.left), ev(x.right)
            try:
                return _BIN[type(x.op)](a, b)
            except Exception as ex:
                raise Unfoldable('%s: %s' % (norm(x), ex))
        if isinstance(x, ast.UnaryOp):
            v = ev(x.operand)
            if isinstance(x.op, ast.Not):
                return not truth(v, x.operand)
            if isinstance(x.op, ast.USub):
                return -v
            raise Unfoldable(norm(x))
        if isinstance(x, ast.BoolOp):
            last = None
            for v in x.values:
                last = ev(v)
                if isinstance(x.op, ast.And) and not truth(last, v):
                    return last
                if isinstance(x.op, ast.Or) and truth(last, v):
                    return last
            return last
        if isinstance(x, ast.Compare):
            left = ev(x.left)
            for op, r in zip(x.ops, x.comparators):
                right = ev(r)
                if isinstance(op, (ast.Is, ast.IsNot, ast.Eq, ast.NotEq)) and (left is None or right is None) and (is_sym(left) or is_sym(right)):
                    # a class-level member (an enum value) / class / function is not None; any other opaque name may be
                    sv = left if is_sym(left) else right
                    if getattr(resolver, 'nonnull', None) is not None and resolver.nonnull(sv[1]):
                        if isinstance(op, (ast.Is, ast.Eq)):
                            return False
                        left = right
                        continue
                    raise Unfoldable('comparison of an opaque value with None: ' + norm(x))
                if (is_sym(left) or is_sym(right)) and not (isinstance(op, (ast.Eq, ast.NotEq)) and is_sym(left) and is_sym(right)) \
                        and not (isinstance(op, (ast.In, ast.NotIn)) and isinstance(right, (list, tuple, dict)) and not is_sym(right)):
                    raise Unfoldable('comparison with an opaque value: ' + norm(x))
                try:
                    if not _CMP[type(op)](left, right):
                        return False
                except Exception as ex:
                    raise Unfoldable('%s: %s' % (norm(x), ex))
                left = right
            return True
        if isinstance(x, ast.IfExp):
            return ev(x.body) if truth(ev(x.test), x.test) else ev(x.orelse)
        if isinstance(x, ast.Subscript):
            base = ev(x.value)
            try:
                if isinstance(x.slice, ast.Slice):
                    lo = ev(x.slice.lower) if x.slice.lower is not None else None
                    hi = ev(x.slice.upper) if x.slice.upper is not None else None
                    st = ev(x.slice.step) if x.slice.step is not None else None
                    return base[lo:hi:st]
                return base[ev(x.slice)]
            except Unfoldable:
                raise
            except Exception as ex:
                raise Unfoldable('%s: %s' % (norm(x), ex))
        if isinstance(x, ast.Call) and not any(k.arg is None for k in x.keywords):
            args = [ev(a) for a in x.args if not isinstance(a, ast.Starred)]
            if len(args) != len(x.args):
                raise Unfoldable(norm(x))
            kw = {k.arg: ev(k.value) for k in x.keywords}
            try:
                if isinstance(x.func, ast.Name) and x.func.id in _FUNCS and x.func.id not in env:
                    return _FUNCS[x.func.id](*args, **kw)
                if isinstance(x.func, ast.Attribute):
                    recv = ev(x.func.value)
                    if isinstance(recv, str) and x.func.attr in _STR_METHODS | {'join'}:
                        return getattr(recv, x.func.attr)(*args, **kw)
                    if isinstance(recv, (list, tuple)) and x.func.attr in ('index', 'count'):
                        return getattr(recv, x.func.attr)(*args)
                    if isinstance(recv, dict) and x.func.attr in ('get', 'keys', 'values', 'items'):
                        r_ = getattr(recv, x.func.attr)(*args)
                        return r_ if x.func.attr == 'get' else list(r_)
            except Unfoldable:
                raise
            except Exception as ex:
                raise Unfoldable('%s: %s' % (norm(x), ex))
        if isinstance(x, ast.JoinedStr):
            out = ''
            for v in x.values:
                if isinstance(v, ast.Constant):
                    out += v.value
                elif isinstance(v, ast.FormattedValue) and v.conversion in (-1, 115, 114):
                    val = ev(v.value)
                    if is_sym(val):
                        raise Unfoldable(norm(x))
                    spec = ''
                    if v.format_spec is not None:
                        spec = ev(v.format_spec)
                    val = repr(val) if v.conversion == 114 else (str(val) if v.conversion == 115 else val)
                    try:
                        out += format(val, spec)
                    except (TypeError, ValueError) as ex:
                        raise Unfoldable('%s: %s' % (norm(x), ex))
                else:
                    raise Unfoldable(norm(x))
            return out
        raise Unfoldable(norm(x))
    return ev(e)


def fold_text(text, env=None, texts=None, resolver=None):
    try:
        e = ast.parse(text, mode='eval').body
    except SyntaxError:
        raise Unfoldable(text)
    return fold(e, env, texts, resolver)
