"""Rename canonicalisation (load time).

The rules are written against the names of the pinned tree (functions, methods, classes, instance attributes, module-level names, module
files).  Renaming or moving any of them is the commonest behaviour-preserving change there is, and must not cost an anchor.  Before the
symbol tables are built, the loaded trees are compared with the frozen name tables of the pinned tree (sa/canon_params.json,
tools/gen_canon.py):

  * per scope (the package, a module, a class) the names that disappeared and the names that appeared are paired - module files by the
    names they define, classes by their method / attribute sets, functions and methods by the similarity of their bodies' token bags (what
    stays when only names change; names bound inside the function are not part of the bag, and renames already found are translated back
    before comparing), module-level names by their value text, instance attributes by their usage profile;
  * a pairing is accepted only when it is the unique best one above a threshold (lower when exactly one name went and one came); everything
    else stays as it is: a function that merely appeared is a freshly extracted helper - the interpreter inlines it; one that merely
    disappeared makes the anchor fail as before (exit 2, never an alarm);
  * functions and classes that moved to another module (also into or out of a class: function <-> static / instance method) are registered
    under their pinned qualified name as well;
  * accepted pairs are applied to the TREES: definitions, references by name in the defining module, `from m import x` and `from m import *`
    in other modules, class-level assignments, attribute accesses `.x` everywhere (when the new name is also a pinned attribute / method name
    elsewhere the mapping is applied only inside the class, through the method's own first parameter), and the string argument of
    hasattr / getattr.

Nothing is added or removed, only identifiers are mapped back, so every later stage - syntactic scans, call graph, path interpreter,
writer enumeration - works on pinned names.  The mapping that was applied is reported (Repo.renames) and printed with the evidence."""
import ast
import json
import os

from .core import norm

_CANON = None


def canon():
    global _CANON
    if _CANON is None:
        try:
            with open(os.path.join(os.path.dirname(os.path.abspath(__file__)), 'canon_params.json')) as fh:
                _CANON = json.load(fh)
        except (OSError, ValueError):
            _CANON = {}
    return _CANON


def _bag(fp, trans=None):
    out = {}
    for t in fp:
        k, _, n = t.rpartition('*')
        if trans:
            k = trans.get(k, k)
        out[k] = max(out.get(k, 0), int(n))
    return out


def _sim(a, b):
    """weighted Jaccard of two token bags"""
    keys = set(a) | set(b)
    if not keys:
        return 0.0
    inter = sum(min(a.get(k, 0), b.get(k, 0)) for k in keys)
    union = sum(max(a.get(k, 0), b.get(k, 0)) for k in keys)
    return inter / union if union else 0.0


def _pair(missing, new, score, threshold, margin=0.08, lone=None):
    """greedy unique-best pairing: [(old, new, score)].  `lone`: threshold used when exactly one name went and one came."""
    if lone is not None and len(missing) == 1 and len(new) == 1:
        threshold = lone
    cands = []
    for o in missing:
        for n in new:
            s = score(o, n)
            if s >= threshold:
                cands.append((s, o, n))
    cands.sort(key=lambda x: (-x[0], str(x[1]), str(x[2])))
    out, used_o, used_n = [], set(), set()
    for s, o, n in cands:
        if o in used_o or n in used_n:
            continue
        rivals = [s2 for s2, o2, n2 in cands if (o2 == o) != (n2 == n) and o2 not in used_o and n2 not in used_n]
        if rivals and max(rivals) > s - margin:
            continue
        out.append((o, n, s))
        used_o.add(o)
        used_n.add(n)
    return out


def _defs(tree):
    """(functions {name: node}, classes {name: node}) bound at module level (also inside top-level if / try)"""
    fs, cs = {}, {}

    def walk(body):
        for st in body:
            if isinstance(st, (ast.FunctionDef, ast.AsyncFunctionDef)):
                fs[st.name] = st
            elif isinstance(st, ast.ClassDef):
                cs[st.name] = st
            elif isinstance(st, ast.If):
                walk(st.body)
                walk(st.orelse)
            elif isinstance(st, ast.Try):
                walk(st.body)
    walk(tree.body)
    return fs, cs


def _class_members(cnode):
    meths = {st.name: st for st in cnode.body if isinstance(st, (ast.FunctionDef, ast.AsyncFunctionDef))}
    attrs = set()
    for st in cnode.body:
        if isinstance(st, ast.Assign):
            for t in st.targets:
                if isinstance(t, ast.Name):
                    attrs.add(t.id)
        elif isinstance(st, ast.AnnAssign) and isinstance(st.target, ast.Name):
            attrs.add(st.target.id)
    for m in meths.values():
        ps = [a.arg for a in m.args.posonlyargs + m.args.args]
        if not ps or any(isinstance(d, ast.Name) and d.id == 'staticmethod' for d in m.decorator_list):
            continue
        for n in ast.walk(m):
            if isinstance(n, ast.Attribute) and isinstance(n.ctx, (ast.Store, ast.Del)) and isinstance(n.value, ast.Name) and n.value.id == ps[0]:
                attrs.add(n.attr)
    nested = {st.name: st for st in cnode.body if isinstance(st, ast.ClassDef)}
    return meths, attrs, nested


def canonicalise(modules, fingerprint_of):
    """modules: {name: Module} with .tree.  Rewrites identifiers in place; returns the list of applied renames (text)."""
    canonicalise.moved = {}
    canonicalise.moved_classes = {}
    C = canon()
    if not C.get('fingerprints') or not C.get('methods'):
        return []
    canon_funcs = C['functions']
    canon_fp_raw = C['fingerprints']
    canon_methods = C['methods']
    canon_attrs = C['class_attrs']
    canon_vars = C['module_vars']
    canon_var_values = C.get('module_var_values', {})
    all_pinned_attr_names = set()
    for q, ms in canon_methods.items():
        all_pinned_attr_names |= set(ms)
    for q, at in canon_attrs.items():
        all_pinned_attr_names |= set(at)
    pinned_modules = sorted(canon_vars, key=len, reverse=True)

    def module_of(q):
        for mn in pinned_modules:
            if q.startswith(mn + '.'):
                return mn
        return None
    pinned_module_level = {}        # module -> {function names}
    for q in canon_funcs:
        mn = module_of(q)
        if mn is not None and '.' not in q[len(mn) + 1:]:
            pinned_module_level.setdefault(mn, set()).add(q[len(mn) + 1:])
    pinned_classes = {}             # module -> {class path: qual}
    for q in canon_methods:
        mn = module_of(q)
        if mn is not None:
            pinned_classes.setdefault(mn, {})[q[len(mn) + 1:]] = q
    applied = []

    # ---- phase 0: module files ---------------------------------------------------------------------------------------------
    pinned_tops = {}
    for mname in canon_vars:
        pinned_tops[mname] = set(pinned_module_level.get(mname, set())) | {k for k in pinned_classes.get(mname, {}) if '.' not in k}
    missing_mod = sorted(k for k in canon_vars if k not in modules and pinned_tops.get(k))
    new_mod = sorted(k for k in modules if k not in canon_vars)
    cur_tops = {}
    for k in new_mod:
        fs_, cs_ = _defs(modules[k].tree)
        cur_tops[k] = set(fs_) | set(cs_)

    def modscore(o, n):
        a, b = pinned_tops[o], cur_tops[n]
        return len(a & b) / len(a | b) if (a | b) else 0.0
    module_renames = {}
    for o, n, s_ in _pair(missing_mod, new_mod, modscore, 0.5, lone=0.15):
        module_renames[n] = o
        applied.append('module %s <- %s (%.2f)' % (o, n, s_))
    if module_renames:
        for n, o in module_renames.items():
            m = modules.pop(n)
            m.name = o
            modules[o] = m
        for m in modules.values():
            for node in ast.walk(m.tree):
                if isinstance(node, ast.ImportFrom) and node.module:
                    for n, o in module_renames.items():
                        if node.module == n and not node.level:
                            node.module = o
                        elif node.level and node.module == n.rpartition('.')[2]:
                            node.module = o.rpartition('.')[2]          # from .newmod import x
                        else:
                            for a in node.names:
                                full = (node.module + '.' + a.name) if not node.level else None
                                if (full == n or (node.level and a.name == n.rpartition('.')[2])) and o.rpartition('.')[0] == n.rpartition('.')[0]:
                                    a.name = o.rpartition('.')[2]
                elif isinstance(node, ast.ImportFrom) and node.level and not node.module:
                    for n, o in module_renames.items():
                        for a in node.names:
                            if a.name == n.rpartition('.')[2] and o.rpartition('.')[0] == n.rpartition('.')[0]:
                                a.name = o.rpartition('.')[2]
                elif isinstance(node, ast.Import):
                    for a in node.names:
                        if a.name in module_renames:
                            a.name = module_renames[a.name]
        last = {n.rpartition('.')[2]: o.rpartition('.')[2] for n, o in module_renames.items() if n.rpartition('.')[2] != o.rpartition('.')[2]}
        if last:
            for m in modules.values():
                for node in ast.walk(m.tree):
                    if isinstance(node, ast.Name) and node.id in last:
                        node.id = last[node.id]
                    elif isinstance(node, ast.Attribute) and node.attr in last and node.attr not in all_pinned_attr_names:
                        node.attr = last[node.attr]

    attr_renames = {}        # new attr name -> old attr name (methods and fields), applied globally
    name_renames = {}        # module -> {new: old} for module-level names
    trans = {}               # token translation for fingerprints: '.new' -> '.old', 'new' -> 'old'

    def note_attr(n, o):
        attr_renames[n] = o
        trans['.' + n] = '.' + o

    def note_name(mname, n, o):
        name_renames.setdefault(mname, {})[n] = o
        trans[n] = o
        trans['.' + n] = '.' + o        # module-qualified references

    def canon_fp(q):
        return _bag(canon_fp_raw.get(q, []))

    # ---- phase 1: classes, per module ---------------------------------------------------------------------------------------
    class_nodes = {}         # (module, class path under its PINNED name) -> node
    unmatched_missing_classes = []
    unmatched_new_classes = []
    for mname, m in sorted(modules.items()):
        fs, cs = _defs(m.tree)
        if mname not in canon_vars:
            unmatched_new_classes.extend((mname, n_, cs[n_]) for n_ in sorted(cs))
            continue
        pcs = {k: v for k, v in pinned_classes.get(mname, {}).items() if '.' not in k}
        missing_c = sorted(set(pcs) - set(cs))
        new_c = sorted(set(cs) - set(pcs))

        def cscore(o, n, cs=cs, pcs=pcs):
            meths, attrs, _ = _class_members(cs[n])
            a = set(canon_methods[pcs[o]]) | set(canon_attrs.get(pcs[o], []))
            b = set(meths) | attrs
            return len(a & b) / len(a | b) if (a | b) else 0.0
        done = set()
        for o, n, s in _pair(missing_c, new_c, cscore, 0.5, lone=0.2):
            note_name(mname, n, o)
            cs[o] = cs.pop(n)
            cs[o].name = o
            done.add(o)
            applied.append('class %s.%s <- %s (%.2f)' % (mname, o, n, s))
        for o in missing_c:
            if o not in done:
                unmatched_missing_classes.append((mname, o))
        for n_ in new_c:
            if n_ in cs:
                unmatched_new_classes.append((mname, n_, cs[n_]))
        for cname, cnode in cs.items():
            class_nodes[(mname, cname)] = cnode
    # classes that moved to another module (and may have been renamed on the way)
    if unmatched_missing_classes and unmatched_new_classes:
        newc = {(mn, n_): node for mn, n_, node in unmatched_new_classes}

        def mcscore(o, n):
            q = pinned_classes[o[0]][o[1]]
            meths, attrs, _ = _class_members(newc[n])
            a = set(canon_methods[q]) | set(canon_attrs.get(q, []))
            b = set(meths) | attrs
            return (len(a & b) / len(a | b) if (a | b) else 0.0) + (0.1 if o[1] == n[1] else 0.0)
        for o, n, s_ in _pair(sorted(unmatched_missing_classes), sorted(newc), mcscore, 0.4, lone=0.2):
            node = newc[n]
            if n[1] != o[1]:
                note_name(n[0], n[1], o[1])
                node.name = o[1]
            canonicalise.moved_classes['%s.%s' % o] = (n[0], o[1])
            class_nodes[('%s' % o[0], o[1])] = node       # analysed under its pinned module for the member tables
            applied.append('class %s.%s now lives in %s%s (%.2f)' % (o[0], o[1], n[0], (' as ' + n[1]) if n[1] != o[1] else '', s_))

    # ---- phases 2-4, twice: members of classes, module-level names, functions (with what is known translated back) --------
    leftovers = {}
    for round_ in (0, 1):
        # phase 2: methods and attributes
        for (mname, cname), cnode in sorted(class_nodes.items()):
            def do_class(prefix, cnode, mname=mname):
                cq = '%s.%s' % (mname, prefix)
                if cq not in canon_methods:
                    return
                meths, attrs, nested = _class_members(cnode)
                pm = set(canon_methods[cq])
                missing_m = sorted(pm - set(meths))
                new_m = sorted(n_ for n_ in set(meths) - pm if not (n_.startswith('__') and n_.endswith('__')))
                cfp = {n_: _bag(fingerprint_of(meths[n_]), trans) for n_ in new_m}

                def mscore(o, n):
                    return _sim(canon_fp('%s.%s' % (cq, o)), cfp[n])
                for o, n, s in _pair(missing_m, new_m, mscore, 0.55, lone=0.4):
                    meths[n].name = o
                    if n in all_pinned_attr_names:
                        # ambiguous outside the class: map back the accesses through `self` only
                        for mth in meths.values():
                            ps = [a.arg for a in mth.args.posonlyargs + mth.args.args]
                            for n_ in ast.walk(mth):
                                if ps and isinstance(n_, ast.Attribute) and n_.attr == n and isinstance(n_.value, ast.Name) and n_.value.id == ps[0]:
                                    n_.attr = o
                        applied.append('method %s.%s <- %s (%.2f, inside the class only)' % (cq, o, n, s))
                    else:
                        note_attr(n, o)
                        applied.append('method %s.%s <- %s (%.2f)' % (cq, o, n, s))
                meths, attrs, nested = _class_members(cnode)
                pa = set(canon_attrs.get(cq, []))
                missing_a = sorted(pa - attrs - set(meths))
                new_a = sorted(a_ for a_ in attrs - pa if a_ not in all_pinned_attr_names and a_ not in attr_renames)
                if missing_a and new_a:
                    def profile(name):
                        st_ = ld_ = 0
                        for n_ in ast.walk(cnode):
                            if isinstance(n_, ast.Attribute) and n_.attr == name:
                                if isinstance(n_.ctx, ast.Load):
                                    ld_ += 1
                                else:
                                    st_ += 1
                        return st_, ld_
                    pinned_profile = C.get('attr_profiles', {}).get(cq, {})

                    def ascore(o, n):
                        po = pinned_profile.get(o)
                        if po is None:
                            return 0.0
                        pn = profile(n)
                        if tuple(po) == pn:
                            return 1.0
                        return 1.0 - min(1.0, (abs(po[0] - pn[0]) + abs(po[1] - pn[1])) / float(max(1, po[0] + po[1])))
                    pairs_a = _pair(missing_a, new_a, ascore, 0.75, margin=0.05, lone=0.0)
                    if not pairs_a and len(missing_a) == len(new_a) and len(missing_a) > 1:
                        # equal usage profiles (a, b -> first, second): pair in the order in which they are first stored
                        order_old = [a_ for a_ in C.get('attr_order', {}).get(cq, []) if a_ in missing_a]
                        first = {}
                        for n_ in ast.walk(cnode):
                            nm = n_.attr if isinstance(n_, ast.Attribute) and isinstance(n_.ctx, ast.Store) else (n_.id if isinstance(n_, ast.Name) and isinstance(n_.ctx, ast.Store) else None)
                            if nm in new_a:
                                pos = (getattr(n_, 'lineno', 0), getattr(n_, 'col_offset', 0))
                                if nm not in first or pos < first[nm]:
                                    first[nm] = pos
                        order_new = sorted(first, key=lambda k: first[k])
                        if len(order_old) == len(missing_a) and len(order_new) == len(new_a) \
                                and all((pinned_profile.get(o_) or [None])[0] == profile(n_)[0] for o_, n_ in zip(order_old, order_new)):      # same number of stores each
                            pairs_a = [(o_, n_, ascore(o_, n_)) for o_, n_ in zip(order_old, order_new)]
                    for o, n, s in pairs_a:
                        note_attr(n, o)
                        for st in cnode.body:       # class-level assignment `new = ...`
                            tg = st.targets if isinstance(st, ast.Assign) else ([st.target] if isinstance(st, ast.AnnAssign) else [])
                            for t in tg:
                                if isinstance(t, ast.Name) and t.id == n:
                                    t.id = o
                        applied.append('attribute %s.%s <- %s' % (cq, o, n))
                meths, attrs, nested = _class_members(cnode)
                amb_new = sorted(a_ for a_ in attrs - pa if a_ in all_pinned_attr_names and a_ not in meths and a_ not in attr_renames)
                missing_a2 = sorted(a_ for a_ in pa - attrs - set(meths) if a_ not in attr_renames.values())
                if len(missing_a2) == 1 and len(amb_new) == 1:
                    o, n = missing_a2[0], amb_new[0]
                    cnt = 0
                    for mth in meths.values():
                        ps = [a.arg for a in mth.args.posonlyargs + mth.args.args]
                        if not ps:
                            continue
                        for n_ in ast.walk(mth):
                            if isinstance(n_, ast.Attribute) and n_.attr == n and isinstance(n_.value, ast.Name) and n_.value.id == ps[0]:
                                n_.attr = o
                                cnt += 1
                    if cnt:
                        applied.append('attribute %s.%s <- %s (inside the class only: %d accesses)' % (cq, o, n, cnt))
                for nn, nnode in nested.items():
                    do_class('%s.%s' % (prefix, nn), nnode)
            do_class(cname, cnode)
        # phase 3 and 4: module-level names and functions
        leftovers = {'missing': [], 'new': []}
        for mname, m in sorted(modules.items()):
            fs, cs = _defs(m.tree)
            if mname not in canon_vars:
                leftovers['new'].extend((mname, None, n_, fs[n_]) for n_ in sorted(fs))
                for cn, cnode in cs.items():
                    meths, _, _ = _class_members(cnode)
                    leftovers['new'].extend((mname, cn, n_, meths[n_]) for n_ in sorted(meths) if not n_.startswith('__'))
                continue
            cur_vars = {}
            for st in m.tree.body:
                if isinstance(st, ast.Assign) and len(st.targets) == 1 and isinstance(st.targets[0], ast.Name):
                    cur_vars[st.targets[0].id] = norm(st.value)[:200]
                elif isinstance(st, ast.AnnAssign) and isinstance(st.target, ast.Name) and st.value is not None:
                    cur_vars[st.target.id] = norm(st.value)[:200]
            pv = set(canon_vars.get(mname, []))
            missing_v = sorted(pv - set(cur_vars) - set(fs) - set(cs))
            new_v = sorted(set(cur_vars) - pv)
            vals = canon_var_values.get(mname, {})

            def vscore(o, n):
                return 1.0 if vals.get(o) is not None and vals.get(o) == cur_vars[n] else 0.0
            for o, n, s in _pair(missing_v, new_v, vscore, 0.99, margin=0.0):
                note_name(mname, n, o)
                for st in m.tree.body:
                    tg = st.targets if isinstance(st, ast.Assign) else ([st.target] if isinstance(st, ast.AnnAssign) else [])
                    for t in tg:
                        if isinstance(t, ast.Name) and t.id == n:
                            t.id = o
                applied.append('module name %s.%s <- %s' % (mname, o, n))
            pf = set(pinned_module_level.get(mname, set()))
            missing_f = sorted(pf - set(fs) - set(cs))
            new_f = sorted(set(fs) - pf)
            cur_fp = {n_: _bag(fingerprint_of(fs[n_]), trans) for n_ in new_f}

            def fscore(o, n):
                return _sim(canon_fp('%s.%s' % (mname, o)), cur_fp[n])
            matched_o = set()
            for o, n, s in _pair(missing_f, new_f, fscore, 0.55, lone=0.3):
                note_name(mname, n, o)
                fs[n].name = o
                matched_o.add(o)
                applied.append('function %s.%s <- %s (%.2f)' % (mname, o, n, s))
            fs, cs = _defs(m.tree)
            leftovers['missing'].extend((mname, None, o) for o in missing_f if o not in matched_o)
            leftovers['new'].extend((mname, None, n_, fs[n_]) for n_ in sorted(set(fs) - pf))
            # methods of pinned classes that disappeared / appeared without a partner inside the class (function <-> method moves)
            for cpath, cq in sorted(pinned_classes.get(mname, {}).items()):
                if '.' in cpath:
                    continue
                cnode = cs.get(cpath)
                if cnode is None:
                    continue
                meths, _, _ = _class_members(cnode)
                leftovers['missing'].extend((mname, cpath, o) for o in sorted(set(canon_methods[cq]) - set(meths)) if not o.startswith('__'))
                leftovers['new'].extend((mname, cpath, n_, meths[n_]) for n_ in sorted(set(meths) - set(canon_methods[cq])) if not n_.startswith('__'))
    # ---- phase 5: functions / methods that moved (other module, into or out of a class) --------------------------------------
    if leftovers.get('missing') and leftovers.get('new'):
        new_fp = {(mn, cn, n_): _bag(fingerprint_of(node), trans) for mn, cn, n_, node in leftovers['new']}
        new_node = {(mn, cn, n_): node for mn, cn, n_, node in leftovers['new']}

        def oq(o):
            return '%s.%s%s' % (o[0], (o[1] + '.') if o[1] else '', o[2])

        def mvscore(o, n):
            if o[0] == n[0] and o[1] == n[1]:
                return 0.0
            return _sim(canon_fp(oq(o)), new_fp[n]) + (0.05 if o[2] == n[2] else 0.0)
        missing = [o for o in leftovers['missing'] if oq(o) in canon_fp_raw]
        def is_static(node):
            return any(norm(d).split('.')[-1] == 'staticmethod' for d in node.decorator_list)
        for o, n, s_ in _pair(sorted(missing, key=str), sorted(new_fp, key=str), mvscore, 0.6, lone=0.4):
            where = '%s%s' % (n[0], ('.' + n[1]) if n[1] else '')
            node = new_node[n]
            if (o[1] is None) != (n[1] is None):
                # a function became a method or the other way round.  Only the static case is the same callable with the same parameters:
                # it is put back where it was (definition and call sites); any other conversion changes the call protocol and is left
                # alone - the anchor then fails (undecided), which is the honest answer.
                if o[1] is None and n[1] is not None and is_static(node) and o[0] == n[0]:
                    m_ = modules[n[0]]
                    _, cs_ = _defs(m_.tree)
                    cnode_ = cs_.get(n[1])
                    if cnode_ is not None and node in cnode_.body and o[2] not in _defs(m_.tree)[0]:
                        cnode_.body.remove(node)
                        if not cnode_.body:
                            cnode_.body.append(ast.Pass())
                        node.decorator_list = [d for d in node.decorator_list if norm(d).split('.')[-1] != 'staticmethod']
                        newname = node.name
                        node.name = o[2]
                        m_.tree.body.insert(m_.tree.body.index(cnode_) + 1, node)
                        for mm_ in modules.values():
                            for c_ in ast.walk(mm_.tree):
                                if isinstance(c_, ast.Call) and isinstance(c_.func, ast.Attribute) and c_.func.attr == newname \
                                        and norm(c_.func.value).split('.')[-1] == n[1]:
                                    if mm_ is m_:
                                        c_.func = ast.copy_location(ast.Name(id=o[2], ctx=ast.Load()), c_.func)
                                    else:
                                        c_.func = ast.copy_location(ast.Attribute(value=c_.func.value.value, attr=o[2], ctx=ast.Load()), c_.func) \
                                            if isinstance(c_.func.value, ast.Attribute) else c_.func
                        applied.append('function %s <- static method %s.%s (%.2f): put back at module level' % (oq(o), where, newname, s_))
                elif o[1] is None and n[1] is not None and not is_static(node) and o[0] == n[0] and n[2] not in all_pinned_attr_names \
                        and not any(norm(d).split('.')[-1] in ('classmethod', 'property') for d in node.decorator_list) \
                        and len(canon_funcs.get(oq(o), [])) == len(node.args.posonlyargs + node.args.args + node.args.kwonlyargs) and not node.args.vararg and not node.args.kwarg:
                    # f(x, rest) became the method x.f(rest) of x's class (same number of parameters, the receiver first): put back as the
                    # function it was, and `E.f(rest)` is spelled `f(E, rest)` again
                    m_ = modules[n[0]]
                    _, cs_ = _defs(m_.tree)
                    cnode_ = cs_.get(n[1])
                    if cnode_ is not None and node in cnode_.body and o[2] not in _defs(m_.tree)[0]:
                        cnode_.body.remove(node)
                        if not cnode_.body:
                            cnode_.body.append(ast.Pass())
                        newname = node.name
                        node.name = o[2]
                        m_.tree.body.insert(m_.tree.body.index(cnode_) + 1, node)
                        for c_ in ast.walk(m_.tree):
                            if isinstance(c_, ast.Call) and isinstance(c_.func, ast.Attribute) and c_.func.attr == newname:
                                recv_ = c_.func.value
                                c_.func = ast.copy_location(ast.Name(id=o[2], ctx=ast.Load()), c_.func)
                                c_.args = [recv_] + list(c_.args)
                        applied.append('function %s <- method %s.%s (%.2f): put back at module level, the receiver is its first argument again' % (oq(o), where, newname, s_))
                elif o[1] is not None and n[1] is None and o[0] == n[0] and not (node.args.args and node.args.args[0].arg in ('self', 'cls')):
                    m_ = modules[n[0]]
                    _, cs_ = _defs(m_.tree)
                    cnode_ = cs_.get(o[1])
                    pinned_static = o[2] in C.get('static_methods', {}).get('%s.%s' % (o[0], o[1]), [])
                    if cnode_ is not None and pinned_static and node in m_.tree.body:
                        m_.tree.body.remove(node)
                        newname = node.name
                        node.name = o[2]
                        node.decorator_list = [ast.Name(id='staticmethod', ctx=ast.Load())] + list(node.decorator_list)
                        cnode_.body.append(node)
                        for mm_ in modules.values():
                            for c_ in ast.walk(mm_.tree):
                                if isinstance(c_, ast.Call) and isinstance(c_.func, ast.Name) and c_.func.id == newname and mm_ is m_:
                                    c_.func = ast.copy_location(ast.Attribute(value=ast.Name(id=o[1], ctx=ast.Load()), attr=o[2], ctx=ast.Load()), c_.func)
                                elif isinstance(c_, ast.Call) and isinstance(c_.func, ast.Attribute) and c_.func.attr == newname and mm_ is not m_ \
                                        and norm(c_.func.value).split('.')[-1] == n[0].split('.')[-1]:
                                    c_.func = ast.copy_location(ast.Attribute(value=ast.Attribute(value=c_.func.value, attr=o[1], ctx=ast.Load()), attr=o[2], ctx=ast.Load()), c_.func)
                        applied.append('static method %s <- function %s.%s (%.2f): put back into the class' % (oq(o), n[0], newname, s_))
                continue
            canonicalise.moved[oq(o)] = (n[0], n[1], n[2])
            applied.append('%s %s now lives in %s as %s (%.2f)' % ('method' if o[1] else 'function', oq(o), where, n[2], s_))
            # a module-level function that keeps being a module-level function gets its pinned name back in its new home
            if o[1] is None and n[1] is None and n[2] != o[2] and o[2] not in _defs(modules[n[0]].tree)[0]:
                note_name(n[0], n[2], o[2])
                new_node[n].name = o[2]
                canonicalise.moved[oq(o)] = (n[0], None, o[2])
    # ---- parameters: a function that kept its (pinned or mapped-back) name and arity gets its pinned parameter names back ------------
    def all_defs():
        for mname, m in modules.items():
            fs, cs = _defs(m.tree)
            for n_, node in fs.items():
                yield '%s.%s' % (mname, n_), node, mname

            def rec(prefix, cnode):
                meths, _, nested = _class_members(cnode)
                for n_, node in meths.items():
                    yield '%s.%s' % (prefix, n_), node, mname
                for nn, nnode in nested.items():
                    for x in rec('%s.%s' % (prefix, nn), nnode):
                        yield x
            for cn, cnode in cs.items():
                for x in rec('%s.%s' % (mname, cn), cnode):
                    yield x
    kw_renames = {}         # function name -> {new keyword: old keyword}
    for q, node, mname in list(all_defs()):
        cps = canon_funcs.get(q)
        a = node.args
        cur = [x for x in a.posonlyargs + a.args + a.kwonlyargs]
        if cps is None or len(cps) != len(cur) or a.vararg or a.kwarg:
            continue
        ren = {x.arg: c for x, c in zip(cur, cps) if x.arg != c}
        if not ren:
            continue
        body_names = {n_.id for n_ in ast.walk(node) if isinstance(n_, ast.Name)} | {x.arg for n_ in ast.walk(node) if isinstance(n_, (ast.Lambda, ast.FunctionDef)) and n_ is not node for x in n_.args.args}
        if any(o_ in body_names and o_ not in ren for o_ in ren.values()):
            continue        # the pinned name is used for something else inside the function now
        for x in cur:
            if x.arg in ren:
                x.arg = ren[x.arg]
        for n_ in ast.walk(node):
            if isinstance(n_, ast.Name) and n_.id in ren:
                n_.id = ren[n_.id]
        kw_renames.setdefault(node.name, {}).update(ren)
        applied.append('parameters of %s <- %s' % (q, ', '.join('%s (was %s)' % (v_, k_) for k_, v_ in sorted(ren.items()))))
    if kw_renames:
        for m in modules.values():
            for c_ in ast.walk(m.tree):
                if isinstance(c_, ast.Call) and c_.keywords:
                    fname = c_.func.attr if isinstance(c_.func, ast.Attribute) else (c_.func.id if isinstance(c_.func, ast.Name) else None)
                    fname = attr_renames.get(fname, fname)
                    ren = kw_renames.get(fname)
                    if fname == '__init__' or ren is None:
                        # constructor calls: Class(...) -> look the class's __init__ up by the class name is not possible here; use the keyword alone
                        ren = None
                    if ren:
                        for k in c_.keywords:
                            if k.arg in ren:
                                k.arg = ren[k.arg]
    # ---- code that moved to another module refers to its old neighbours through the module (`parse.message(..)`): spelled as before ------
    def unqualify(node, new_mod, old_mod):
        if new_mod == old_mod or old_mod not in modules and old_mod not in canon_vars:
            return
        tops = pinned_tops.get(old_mod, set()) | set(canon_vars.get(old_mod, []))
        last = old_mod.rpartition('.')[2]
        used = set()

        class T(ast.NodeTransformer):
            def visit_Attribute(self, n):
                self.generic_visit(n)
                if n.attr in tops and isinstance(n.ctx, ast.Load) and isinstance(n.value, ast.Name) and n.value.id == last:
                    used.add(n.attr)
                    return ast.copy_location(ast.Name(id=n.attr, ctx=ast.Load()), n)
                return n
        T().visit(node)
        if used and old_mod in modules:
            tree = modules[new_mod].tree
            have = {a.asname or a.name for st in tree.body if isinstance(st, ast.ImportFrom) for a in st.names} | set(_defs(tree)[0]) | set(_defs(tree)[1])
            names = sorted(u for u in used if u not in have)
            if names:
                imp = ast.ImportFrom(module=old_mod, names=[ast.alias(name=u, asname=None) for u in names], level=0)
                imp.lineno = imp.col_offset = 0
                imp.end_lineno = imp.end_col_offset = 0
                tree.body.insert(0, imp)
    for old_q, (mn, cname) in canonicalise.moved_classes.items():
        omod = module_of(old_q)
        cn = _defs(modules[mn].tree)[1].get(cname) if mn in modules else None
        if omod and cn is not None:
            unqualify(cn, mn, omod)
    for old_q, (mn, cn_, fname) in canonicalise.moved.items():
        omod = module_of(old_q)
        if omod and cn_ is None and mn in modules:
            fn = _defs(modules[mn].tree)[0].get(fname)
            if fn is not None:
                unqualify(fn, mn, omod)
    if not applied:
        return []
    # ---- apply references -------------------------------------------------------------------------------------------
    star_sources = {}
    for mname, m in modules.items():
        for n in ast.walk(m.tree):
            if isinstance(n, ast.ImportFrom) and n.module and any(a.name == '*' for a in n.names):
                srcs = [k for k in modules if k == n.module or k.endswith('.' + n.module)]
                star_sources.setdefault(mname, []).extend(srcs)
    # re-exports: a module that imports a renamed name (without `as`) and is itself imported from passes the mapping on
    for _ in range(3):
        grew = False
        for mname, m in modules.items():
            for n in ast.walk(m.tree):
                if isinstance(n, ast.ImportFrom) and n.module:
                    for k in [k for k in modules if k == n.module or k.endswith('.' + n.module)]:
                        for a in n.names:
                            old_ = name_renames.get(k, {}).get(a.name)
                            if old_ is not None and a.asname is None and name_renames.get(mname, {}).get(a.name) != old_:
                                name_renames.setdefault(mname, {})[a.name] = old_
                                grew = True
        if not grew:
            break
    for mname, m in modules.items():
        local = name_renames.get(mname, {})
        imported = {}
        for n in ast.walk(m.tree):
            if isinstance(n, ast.ImportFrom) and n.module:
                src = n.module
                cands = [k for k in modules if k == src or k.endswith('.' + src)]
                for k in cands:
                    ren = name_renames.get(k, {})
                    for a in n.names:
                        if a.name in ren:
                            if a.asname is None:
                                imported[a.name] = ren[a.name]
                            a.name = ren[a.name]
        for k in star_sources.get(mname, []):
            for new_, old_ in name_renames.get(k, {}).items():
                if not new_.startswith('_'):
                    imported.setdefault(new_, old_)
            for k2 in star_sources.get(k, []):       # star imports chain (a package __init__ re-exporting its modules)
                for new_, old_ in name_renames.get(k2, {}).items():
                    if not new_.startswith('_'):
                        imported.setdefault(new_, old_)
        both = dict(imported)
        both.update(local)
        for n in ast.walk(m.tree):
            if isinstance(n, ast.Name) and n.id in both:
                n.id = both[n.id]
            elif isinstance(n, (ast.Global, ast.Nonlocal)):
                n.names = [both.get(x, x) for x in n.names]
            elif isinstance(n, ast.Attribute):
                if n.attr in attr_renames:
                    n.attr = attr_renames[n.attr]
                else:
                    for k, ren in name_renames.items():
                        if n.attr in ren and isinstance(n.value, (ast.Name, ast.Attribute)) and norm(n.value).split('.')[-1] == k.split('.')[-1]:
                            n.attr = ren[n.attr]
                            break
            elif isinstance(n, ast.Call) and isinstance(n.func, ast.Name) and n.func.id in ('hasattr', 'getattr', 'setattr') and len(n.args) >= 2 \
                    and isinstance(n.args[1], ast.Constant) and n.args[1].value in attr_renames:
                n.args[1].value = attr_renames[n.args[1].value]
    return applied
