"""C16 - displayed times are the log's times relative to the first message."""
import ast
import re

from ..core import AnalysisError, norm
from ..sim import check_reach
from .common import (dtext, check_zero_is_a_value, effects, paths_of, check_writers, arg_by_name, named_call_sites)

CTRL = 'frontends.tui.controller.Controller'
MSGQ = 'core.wl.message.Message'


def run(ctx):
    repo = ctx.repo
    cg = repo.callgraph()
    ctx.decided = ['C16.1 ms -> s', 'C16.2 relative time', 'C16.3 separator iff gap > 1 s between shown messages', 'C16.4 what is printed']
    ctx.undecided = ['rounding of {:7.4f}']
    # ---- C16.1 -----------------------------------------------------------------------------------------
    f_pm = repo.func('parse.message')
    msg_init = repo.func('message.Message.__init__')
    n1 = 0
    for p in paths_of(repo, f_pm):
        if p.outcome[0] != 'return':
            continue
        for x in ast.walk(p.outcome[1]):
            if isinstance(x, ast.Call) and norm(x.func).endswith('Message'):
                n1 += 1
                t = norm(arg_by_name(x, msg_init, 'abs_time'))
                from .common import ms_to_s_term_ok
                ok = ms_to_s_term_ok(t, p, r"[^()]*(?:\(\))?[^()]*\.(?:search|match)\(raw\)\.group\('timestamp'\)")
                ctx.check(ok, 'C16.1', 'log-time:ms-to-s', f_pm.loc(), 'log time = float(timestamp group with , -> .) / 1000', 'log time is %s' % t[:140])
    ctx.floor('C16.1', n1, 2, 'Message constructions in parse.message')
    f_ex = repo.try_func('extract.extract_message')
    if f_ex is not None:
        n = 0
        for node in f_ex.body_nodes():
            if isinstance(node, ast.Call) and norm(node.func).endswith('Message'):
                n += 1
                ctx.check(norm(arg_by_name(node, msg_init, 'abs_time')) == 'time_now()', 'C16.1', 'gdb-time:seconds', f_ex.loc(node),
                          'GDB mode stamps messages with time_now() (seconds)', 'GDB mode stamps messages with %s' % norm(arg_by_name(node, msg_init, 'abs_time')))
        ctx.floor('C16.1', n, 1, 'Message construction in extract_message')
        f_now = repo.func('util.time_now')
        for p in paths_of(repo, f_now):
            ctx.check(p.outcome[0] == 'return' and norm(p.outcome[1]) in ('time.perf_counter()', 'time.monotonic()', 'time.time()'), 'C16.1', 'time_now:seconds', f_now.loc(), 'time_now() is a clock in seconds')

    # ---- C16.2 -----------------------------------------------------------------------------------------
    check_zero_is_a_value(ctx, 'C16.2', 'a log whose first timestamp is 0.000, a message at relative time 0.0, a gap of 0.0',
                          lambda f: f.module.name in ('core.wl.message', 'core.output.output', 'backends.libwayland_debug_output.parse', 'core.wl.object', 'frontends.tui.controller'),
                          floor=20, kinds=('float',))       # times are floats; the listing's cap (an int whose 0 means "no cap" by definition) is not a time
    ipaths = paths_of(repo, msg_init)
    probs = check_reach(ipaths, lambda e: e.kind == 'store' and e.target == 'Message.base_time',
                        lambda a: ('unset', True) if a.text == 'Message.base_time is None' else None, lambda F: F['unset'], universe=['unset'])
    ctx.check(not probs, 'C16.2', 'base_time:set-iff-unset', msg_init.loc(), 'the time origin is set exactly when it is still unset (i.e. by the first message)',
              'origin store reached=%s when %s' % ((probs[0][2], probs[0][1]) if probs else ('', '')))
    for p in ipaths:
        for e in p.events:
            if e.kind == 'store' and e.target == 'Message.base_time':
                ctx.check(norm(e.value) == 'abs_time', 'C16.2', 'base_time:value', msg_init.loc(e.node), 'the origin is the first message\'s own time', 'origin is %s' % norm(e.value))
        ts = [e for e in p.events if e.kind == 'store' and e.target == 'self.timestamp']
        ctx.check(len(ts) == 1 and norm(ts[0].value) in ('abs_time - Message.base_time', 'abs_time - abs_time'), 'C16.2', 'timestamp:relative', msg_init.loc(),
                  'timestamp = abs_time - origin (so a constant shift of all log times cancels)', 'timestamp is %s' % [norm(e.value) for e in ts])
        if ts:
            bt = [i for i, e in enumerate(p.events) if e.kind == 'store' and e.target == 'Message.base_time']
            ctx.check(all(i < p.events.index(ts[0]) for i in bt), 'C16.2', 'timestamp:after-origin', msg_init.loc(), 'the origin is fixed before the first timestamp is computed')
    check_writers(ctx, 'C16.2', 'class:' + MSGQ, 'base_time', [('Message.__init__', lambda w: w.kind == 'store')], floor=1)
    mc = repo.cls(MSGQ)
    ctx.check('base_time' in mc.class_attrs and norm(mc.class_attrs['base_time']) == 'None', 'C16.2', 'base_time:initially-unset', mc.module.relpath + ':' + str(mc.node.lineno) + ' Message',
              'the origin starts unset')
    check_writers(ctx, 'C16.2', MSGQ, 'timestamp', [('Message.__init__', lambda w: w.fresh)], floor=1)

    # ---- C16.3 -----------------------------------------------------------------------------------------
    f_show = repo.func('Controller._show_message')
    spaths = paths_of(repo, f_show)
    GAP = 'message.timestamp - self.last_shown_timestamp'

    def m_sep(a):
        if a.text == 'self.last_shown_timestamp is None':
            return ('unset', True)
        if a.text == '1.0 < ' + GAP or a.text == '1 < ' + GAP:
            return ('gap', True)
        return None
    is_sep = lambda e: e.kind == 'call' and e.ftext == 'self.out.show' and e.loops == ()
    probs = check_reach(spaths, is_sep, m_sep, lambda F: (not F['unset']) and F['gap'], universe=['unset', 'gap'])
    ctx.check(not probs, 'C16.3', 'separator:iff-gap', f_show.loc(),
              'a separator is printed iff a previous shown message exists and this one is more than 1.0 s later',
              'separator reached=%s in scenario %s (path %s)' % ((probs[0][2], probs[0][1], probs[0][0].describe()[:160]) if probs else ('', '', '')))
    nsep = 0
    for p in spaths:
        st = [i for i, e in enumerate(p.events) if e.kind == 'store' and e.target == 'self.last_shown_timestamp']
        sh = [i for i, e in enumerate(p.events) if e.kind == 'call' and e.ftext == 'message.show']
        ctx.check(len(st) == 1 and norm(p.events[st[0]].value) == 'message.timestamp', 'C16.3', 'marker:updated-every-time', f_show.loc(),
                  'the last-shown marker becomes this message\'s time on every path', 'marker stores: %s' % [norm(p.events[i].value) for i in st])
        for e in p.events:
            if is_sep(e):
                nsep += 1
                ctx.check('.format(%s)' % GAP in (dtext(e.args[0]) if e.args else ''), 'C16.3', 'separator:shows-gap', f_show.loc(e.node), 'the separator shows the gap itself', 'separator is %s' % e.text[:120])
                ctx.check(sh and p.events.index(e) < sh[0], 'C16.3', 'separator:before-message', f_show.loc(e.node), 'the separator precedes the message line')
    ctx.floor('C16.3', nsep, 1, 'separator path')
    check_writers(ctx, 'C16.3', CTRL, 'last_shown_timestamp', [('Controller.__init__', lambda w: w.fresh), ('Controller._show_message', None),
                                                                ('Controller.show_messages', lambda w: isinstance(w.stmt.value, ast.Constant) and w.stmt.value.value is None)], floor=4)
    f_showm = repo.func('Controller.show_messages')
    nlist = 0
    for p in paths_of(repo, f_showm, unroll=1):
        shown = [i for i, e in enumerate(p.events) if e.kind == 'call' and e.ftext == 'self._show_message']
        if not shown:
            continue
        nlist += 1
        resets = [i for i, e in enumerate(p.events) if e.kind == 'store' and e.target == 'self.last_shown_timestamp' and norm(e.value) == 'None']
        ctx.check(any(i < shown[0] for i in resets) and any(i > shown[-1] for i in resets), 'C16.3', 'listing:marker-reset-around', f_showm.loc(),
                  'a listing resets the marker before and after, so gaps are measured within one listing only',
                  'listing does not reset the marker on both sides')
    ctx.floor('C16.3', nlist, 1, 'listing path that shows messages')

    # the gap marker is kept by _show_message alone: a message printed by any other route is shown without its separator (and without
    # moving the marker).  Who may print a message is C06.3's table; its findings about the routes to Message.show are findings here.
    from . import common as _common, c06 as _c06
    _common.lift(ctx, 'C16.3', 'single-route-to-show', _c06, 'C06', ('C06.3',), 'every message line is printed through _show_message, which keeps the gap marker',
                 key_filter=lambda k: k.startswith(('show:caller', 'show_message:caller', '_show_message:shows-once')) or 'Message.show' in k or '_show_message' in k, floor=1)
    # ---- C16.4 -----------------------------------------------------------------------------------------
    f_mshow = repo.func('message.Message.show')
    n4 = 0
    for p in paths_of(repo, f_mshow):
        for e in p.events:
            if e.kind == 'call' and e.ftext == 'out.show':
                n4 += 1
                times = re.findall(r"format\(([^()]*)\)", dtext(e.args[0]) if e.args else '')
                times = [re.sub(r", '[^']*'$", '', t_) for t_ in times]        # format(x, '7.4f') is '{:7.4f}'.format(x): the value formatted is x
                ctx.check(times == ['self.timestamp'], 'C16.4', 'show:prints-timestamp', f_mshow.loc(e.node), 'the time column is the message\'s relative timestamp',
                          'the time column formats %s' % times)
    ctx.floor('C16.4', n4, 1, 'output call in Message.show')
    return ('provenance of the time values (ms->s, relative to the first message), scenario evaluation of the separator guard over '
            '{marker unset} x {gap <,=,> 1.0}. Decided: %s. Undecided: %s' % ('; '.join(ctx.decided), '; '.join(ctx.undecided)))
