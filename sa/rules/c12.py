"""C12 - filter/breakpoint commands accumulate alternatives and exclusions."""
import ast
import re

from ..core import AnalysisError, norm
from ..sim import check_reach
from .common import (effects, paths_of, check_writers, arg_by_name, named_call_sites, ctor_sites)
from . import common as _cm

CTRL = 'frontends.tui.controller.Controller'


def _simplified(sym):
    """Is the term a constant matcher, a .simplify() result?"""
    t = norm(sym)
    if t in ('matcher.always', 'matcher.never', 'always', 'never'):
        return True
    if isinstance(sym, ast.Call) and isinstance(sym.func, ast.Attribute) and sym.func.attr == 'simplify' and not sym.args:
        return True
    if isinstance(sym, ast.Call) and norm(sym.func).split('.')[-1] == 'AlwaysMatcher':
        return True
    return False


def expand_new_helper(repo, f, value):
    """If `value` is a call of a function that did not exist on the pinned tree and consists of a single `return <expr>`,
    return <expr> with the parameters replaced by the call's arguments; otherwise `value` itself."""
    from ..sim import is_new_function
    import copy
    if not isinstance(value, ast.Call):
        return value
    site = repo.callgraph().site_of(f, value)
    if site is None or len(site.targets) != 1:
        return value
    g = next(iter(site.targets))
    if not is_new_function(g):
        return value
    body = [b for b in g.node.body if not (isinstance(b, ast.Expr) and isinstance(b.value, ast.Constant))]
    if len(body) != 1 or not isinstance(body[0], ast.Return) or body[0].value is None:
        return value
    params = g.params()
    if g.cls is not None and not g.is_static():
        params = params[1:]
    if len(params) != len(value.args) or value.keywords:
        return value
    mapping = dict(zip(params, value.args))
    expr = copy.deepcopy(body[0].value)

    class T(ast.NodeTransformer):
        def visit_Name(self, x):
            return copy.deepcopy(mapping[x.id]) if x.id in mapping else x
    return T().visit(expr)


def _check_list_simplify_meaning(ctx, repo):
    import itertools
    from ..sim import _literal_elts
    from .common import nonempty_atom
    f = repo.func('MatcherList.simplify')
    K = 3 if ctx.tier == 'thorough' else 2
    paths = paths_of(repo, f, unroll=K, expand_maps=True, stable_attrs=('self.positive', 'self.negative'), max_paths=60000)
    VERD = re.compile(r'^(.*?)(?:\.simplify\(\))?\.always\(\) is (not )?(True|False)$')

    def atom_of(x):
        t = norm(x)
        return t[:-len('.simplify()')] if t.endswith('.simplify()') else t
    nret = 0
    bad = None
    undecided = None
    for p in paths:
        if p.truncated or p.outcome[0] != 'return':
            continue
        # members: the first rewrite of each list maps simplify() over it; before that only emptiness may have been tested
        lists = {'self.positive': None, 'self.negative': None}
        final = {'self.positive': None, 'self.negative': None}
        for e in p.events:
            if e.kind == 'store' and e.target in lists:
                el = _literal_elts(e.value) if e.value is not None else None
                if el is None and isinstance(e.value, ast.List) and not e.value.elts:
                    el = []
                if lists[e.target] is None and el is not None:
                    lists[e.target] = [atom_of(x) for x in el]
                final[e.target] = [atom_of(x) for x in el] if el is not None else '?'
        empt = None
        for a, v in p.decisions:
            ne = nonempty_atom(a.text, 'self.positive')
            if ne is not None and empt is None:
                empt = (v != ne)
        P, N = lists['self.positive'], lists['self.negative']
        if P is None:
            if empt is True:
                P, N = [], (N or [])
            else:
                undecided = undecided or 'a path returns before the alternatives are known: %s' % p.describe()[:120]
                continue
        if N is None:
            N = []
        if empt is not None and empt != (len(P) == 0):
            continue            # infeasible: the emptiness test contradicts the number of members on this path
        facts = {}
        clash = False
        for a, v in p.decisions:
            m = VERD.match(a.text)
            if not m:
                continue
            is_ = v if not m.group(2) else (not v)
            key = (m.group(1), m.group(3))
            clash = clash or facts.get(key, is_) != is_
            facts[key] = is_
        if clash or any(facts.get((x, 'True')) and facts.get((x, 'False')) for x in P + N):
            continue
        rv = p.outcome[1]
        rt = norm(rv)
        elem = None
        if isinstance(rv, ast.Subscript) and isinstance(rv.slice, ast.Constant) and isinstance(rv.slice.value, int):
            el = _literal_elts(rv.value)
            if el is not None and -len(el) <= rv.slice.value < len(el):
                elem = atom_of(el[rv.slice.value])
        elif atom_of(rv) in P + N:
            elem = atom_of(rv)
        nret += 1
        fp = final['self.positive'] if final['self.positive'] is not None else P
        fn = final['self.negative'] if final['self.negative'] is not None else N
        members = sorted(set(P + N))
        unknown_keys = [(x, w) for x in members for w in ('True', 'False') if (x, w) not in facts]
        for combo in itertools.product([False, True], repeat=len(unknown_keys)):
            F = dict(facts)
            F.update(zip(unknown_keys, combo))
            if any(F[(x, 'True')] and F[(x, 'False')] for x in members):
                continue
            free = [x for x in members if not F[(x, 'True')] and not F[(x, 'False')]]
            for sigma in itertools.product([False, True], repeat=len(free)):
                val = dict(zip(free, sigma))

                def V(x):
                    return True if F.get((x, 'True')) else (False if F.get((x, 'False')) else val.get(x))
                before = any(V(x) for x in P) and not any(V(x) for x in N)
                if rt == 'AlwaysMatcher(False)':
                    after = False
                elif rt == 'AlwaysMatcher(True)':
                    after = True
                elif elem is not None:
                    after = V(elem)
                elif rt == 'self' and fp != '?' and fn != '?' and all(x in members for x in fp + fn):
                    after = any(V(x) for x in fp) and not any(V(x) for x in fn)
                else:
                    undecided = undecided or 'simplify returns %s with lists %s / %s' % (rt[:60], fp, fn)
                    after = before
                if after != before and bad is None:
                    verdicts = {x: ('always true' if F[(x, 'True')] else 'always false' if F[(x, 'False')] else 'a real matcher') for x in members}
                    bad = 'alternatives %s, exclusions %s with %s: the list %s a message on which the real matchers say %s, but what simplify returns (%s%s) %s it' % (
                        P, N, verdicts, 'selects' if before else 'does not select', val, rt[:50], (' with alternatives %s / exclusions %s' % (fp, fn)) if rt == 'self' else '',
                        'selects' if after else 'does not select')
    ctx.check(bad is None, 'C12.6', 'MatcherList.simplify:meaning-preserved', f.loc(),
              'what simplify returns selects the same messages as the list before (every combination of constant and real members, up to %d per side)' % K, bad)
    ctx.check(undecided is None, 'C12.6', 'MatcherList.simplify:decided', f.loc(), 'every returning path of simplify is decided', 'cannot decide: %s' % undecided)
    ctx.floor('C12.6', nret, 12, 'feasible returning paths of MatcherList.simplify')


def run(ctx):
    repo = ctx.repo
    ctx.decided = ['C12.1 failed parse keeps the old matcher and reports', 'C12.2 each command updates its own matcher',
                   'C12.3 stored matchers are simplified', 'C12.4 join: replace vs extend, field-wise',
                   'C12.5 list semantics: some alternative and no exclusion', 'C12.6 simplify drops only constant members',
                   'C12.7 every command parses a matcher object of its own (join and simplify modify the parsed lists in place)']
    ctx.undecided = ['the meaning of the individual alternatives (C05)']
    f_paj = repo.func('Controller.parse_and_join')
    # ---- C12.7: join() extends and simplify() rewrites the freshly parsed lists in place, so the object a command parses must be its own
    from .common import check_no_memoised_mutables
    check_no_memoised_mutables(ctx, 'C12.7', [f_paj], 'command')
    raises_parse = lambda e: ['RuntimeError'] if (e.ftext or '') in ('matcher.parse', 'parse') else ()
    ppaths = paths_of(repo, f_paj, may_raise=raises_parse)
    # ---- C12.1 / C12.3 ---------------------------------------------------------------------------------
    nfail = nok = 0
    for p in ppaths:
        failed = any(e.kind == 'raised-by-call' for e in p.events)
        oldnone = [v for a, v in p.decisions if a.text == 'old is None'] + [not v for a, v in p.decisions if a.text == 'old']
        if p.outcome[0] != 'return':
            ctx.violation('C12.1', 'parse_and_join:escapes', f_paj.loc(), 'a parse failure escapes parse_and_join (%s): the command aborts instead of reporting' % p.outcome_text())
            continue
        rv = norm(p.outcome[1])
        if failed:
            nfail += 1
            want = 'matcher.never' if (oldnone and oldnone[0]) else 'old'
            ctx.check(rv == want and bool(oldnone), 'C12.1', 'parse_and_join:failure-keeps:%s' % want, f_paj.loc(),
                      'after a parse error the result is the previous matcher, unchanged (%s)' % want, 'after a parse error the result is %s' % rv)
            errs = [e for e in p.events if e.kind == 'call' and e.ftext == 'self.out.error']
            ctx.check(len(errs) >= 1 and 'new_unparsed' in errs[0].text and '<exc RuntimeError>' in errs[0].text, 'C12.1', 'parse_and_join:failure-reported', f_paj.loc(),
                      'the parse error is reported with the offending text and the parser\'s message', 'error report is %s' % [e.text[:80] for e in errs])
        else:
            nok += 1
            if oldnone and oldnone[0]:
                good = rv == 'matcher.parse(new_unparsed).simplify()'
            else:
                good = rv == 'matcher.join(matcher.parse(new_unparsed), old).simplify()' and bool(oldnone)
            ctx.check(good, 'C12.2', 'parse_and_join:success:%s' % (oldnone[0] if oldnone else '?'), f_paj.loc(),
                      'the new text is parsed, joined onto the old matcher (new first) and simplified', 'success path returns %s' % rv)
            ctx.check(_simplified(p.outcome[1]), 'C12.3', 'parse_and_join:returns-simplified', f_paj.loc(), 'the stored result is simplified', 'returns unsimplified %s' % rv)
    ctx.floor('C12.1', nfail, 2, 'failure paths of parse_and_join')
    ctx.floor('C12.2', nok, 2, 'success paths of parse_and_join')

    # ---- C12.2 own matcher -------------------------------------------------------------------------------
    for cmd, attr, other in (('filter_command', 'display_matcher', 'stop_matcher'), ('break_point_command', 'stop_matcher', 'display_matcher')):
        f = repo.func('Controller.' + cmd)
        paths = paths_of(repo, f)
        probs = check_reach(paths, lambda e: e.kind == 'store' and e.target == 'self.' + attr, lambda a: ('arg', _cm.str_given(a.text, 'arg')) if _cm.str_given(a.text, 'arg') is not None else None,
                            lambda F: F['arg'], universe=['arg'])
        ctx.check(not probs, 'C12.2', '%s:updates-iff-arg' % cmd, f.loc(), '%s updates %s iff an argument is given' % (cmd, attr))
        n = 0
        for p in paths:
            for e in p.events:
                if e.kind == 'store' and e.target and e.target.startswith('self.') and e.target.endswith('_matcher'):
                    n += 1
                    ctx.check(e.target == 'self.' + attr and norm(e.value) == 'self.parse_and_join(arg, self.%s)' % attr, 'C12.2', '%s:own-matcher' % cmd, f.loc(e.node),
                              '%s <- parse_and_join(arg, %s)' % (attr, attr), '%s stores %s <- %s (cross-wired)' % (cmd, e.target, norm(e.value)))
        ctx.floor('C12.2', n, 1, 'matcher store in ' + cmd)
    check_writers(ctx, 'C12.2', CTRL, 'display_matcher', [('Controller.__init__', lambda w: w.fresh and norm(w.stmt.value) == 'display_matcher'), ('Controller.filter_command', None)], floor=2)
    check_writers(ctx, 'C12.2', CTRL, 'stop_matcher', [('Controller.__init__', lambda w: w.fresh and norm(w.stmt.value) == 'stop_matcher'), ('Controller.break_point_command', None)], floor=2)
    # each matcher changes only by its own command storing a new object: neither object is handed to a position that is mutated in place
    # (join() rewrites the lists of its first argument, simplify() those of its receiver)
    _cm.check_not_mutated_in_place(ctx, 'C12.2', 'display_matcher', 'the current filter')
    _cm.check_not_mutated_in_place(ctx, 'C12.2', 'stop_matcher', 'the current breakpoint matcher')

    # ---- C12.3 initial matchers are simplified ---------------------------------------------------------------
    f_pa = repo.func('arguments.parse_args')
    args_cls = repo.cls('frontends.tui.arguments.Arguments')
    a_init = args_cls.find_method('__init__')
    n3 = 0
    for f in (f_pa, repo.func('Arguments.default')):
        for p in paths_of(repo, f, may_raise=None, asserts='ignore'):
            for e in p.events:
                if e.kind == 'call' and e.site is not None and e.site.kind == 'ctor' and e.site.ext is args_cls:
                    for nm in ('filter_matcher', 'stop_matcher'):
                        v = arg_by_name(e, a_init, nm)
                        n3 += 1
                        ctx.check(v is not None and _simplified(v), 'C12.3', 'initial:%s:%s' % (f.short, nm), f.loc(e.node),
                                  'the initial %s is a constant or a simplified matcher' % nm, 'initial %s is %s' % (nm, norm(v)[:80]))
    ctx.floor('C12.3', n3, 4, 'Arguments constructions')
    f_main = repo.func('main.main')
    ctrl_init = repo.func('Controller.__init__')
    for f, s in ctor_sites(repo, repo.cls(CTRL)):
        dm = norm(arg_by_name(s.node, ctrl_init, 'display_matcher'))
        sm = norm(arg_by_name(s.node, ctrl_init, 'stop_matcher'))
        ctx.check(dm == 'args.filter_matcher' and sm == 'args.stop_matcher', 'C12.3', 'controller:initial-matchers', f.loc(s.node),
                  'the controller starts from the -f / -b matchers (filter, breakpoint in that order)', 'controller starts from (%s, %s)' % (dm, sm))

    # ---- C12.4 join ---------------------------------------------------------------------------------------------
    f_join = repo.func('matcher.join')
    jpaths = paths_of(repo, f_join)

    def m_join(a):
        if a.text == 'isinstance(old, AlwaysMatcher)':
            return ('old_const', True)
        if a.text == 'isinstance(new, AlwaysMatcher)':
            return ('new_const', True)
        return None
    ret_new = [p for p in jpaths if p.outcome[0] == 'return' and norm(p.outcome[1]) == 'new']
    for p in jpaths:
        facts = {}
        for a, v in p.decisions:
            m = m_join(a)
            if m:
                facts[m[0]] = v
        const = facts.get('old_const') or facts.get('new_const')
        if p.outcome[0] != 'return':
            ctx.violation('C12.4', 'join:no-return', f_join.loc(), 'join does not return on path %s' % p.describe()[:100])
            continue
        rv = norm(p.outcome[1])
        if const:
            ctx.check(rv == 'new', 'C12.4', 'join:replace-when-constant', f_join.loc(), 'when the old or the new matcher is * or !, the new one replaces the old', 'returns %s' % rv)
        else:
            touched_ = any(e.kind == 'store' and (e.target or '').startswith(('new.', 'old.')) for e in p.events)
            if rv != '_as_list(new)' and (rv not in ('new', 'old', 'None') or touched_):
                # join was written anew (the listified matcher is built some other way): the list algebra below is stated over `_as_list(new)`
                # and cannot read this path - undecided.  (A path that hands back `new` or `old` untouched where both are real matchers is
                # judged: nothing was accumulated.)
                raise AnalysisError('C12.4: join() returns `%s` where the rule expects the listified new matcher `_as_list(new)`: cannot read what was accumulated' % rv[:80])
            ctx.check('old_const' in facts and 'new_const' in facts and rv == '_as_list(new)', 'C12.4', 'join:extend-otherwise', f_join.loc(),
                      'otherwise the (listified) new matcher is extended and returned', 'returns %s with facts %s' % (rv, facts))
            # What the two lists of the returned matcher hold at the end of the path, as terms of a small list algebra over the four
            # input lists: cat(..), keep-not-star(..), [*].  Evaluated over the stores / appends of the path, so `+=`, rebuilt lists,
            # temporaries and conditional expressions all give the same term.
            NP, NN, OP, ON = '_as_list(new).positive', '_as_list(new).negative', '_as_list(old).positive', '_as_list(old).negative'
            oil = [v for a, v in p.decisions if a.text == 'isinstance(old, MatcherList)']
            old_is_list = oil[-1] if oil else None
            cur = {NP: ('cat', [('base', 'NP')]), NN: ('cat', [('base', 'NN')]), OP: ('cat', [('base', 'OP')]), ON: ('cat', [('base', 'ON')])}

            def alg(e_, depth=0):
                """-> ('cat', [segments]); segment = ('base', name) | ('keep', segment) | ('star',) | ('other', text)"""
                if depth > 8:
                    return ('cat', [('other', norm(e_)[:60])])
                if isinstance(e_, ast.Name) and getattr(e_, '_origin', None) is not None:
                    return alg(e_._origin, depth + 1)
                t_ = norm(e_)
                if t_ in cur:
                    return cur[t_]
                # _as_list(m) is m itself when m is a list and MatcherList([m], []) otherwise (checked below): on a path that has decided
                # which of the two `old` is, its lists may be read directly
                if old_is_list is True and t_ in ('old.positive', 'old.negative'):
                    return cur[OP if t_ == 'old.positive' else ON]
                if old_is_list is False and t_ == '[old]':
                    return cur[OP]
                if isinstance(e_, ast.BinOp) and isinstance(e_.op, ast.Add):
                    return ('cat', alg(e_.left, depth + 1)[1] + alg(e_.right, depth + 1)[1])
                if isinstance(e_, ast.List):
                    segs = []
                    for x in e_.elts:
                        segs.append(('star',) if norm(x) == 'AlwaysMatcher(True)' else ('other', norm(x)[:40]))
                    return ('cat', segs)
                if isinstance(e_, ast.ListComp) and len(e_.generators) == 1 and isinstance(e_.generators[0].target, ast.Name) and norm(e_.elt) == e_.generators[0].target.id \
                        and len(e_.generators[0].ifs) == 1:
                    v_ = e_.generators[0].target.id
                    c_ = norm(e_.generators[0].ifs[0])
                    if c_ in ('%s.always() is not True' % v_, 'not %s.always() is True' % v_, 'not (%s.always() is True)' % v_):
                        inner = alg(e_.generators[0].iter, depth + 1)[1]
                        out_ = []
                        for sg in inner:
                            if sg == ('star',):
                                continue            # a literal * does not survive the filter
                            out_.append(sg if sg[0] == 'keep' else ('keep', sg))
                        return ('cat', out_)
                if isinstance(e_, ast.Call) and isinstance(e_.func, ast.Name) and e_.func.id == 'list' and len(e_.args) == 1:
                    return alg(e_.args[0], depth + 1)
                return ('cat', [('other', t_[:60])])
            for e in p.events:
                if e.kind == 'store' and e.target in (NP, NN):
                    cur[e.target] = alg(e.value)
                elif e.kind == 'call' and e.ftext in (NP + '.append', NN + '.append') and e.args:
                    k_ = e.ftext[:-len('.append')]
                    cur[k_] = ('cat', cur[k_][1] + alg(ast.List(elts=[e.args[0]], ctx=ast.Load()))[1])
                elif e.kind == 'call' and e.ftext in (NP + '.extend', NN + '.extend') and e.args:
                    k_ = e.ftext[:-len('.extend')]
                    cur[k_] = ('cat', cur[k_][1] + alg(e.args[0])[1])
            kept = [('keep', ('base', 'NP')), ('keep', ('base', 'OP'))]
            # was the filtered list empty on this path?  (decided by the path: an emptiness test of the alternatives after filtering)
            from .common import nonempty_atom
            empties = []
            for a_, v_ in p.decisions:
                for nm_ in [NP] + sorted({e.target for e in p.events if e.kind == 'bind'}):
                    ne_ = nonempty_atom(a_.text, nm_)
                    if ne_ is not None:
                        empties.append(v_ != ne_)       # True = the list was empty
            if not empties:
                # no explicit test: the filtered list is known element by element on the path (`specific or [*]`)
                kept_elems = [e for e in p.events if e.kind == 'call' and e.ftext == '<listcomp>.append']
                if any(e.kind == 'loop-exit' for e in p.events):
                    empties = [not kept_elems]
            pos = cur[NP][1]
            if empties and empties[-1]:
                want_pos = [kept + [('star',)], [('star',)]]
                why = 'no specific alternative is left: a * alternative stands in'
            else:
                want_pos = [kept]
                why = 'the alternatives are the new ones followed by the old ones, without * alternatives'
            ctx.check(bool(empties) and pos in want_pos, 'C12.4', 'join:alternatives:%s' % ('empty' if empties and empties[-1] else 'specific'), f_join.loc(), why,
                      'join leaves the alternatives as %s (emptiness decided: %s); expected %s' % (pos, empties, want_pos[0]))
            want_neg = [[('base', 'NN'), ('base', 'ON')]] + ([[('base', 'NN')]] if old_is_list is False else [])      # a single old matcher has no exclusions
            ctx.check(cur[NN][1] in want_neg, 'C12.4', 'join:exclusions-kept', f_join.loc(), 'the exclusions are the new ones followed by the old ones: none is dropped',
                      'join leaves the exclusions as %s' % (cur[NN][1],))
    ctx.floor('C12.4', len(jpaths), 4, 'paths of join')
    f_al = repo.func('matcher._as_list')
    for p in paths_of(repo, f_al):
        isl = [v for a, v in p.decisions if a.text == 'isinstance(matcher, MatcherList)']
        rv = norm(p.outcome[1]) if p.outcome[0] == 'return' else None
        want = 'matcher' if (isl and isl[0]) else 'MatcherList([matcher], [])'
        ctx.check(rv == want and bool(isl), 'C12.4', '_as_list:%s' % want, f_al.loc(), '_as_list keeps a list and wraps anything else as its single alternative', '_as_list returns %s' % rv)

    # ---- C12.5 list semantics ---------------------------------------------------------------------------------------
    f_ml = repo.func('MatcherList.matches')
    mp = paths_of(repo, f_ml, unroll=3 if ctx.tier == 'thorough' else 2, bool_returns=True)
    nml = 0
    for p in mp:
        if p.outcome[0] != 'return':
            continue
        pos = [v for a, v in p.decisions if re.match(r'^<elem\d+ of self\.positive>\.matches\(message\)$', a.text)]
        neg = [v for a, v in p.decisions if re.match(r'^<elem\d+ of self\.negative>\.matches\(message\)$', a.text)]
        others = [a.text for a, v in p.decisions if not re.match(r'^<elem\d+ of self\.(positive|negative)>\.matches\(message\)$', a.text)]
        exp = any(pos) and not any(neg)
        rv = p.outcome[1]
        nml += 1
        ok = isinstance(rv, ast.Constant) and rv.value is exp and not others
        # every alternative is consulted until one matches; every exclusion until one matches
        n_pos_iter = sum(1 for e in p.events if e.kind == 'loop-iter' and norm(e.value) == 'self.positive')
        n_neg_iter = sum(1 for e in p.events if e.kind == 'loop-iter' and norm(e.value) == 'self.negative')
        ok = ok and len(pos) == n_pos_iter and len(neg) == n_neg_iter
        if any(pos):
            exits = [e for e in p.events if e.kind in ('loop-exit', 'loop-break') and e.node is not None]
            ok = ok and (any(neg) or any(e.kind == 'loop-exit' and norm(e.value if getattr(e, 'value', None) is not None else e.node.iter) == 'self.negative' for e in p.events))
        else:
            ok = ok and any(e.kind == 'loop-exit' and norm(e.value if getattr(e, 'value', None) is not None else e.node.iter) == 'self.positive' for e in p.events)
        ctx.check(ok, 'C12.5', 'list:some-positive-no-negative', f_ml.loc(),
                  'a list matches iff some alternative matches and no exclusion does (all of them consulted)',
                  'MatcherList.matches returns %s for alternatives %s / exclusions %s (%s)' % (norm(rv), pos, neg, others))
    ctx.floor('C12.5', nml, 9, 'paths of MatcherList.matches')
    # ---- C12.6 simplify never drops (or merges) a non-constant alternative / exclusion ----------------------------------------
    MAP = re.compile(r'^\[(\w+)\.simplify\(\) for \1 in self\.(positive|negative)\]$')
    FLT = re.compile(r'^\[(\w+) for \1 in self\.(positive|negative) if (?:not \1\.always\(\) is False|\1\.always\(\) is not False)\]$')
    # MatcherList.simplify is decided semantically: on every path (lists of up to 2 - thorough: 3 - members, each member's always()
    # verdict decided) what is returned must MEAN the same as the list before: `some alternative and no exclusion`, with a member
    # that is always true / always false standing for true / false and every other member for an unknown of its own.  Members' own
    # simplify() is assumed meaning-preserving (this very obligation, one level down).  Assumption: a member is never its own container,
    # so the calls on members do not rewrite self.positive / self.negative (matchers are built as trees by the parser).
    _check_list_simplify_meaning(ctx, repo)
    for q in ('ArgsMatcherList.simplify',):
        f = repo.func(q)
        ns = 0
        for n in f.body_nodes():
            if isinstance(n, ast.Assign) and isinstance(n.targets[0], ast.Attribute) and norm(n.targets[0]) in ('self.positive', 'self.negative'):
                ns += 1
                which = n.targets[0].attr
                t = norm(expand_new_helper(repo, f, n.value))
                m1, m2 = MAP.match(t), FLT.match(t)
                ok = bool((m1 and m1.group(2) == which) or (m2 and m2.group(2) == which))
                if not ok and which == 'positive' and re.match(r'^\[\w+\]$', t):
                    # collapse to a single always-true alternative
                    par = n._parent
                    ok = isinstance(par, ast.If) and re.match(r'^(\w+)\.always\(\) is True$', norm(par.test)) is not None and t == '[%s]' % norm(par.test).split('.')[0]
                if not ok and which == 'positive':
                    # collapse to always-true alternatives picked out beforehand: N = [p for p in self.positive if p.always() is True]; if N: self.positive = N[-1:]
                    mm = re.match(r'^(?:(\w+)\[-1:\]|(\w+)\[:1\]|\[(\w+)\[-1\]\]|\[(\w+)\[0\]\])$', t)
                    nm = next((g_ for g_ in mm.groups() if g_), None) if mm else None
                    if nm:
                        defs = [x for x in f.body_nodes() if (isinstance(x, ast.Assign) and len(x.targets) == 1 and isinstance(x.targets[0], ast.Name) and x.targets[0].id == nm)
                                or (isinstance(x, ast.NamedExpr) and x.target.id == nm)]
                        sel = len(defs) == 1 and re.match(r'^\[(\w+) for \1 in self\.positive if \1\.always\(\) is True\]$', norm(defs[0].value)) is not None
                        par = n._parent
                        guard = isinstance(par, ast.If) and (norm(par.test) in (nm, 'len(%s) > 0' % nm, '%s != []' % nm) or (isinstance(par.test, ast.NamedExpr) and par.test.target.id == nm))
                        ok = bool(sel) and guard and n in par.body
                ctx.check(ok, 'C12.6', '%s:%s<-%s' % (q, which, t[:60]), f.loc(n),
                          'simplify rewrites %s only by simplifying each element, dropping never-matching constants, or collapsing to a single * alternative' % which,
                          '%s rewrites self.%s as %s: alternatives/exclusions that are not constants can be dropped or merged, so accumulated matchers lose members' % (q, which, t[:100]))
        # rewrites done inside helper methods that did not exist on the pinned tree (inlined on the paths): the same rule on the store events
        own = {id(x) for x in f.body_nodes()}
        seen_ev = set()
        for p in paths_of(repo, f, unroll=1):
            for e in p.events:
                if e.kind == 'store' and e.target in ('self.positive', 'self.negative') and e.node is not None and id(e.node) not in own and id(e.node) not in seen_ev:
                    seen_ev.add(id(e.node))
                    ns += 1
                    which = e.target.split('.')[1]
                    t = norm(e.value)
                    m1, m2 = MAP.match(t), FLT.match(t)
                    ok = bool((m1 and m1.group(2) == which) or (m2 and m2.group(2) == which))
                    ctx.check(ok, 'C12.6', '%s:%s<-%s' % (q, which, t[:60]), f.loc(e.node),
                              'simplify rewrites %s only by simplifying each element or dropping never-matching constants' % which,
                              '%s rewrites self.%s as %s (in a helper): items that are not constants can be dropped or merged' % (q, which, t[:100]))
        ctx.floor('C12.6', ns, 2, 'list rewrites in ' + q)
    # "a matcher that fails to parse is reported as an error and leaves the current one as it was": parse_and_join handles RuntimeError - that
    # the parser signals every rejection with RuntimeError and lets nothing else out is C18.2; its findings are findings here
    from . import c18 as _c18_12
    _cm.lift(ctx, 'C12.1', 'rejection-is-a-RuntimeError', _c18_12, 'C18', ('C18.2',), 'text the matcher parser does not accept must come back as the RuntimeError parse_and_join reports', floor=8, soft=True)

    return ('path enumeration of parse_and_join (with a modelled parse failure), of join and of MatcherList.matches; typestate of the '
            'stored matchers. Decided: %s. Undecided: %s' % ('; '.join(ctx.decided), '; '.join(ctx.undecided)))
