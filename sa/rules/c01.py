"""C01 - every libwayland debug line decodes to exactly the message it denotes (log back end).

Decided statically: the source's own regular expressions against the frozen printer language of
wl_closure_print (automata inclusion / disjointness), the dispatch table of `argument()`, the direction flag and
field provenance of `message()`, separator agreement of the hand-written splitter.
"""
import ast
import re

from ..core import AnalysisError, norm
from ..sim import simulate, truthy_view
from .common import paths_of as paths_of_, effects
from .. import rx

TRUSTED = ['CPython ast / re._parser', 'engine /verif/sa (regex->NFA, product BFS)',
           'frozen printer language of libwayland wl_closure_print 1.18-1.23 (+ patch 0003 tags)']

D = '[0-9]'
ID = '[A-Za-z_][A-Za-z0-9_]*'
P = '[ !#-\\[\\]-~]'        # printable without " and backslash

# kind -> (regex of the printer's rendering, constructor the decoder must produce, is_new flag or None)
KINDS = {
    'int':      ('-?%s+' % D, 'Int', None),
    'uint':     ('%s+' % D, 'Int', None),
    'fixed6':   ('-?%s+[.,]%s{6}' % (D, D), 'Float', None),
    'fixed8':   ('-?%s+\\.%s{8}' % (D, D), 'Float', None),
    'fd':       ('fd %s+' % D, 'Fd', None),
    'string':   ('"%s*"' % P, 'String', None),
    'nil':      ('nil', 'Null', None),
    'array':    ('array', 'Array', None),
    'arrayN':   ('array\\[%s+\\]' % D, 'Array', None),
    'object':   ('%s[@#]%s+' % (ID, D), 'Object', False),
    'new_id':   ('new id (?:%s|\\[unknown\\])[@#]%s+' % (ID, D), 'Object', True),
}
ARG_GROUPS = ['int', 'obj_type', 'obj_id', 'new_type', 'new_id', 'nil', 'str', 'float', 'array', 'fd']
LINE_GROUPS = ['timestamp', 'conn', 'type', 'id', 'message', 'args']

TS = '\\[ *%s+[.,]%s{3}\\]' % (D, D)
QUEUE = '(?: \\{[A-Za-z0-9 _-]+\\})?'
CONN = '(?: <%s+>)?' % D


def line_rx(direction, arg_rx, maxargs):
    if maxargs <= 0:
        args = ''
    else:
        args = '(?:%s(?:, %s){0,%d})?' % (arg_rx, arg_rx, maxargs - 1)
    return TS + QUEUE + CONN + direction + ID + '[@#]' + D + '+\\.' + ID + '\\(' + args + '\\)'


def _participation(pattern, name):
    """Does named group `name` take part in every match of `pattern` (not under ?, *, {0,n} or a branch)?"""
    import re._parser as sp
    from re._constants import SUBPATTERN, BRANCH, MAX_REPEAT, MIN_REPEAT
    parsed = sp.parse(pattern)
    gid = parsed.state.groupdict.get(name)
    if gid is None:
        return None

    def walk(items, optional):
        for op, av in items:
            if op is SUBPATTERN:
                if av[0] == gid:
                    return not optional
                r = walk(av[3], optional)
                if r is not None:
                    return r
            elif op is BRANCH:
                for a in av[1]:
                    r = walk(a, True)
                    if r is not None:
                        return r
            elif op in (MAX_REPEAT, MIN_REPEAT):
                r = walk(av[2], optional or av[0] == 0)
                if r is not None:
                    return r
        return None
    return walk(parsed, False)


def _with_group_empty(pattern, name):
    """Pattern text with the body of (?P<name>...) replaced by the empty string."""
    key = '(?P<%s>' % name
    i = pattern.find(key)
    if i < 0:
        return None
    j = i + len(key)
    depth = 1
    k = j
    in_class = False
    while k < len(pattern) and depth:
        c = pattern[k]
        if c == '\\':
            k += 2
            continue
        if in_class:
            if c == ']':
                in_class = False
        elif c == '[':
            in_class = True
        elif c == '(':
            depth += 1
        elif c == ')':
            depth -= 1
        k += 1
    return pattern[:i] + '(?:)' + pattern[k:]


# groups of the argument pattern that may stay unset on the pinned tree: the type part of an object / new id printed as [unknown]
# (handled by the truthiness rule C01.4)
PINNED_OPTIONAL_GROUPS = {'new_type', 'obj_type'}


def run(ctx):
    repo = ctx.repo
    ctx.decided = ['C01.14 every decoded argument is a fresh object', 'C01.1 arg-accept', 'C01.2 arg-priority', 'C01.3 dispatch-table', 'C01.4 nullable-group truthiness',
                   'C01.5 group inventory', 'C01.6 line-accept', 'C01.7 line-direction', 'C01.8 separator agreement',
                   'C01.10 direction flag', 'C01.11 field provenance', 'C01.12 group order', 'C01.13 every piece decoded in order', 'C01.15 each line is decoded by itself', 'C01.16 pattern table fixed once built']
    ctx.undecided = ['behaviour of the hand-written scanner argument_list_strs/end_of_str on every string',
                     'which substrings the line regex groups bind when a match is ambiguous (beyond C01.7)',
                     'numeric conversion of the matched text (int, float)']
    ctx.assumptions = ['printer language frozen from libwayland src/connection.c 1.18..1.23.1 and patch 0003',
                       'lines are stripped, contain no newline; regexes compiled without flags (checked)']
    pm = repo.modules.get('backends.libwayland_debug_output.parse')
    if pm is None:
        raise AnalysisError('module backends.libwayland_debug_output.parse not found')
    # ---- C01.15 a line is decoded by itself -------------------------------------------------------------------
    # everything below speaks about message(line) for ONE line of the printer's language; that the reader applies it to each line as read -
    # nothing joined on from its neighbours, nothing cut off - is the loop rule of C08.1, evaluated here on the same paths
    from . import c08 as _c08
    _c08.check_decoder_input(ctx, 'C01.15', _c08.parse_all_paths(ctx))
    init = repo.func('WlPatterns.__init__')
    # ---- C01.16 the pattern table is fixed once built ----------------------------------------------------------
    # which pattern a line is tried against may depend on the line only: an attribute of the pattern holder that is stored outside its
    # constructor (a "pattern that matched last time", a cache keyed by nothing) makes the decoding of one line depend on the lines before it
    from .common import _mutable_family
    if init.cls is not None:
        def _singleton_slot(w):
            # the holder's own lazily filled singleton slot: a store of a freshly constructed holder (X.instance = X())
            v = getattr(w.stmt, 'value', None)
            return w.kind == 'store' and isinstance(v, ast.Call) and not v.args and not v.keywords and norm(v.func).split('.')[-1] == init.cls.name
        ws16 = [w for w in _mutable_family(repo, init.cls) if not _singleton_slot(w)]
        for w in ws16:
            ctx.check(False, 'C01.16', 'pattern-table:fixed-once-built:%s' % w.func.qual, w.func.loc(w.stmt), '',
                      'an attribute of %s is written after construction (%s in %s): the pattern a line is decoded with then depends on earlier lines'
                      % (init.cls.name, norm(w.stmt)[:70], w.func.short))
        ctx.check(True, 'C01.16', 'pattern-table:fixed-once-built', init.loc(), 'no attribute of %s is written outside its constructor (%d writes found)' % (init.cls.name, len(ws16)))
    env, pats = rx.fold_strings(init.node)
    f_arg = repo.func('parse.argument')
    f_msg = repo.func('parse.message')

    # which compiled pattern does argument() match with, which does message() search with?
    arg_paths = simulate(repo, f_arg)
    msg_paths = simulate(repo, f_msg)

    def pattern_uses(paths):
        uses = {}
        for p in paths:
            for e in p.events:
                if e.kind == 'call' and e.ftext and re.search(r'\.(match|search|fullmatch)$', e.ftext):
                    m = re.search(r'\.(\w+)\.(match|search|fullmatch)$', e.ftext)
                    if m and m.group(1) in pats:
                        uses[m.group(1)] = m.group(2)
        return uses
    arg_uses = pattern_uses(arg_paths)
    msg_uses = pattern_uses(msg_paths)
    if len(arg_uses) != 1:
        raise AnalysisError('C01: argument() should match exactly one compiled pattern, found %s' % arg_uses)
    arg_attr, arg_mode = next(iter(arg_uses.items()))
    arg_pat = pats[arg_attr][0]
    a0, a1 = rx.anchors(arg_pat)
    site_arg = f_arg.loc()
    site_pat = init.loc(pats[arg_attr][1])
    whole = (arg_mode == 'fullmatch') or (a1 and (a0 or arg_mode == 'match'))
    ctx.check(whole, 'C01.1', 'arg_re anchored', site_pat,
              'argument pattern is matched against the whole argument text (%s, ^=%s $=%s)' % (arg_mode, a0, a1),
              'argument pattern is not anchored to the whole argument: a prefix/substring match decides the kind')
    names = rx.group_names(arg_pat)
    for g in ARG_GROUPS:
        if g not in names:
            raise AnalysisError('C01: argument pattern lost its group %r (anchor vanished)' % g)
    alts = rx.split_alternatives(arg_pat)
    ctx.floor('C01.1', len(alts), 8, 'argument alternatives')
    alt_groups = []
    alt_nfas = []
    for a in alts:
        alt_groups.append(rx.group_names(a))
        alt_nfas.append(rx.regex_nfa(a, 'full'))
        unset_ = rx.groups_possibly_unset(a) - PINNED_OPTIONAL_GROUPS
        if unset_:
            # the dispatch model below knows, per alternative, which groups are set (all of them) and which may be empty; a group that may not
            # take part in the match at all (one branch of a nested alternation, an optional part) is beyond it
            raise AnalysisError('C01: a group of an argument alternative may stay unset in a match (%s in %s): not modelled' % (sorted(unset_), a[:60]))

    # ---- C01.3 dispatch table from the paths of argument() -------------------------------------
    def group_atom(atom):
        """('truthy'|'isnone', group) if the atom tests a group of the argument match."""
        m = re.search(r"\.group\('(\w+)'\)( is None)?$", atom.text)
        if m and ('.%s.' % arg_attr) in atom.text:
            return ('isnone' if m.group(2) else 'truthy', m.group(1))
        m2 = re.search(r"\.%s\.(match|fullmatch|search)\([^()]*\)( is None)?$" % re.escape(arg_attr), atom.text)
        if m2:
            return ('match-isnone' if m2.group(2) else 'match-truthy', None)
        return None

    def ctor_of(path):
        o = path.outcome
        if o[0] != 'return':
            return None, None
        t = norm(o[1])
        m = re.match(r'(?:wl\.)?Arg\.(\w+)\(', t)
        return (m.group(1) if m else None), o[1]

    def dispatch(kind, altidx, can_empty):
        """Set of (ctor, sym, path) reachable when alternative altidx matched a word of the kind."""
        inalt = set(alt_groups[altidx])
        res = []
        for p in arg_paths:
            ok = True
            for atom, v in p.decisions:
                ga = group_atom(atom)
                if ga is None:
                    continue        # unrelated atom (e.g. `not type_name`): both values possible
                k, g = ga
                if k == 'match-truthy':
                    ok &= v is True
                elif k == 'match-isnone':
                    ok &= v is False
                elif g not in inalt:
                    ok &= (v is False) if k == 'truthy' else (v is True)
                else:
                    part = _participation(alts[altidx], g)
                    empt = can_empty.get(g, False)
                    if k == 'truthy':
                        if part and not empt:
                            ok &= v is True
                        # else: may be falsy -> both
                    else:
                        if part:
                            ok &= v is False
                if not ok:
                    break
            if ok:
                c, sym = ctor_of(p)
                res.append((c, sym, p))
        return res

    # ---- C01.14 every decoded argument is an object of its own --------------------------------------------------------
    # Arguments are completed in place later (Arg.*.resolve stores name / type / labels / the resolved object into the argument
    # itself), so an argument object handed out for two lines makes the first line's completion appear on the second.
    inplace = [w for a_ in ('name', 'type', 'labels', 'obj') for w in effects(repo).writers('core.wl.arg.Arg.Base', a_) + effects(repo).writers('core.wl.arg.Arg.Null', a_)
               + effects(repo).writers('core.wl.arg.Arg.Int', a_) + effects(repo).writers('core.wl.arg.Arg.Object', a_) if not w.fresh]
    shared = []
    unknown_ret = []
    n_ret_arg = 0
    for p in arg_paths:
        if p.outcome[0] != 'return':
            continue
        n_ret_arg += 1
        v = p.outcome[1]
        if isinstance(v, ast.Call) and re.match(r'^(?:wl\.)?Arg\.\w+$', norm(v.func)):
            continue
        base = v
        while isinstance(base, (ast.Attribute, ast.Subscript)) or (isinstance(base, ast.Call) and isinstance(base.func, ast.Attribute) and base.func.attr in ('get', 'setdefault', 'pop')):
            base = base.func.value if isinstance(base, ast.Call) else base.value
        if isinstance(base, ast.Name) and (isinstance(v, (ast.Attribute, ast.Subscript)) or isinstance(v, ast.Call)) and v is not base:
            shared.append(p)
        else:
            unknown_ret.append(p)
    if inplace:
        ctx.check(not shared, 'C01.14', 'argument:fresh-object', site_arg, 'every path of argument() returns an argument object constructed on that path',
                  'argument() hands out a stored object (`%s`): arguments are completed in place later (%s), so the name / interface / labels found for one line show up on every later line that gets the same object'
                  % (norm(shared[0].outcome[1])[:80] if shared else '', ', '.join(sorted({w.func.short for w in inplace}))[:120]))
    ctx.floor('C01.14', n_ret_arg, 8, 'returning paths of argument()')
    # ... and nothing the decoder builds a message from may be a memoised (shared) mutable object: object references are completed in
    # place too (set_type for wl_registry.bind, resolve)
    from .common import check_no_memoised_mutables
    check_no_memoised_mutables(ctx, 'C01.14', [repo.func('parse.message')], 'line')
    if unknown_ret and not shared:
        raise AnalysisError('C01: argument() returns %s, which is not an argument constructor call' % norm(unknown_ret[0].outcome[1])[:80])
    arg_paths = [p for p in arg_paths if p not in shared]
    n_disp = 0
    for kind, (krx, want_ctor, is_new) in KINDS.items():
        K = rx.regex_nfa(krx, 'full')
        # alternatives in order: first one intersecting the kind decides
        stolen = []
        accepted_by = None
        for j, A in enumerate(alt_nfas):
            w = rx.intersects(K, A)
            if w is None:
                continue
            cex = rx.included(K, A)
            can_empty = {}
            for g in alt_groups[j]:
                ge = _with_group_empty(alts[j], g)
                if ge is not None and rx.group_min_width(alts[j], g) == 0:
                    can_empty[g] = rx.intersects(K, rx.regex_nfa(ge, 'full')) is not None
            results = dispatch(kind, j, can_empty)
            ctors = {c for c, _, _ in results}
            good = ctors == {want_ctor}
            if good and is_new is not None:
                for c, sym, p in results:
                    flag = sym.args[1] if isinstance(sym, ast.Call) and len(sym.args) > 1 else None
                    for kw in getattr(sym, 'keywords', []):
                        if kw.arg == 'is_new':
                            flag = kw.value
                    if not (isinstance(flag, ast.Constant) and flag.value is is_new):
                        good = False
            if not good:
                # which rule? nullable group truthiness if a falsy in-alternative group causes it
                nullable = [g for g, e in can_empty.items() if e]
                rule = 'C01.4' if (nullable and want_ctor in ctors) else ('C01.2' if cex is not None or accepted_by is None and j < len(alts) else 'C01.3')
                if rule == 'C01.2' and cex is None and want_ctor not in ctors:
                    rule = 'C01.2'
                msg = ('%s rendering %r is taken by alternative #%d (groups %s) and decoded as %s instead of %s'
                       % (kind, w, j, alt_groups[j], sorted(str(c) for c in ctors), want_ctor))
                if rule == 'C01.4':
                    msg = ('%s: group %s can be empty on this kind (e.g. %r) but is tested by truthiness, so the '
                           'argument decodes as %s' % (kind, nullable, '""' if kind == 'string' else w,
                                                       sorted(str(c) for c in ctors - {want_ctor})))
                ctx.violation(rule, '%s:alt%d:%s' % (kind, j, '|'.join(alt_groups[j])), site_pat if rule != 'C01.4' else site_arg,
                              msg, {'kind': kind, 'witness': w, 'alternative': alts[j]})
                accepted_by = j
                break
            n_disp += 1
            if cex is None:
                ctx.ok('C01.1', site_pat, '%s <= alt#%d %s' % (kind, j, alt_groups[j]),
                       'L(%s) included in alternative, dispatch -> Arg.%s%s' % (kind, want_ctor, '' if is_new is None else ' is_new=%s' % is_new))
                for jj in range(j):
                    ctx.ok('C01.2', site_pat, '%s vs alt#%d' % (kind, jj), 'disjoint from earlier alternative')
                accepted_by = j
                break
            # partially accepted by a correct alternative: the rest must be picked up later
            ctx.ok('C01.2', site_pat, '%s ~ alt#%d' % (kind, j), 'partially accepted by an alternative with the right constructor')
            K = None
            # remaining words: conservative - continue with the full kind language but remember a correct partial
            K = rx.regex_nfa(krx, 'full')
            accepted_by = None
            # check the counter-example is accepted by some later alternative with the right ctor
            rest_ok = False
            for j2 in range(j + 1, len(alt_nfas)):
                w2 = rx.intersects(rx.regex_nfa(re.escape(cex), 'full'), alt_nfas[j2])
                if w2 is not None:
                    r2 = dispatch(kind, j2, {})
                    if {c for c, _, _ in r2} == {want_ctor}:
                        rest_ok = True
                    break
            if not rest_ok:
                ctx.violation('C01.1', '%s:not-accepted' % kind, site_pat,
                              '%s rendering %r is not classified as Arg.%s (falls through to Arg.Unknown)' % (kind, cex, want_ctor),
                              {'kind': kind, 'witness': cex})
            accepted_by = j
            break
        if accepted_by is None:
            cexw = rx.nonempty(K)
            ctx.violation('C01.1', '%s:not-accepted' % kind, site_pat,
                          '%s rendering %r matches no alternative of the argument pattern -> Arg.Unknown' % (kind, cexw),
                          {'kind': kind, 'witness': cexw})
    ctx.floor('C01.3', len(arg_paths), 8, 'paths through argument()')

    # ---- C01.3b value provenance of the constructors ---------------------------------------------
    M = r"[\w.]+(?:\(\))?\.%s\.(?:match|fullmatch)\(value_str\)" % re.escape(arg_attr)
    G = lambda g: r"%s\.group\('%s'\)" % (M, g)
    W = r'(?:wl\.)?'
    accept = {
        'Int': r"^%sArg\.Int\(int\((?:value_str|%s)\)\)$" % (W, G('int')),
        'Float': r"^%sArg\.Float\(float\((?:value_str|%s)\.replace\(',', '\.'\)\)\)$" % (W, G('float')),
        'Fd': r"^%sArg\.Fd\(int\(%s\)\)$" % (W, G('fd')),
        'String': r"^%sArg\.String\(%s\)$" % (W, G('str')),
        'Null': r"^%sArg\.Null\(\)$" % W,
        'Array': r"^%sArg\.Array\(\)$" % W,
        'Unknown': r"^%sArg\.Unknown\(value_str\)$" % W,
    }
    obj_pat = r"^%sArg\.Object\(%sUnresolvedObject\(int\(%s\), %s\), False\)$" % (W, W, G('obj_id'), G('obj_type'))
    new_pat = r"^%sArg\.Object\(%sUnresolvedObject\(int\(%s\), (?:%s|None|%s or None)\), True\)$" % (W, W, G('new_id'), G('new_type'), G('new_type'))
    seen_ctor = set()
    for p in arg_paths:
        c, sym = ctor_of(p)
        if c is None:
            ctx.violation('C01.3', 'argument:non-Arg-return', site_arg, 'argument() path returns %s' % p.outcome_text())
            continue
        t = norm(sym)
        if c == 'Object':
            good = bool(re.match(obj_pat, t) or re.match(new_pat, t))
        else:
            good = c in accept and bool(re.match(accept[c], t))
        key = 'value:%s' % c
        if (c, t) in seen_ctor:
            continue
        seen_ctor.add((c, t))
        ctx.check(good, 'C01.3', key, f_arg.loc(p.events[-1].node if p.events else None),
                  'value provenance of Arg.%s: %s' % (c, t[:150]),
                  'Arg.%s is built from %s - not from the text of its own capture group' % (c, t[:200]), stmt=t[:160])

    # ---- C01.5 group inventory -------------------------------------------------------------------
    n_groups = 0
    seen_terms = set()
    for f, paths in ((f_arg, arg_paths), (f_msg, msg_paths)):
        seen = set()
        for p in paths:
            for e in p.events:
                if e.kind == 'call' and e.ftext and e.ftext.endswith('.group'):
                    m = re.search(r'\.(\w+)\.(?:match|search|fullmatch)\(', e.ftext)
                    gnames = [a_.value for a_ in e.args if isinstance(a_, ast.Constant) and isinstance(a_.value, str)]
                    if not m or m.group(1) not in pats or not gnames or len(gnames) != len(e.args):
                        raise AnalysisError('C01.5: cannot attribute %s to a compiled pattern' % e.text)
                    for gname in gnames:
                        k = (m.group(1), gname)
                        if k in seen:
                            continue
                        seen.add(k)
                        n_groups += 1
                        ctx.check(gname in rx.group_names(pats[m.group(1)][0]), 'C01.5', 'group:%s.%s' % k, f.loc(e.node),
                                  "group %r exists in %s" % (gname, m.group(1)),
                                  "match.group(%r) names no group of %s -> IndexError on this branch" % (gname, m.group(1)))
    # group reads written as m['name'] appear in the terms (not as call events): count those as well
    for f, paths in ((f_arg, arg_paths), (f_msg, msg_paths)):
        for p in paths:
            for src in [a.text for a, v in p.decisions] + ([norm(p.outcome[1])] if p.outcome[0] == 'return' else []):
                for pm, gname in re.findall(r"\.(\w+)\.(?:match|search|fullmatch)\([^()]*\)\.group\('(\w+)'\)", src):
                    if pm in pats and (pm, gname, 'term') not in seen_terms:
                        seen_terms.add((pm, gname, 'term'))
                        ctx.check(gname in rx.group_names(pats[pm][0]), 'C01.5', 'group:%s.%s' % (pm, gname), f.loc(), "group %r exists in %s" % (gname, pm),
                                  "match[%r] names no group of %s -> IndexError on this branch" % (gname, pm))
    ctx.floor('C01.5', len({(a_, b_) for a_, b_, _ in seen_terms}) + n_groups, 10, 'match.group() uses')

    # ---- C01.6 / C01.7 / C01.10 line patterns, direction ---------------------------------------
    maxargs = 20 if ctx.tier == 'thorough' else 3
    ARG_ALL = '(?:' + '|'.join(k[0] for k in KINDS.values()) + ')'
    ARG_NOSTR = '(?:' + '|'.join(v[0] for k, v in KINDS.items() if k != 'string') + ')'
    site_msg = f_msg.loc()
    # order of tries in message(): from the paths
    tries = []      # (pattern attr, sent flag) in the order tried
    for p in msg_paths:
        if p.outcome[0] != 'return':
            continue
        rv = p.outcome[1]
        msgcall = None
        for x in ast.walk(rv):
            if isinstance(x, ast.Call) and norm(x.func).endswith('Message'):
                msgcall = x
        if msgcall is None:
            ctx.violation('C01.10', 'message:return-shape', site_msg, 'message() returns %s, not a wl.Message' % norm(rv)[:120])
            continue
        sent = msgcall.args[2] if len(msgcall.args) > 2 else None
        for kw in msgcall.keywords:
            if kw.arg == 'sent':
                sent = kw.value
        used = set(re.findall(r'\.(\w+)\.search\(raw\)\.group', norm(rv)))
        order = []
        for a, v in p.decisions:
            bt, tv = truthy_view(a, v)
            m = re.search(r'\.(\w+)\.search\(raw\)$', bt)
            if m:
                order.append((m.group(1), tv))
        if len(used) != 1:
            ctx.violation('C01.11', 'message:mixed-match', site_msg, 'fields are read from more than one match object: %s' % sorted(used))
            continue
        u = next(iter(used))
        truthy = [n for n, v in order if v]
        ctx.check(truthy == [u] and all(not v for n, v in order if n != u), 'C01.10', 'message:match-used:%s' % u, site_msg,
                  'fields are read from the %s match exactly when it is the first that matched (%s)' % (u, order))
        sent_val = None
        if isinstance(sent, ast.Constant) and isinstance(sent.value, bool):
            sent_val = sent.value
        else:
            # the flag may be a condition that was decided on this path
            from ..sim import eval_bool_sym
            sent_val = eval_bool_sym(sent, {a.text: v for a, v in p.decisions})
        if sent_val is None:
            # `m.re is P` / `m.re is not P` on the match object the fields are read from: a match remembers the pattern that made it
            mre = re.match(r'^(?P<pat>[\w.]+(?:\(\))?\.(?P<a>\w+))\.search\(raw\)\.re (?P<op>is|is not|==|!=) [\w.]+(?:\(\))?\.(?P<b>\w+)$', norm(sent))
            if mre and mre.group('a') in pats and mre.group('b') in pats:
                same = mre.group('a') == mre.group('b')
                sent_val = same if mre.group('op') in ('is', '==') else not same
        if sent_val is None:
            ctx.violation('C01.10', 'message:sent-not-constant', site_msg, 'sent flag is %s on the path using %s' % (norm(sent), u))
            continue
        tries.append(([n for n, _ in order], u, sent_val, msgcall, p))
    # no-match path raises the not-a-message error with the raw line
    def _searches(p):
        return [tv for bt, tv in (truthy_view(a, v) for a, v in p.decisions) if re.search(r'\.search\(raw\)$', bt)]
    nomatch = [p for p in msg_paths if _searches(p) and not any(_searches(p))]
    for p in nomatch:
        good = p.outcome[0] == 'raise' and p.outcome[1] == 'RuntimeError' and len(p.outcome) > 3 \
            and [norm(a) for a in p.outcome[3]] == ['raw']
        ctx.check(good, 'C01.10', 'message:no-match-raises', site_msg, 'no pattern matched -> raise RuntimeError(raw), nothing returned',
                  'a line that matches no pattern is not rejected with RuntimeError(raw): %s' % p.outcome_text())
    ctx.floor('C01.10', len(nomatch), 1, 'no-match path of message()')
    ctx.floor('C01.10', len(tries), 2, 'returning paths of message()')
    # Direction by conditioning the line language on the decisions message() takes (in order) about the raw line.
    for attr, mode in msg_uses.items():
        if mode != 'search':
            raise AnalysisError('C01: line pattern %s used with %s (model expects search)' % (attr, mode))

    def raw_atom(e):
        """('search', attr, polarity) / ('contains', literal, polarity) / None (not about the raw line) for a decide event."""
        t = e.text
        m = re.match(r"^.*\.(\w+)\.search\(raw\)( is None)?$", t)
        if m and m.group(1) in pats:
            return ('search', m.group(1), not m.group(2))
        m = re.match(r"^'((?:[^'\\]|\\.)*)' in raw$", t)
        if m:
            return ('contains', ast.literal_eval("'" + m.group(1) + "'"), True)
        if 'raw' in t and '.group(' not in t and not re.search(r'\(raw\)\.', t):
            raise AnalysisError('C01: message() decides on the raw line with `%s`, which the language model does not cover' % t)
        return None
    lang_nfas = {}
    for a_ in msg_uses:
        lang_nfas[('search', a_)] = rx.regex_nfa(pats[a_][0], 'search')
    for p in msg_paths:
        for e in p.events:
            if e.kind == 'decide':
                ra = raw_atom(e)
                if ra and ra[0] == 'contains' and ('contains', ra[1]) not in lang_nfas:
                    lang_nfas[('contains', ra[1])] = rx.contains_literal_nfa(ra[1])
    for dname, dtext, want_sent in (('sent', '  -> ', True), ('received', ' ', False)):
        for label, argrx in (('no-string-args', ARG_NOSTR), ('with-string-args', ARG_ALL)):
            Ln = rx.regex_nfa(line_rx(dtext, argrx, maxargs), 'full')
            reps = rx.common_partition([Ln] + list(lang_nfas.values()))
            Ld = rx.to_dfa(Ln, reps)
            dfas = {k: rx.to_dfa(v, reps) for k, v in lang_nfas.items()}
            n_feasible = 0
            for p in msg_paths:
                cur = Ld
                for e in p.events:
                    if e.kind != 'decide':
                        continue
                    ra = raw_atom(e)
                    if ra is None:
                        continue
                    d_ = dfas[(ra[0], ra[1])]
                    val = e.value if ra[2] else (not e.value)
                    cur = rx.dfa_and(cur, d_ if val else rx.dfa_not(d_))
                    if rx.dfa_witness(cur) is None:
                        cur = None
                        break
                if cur is None:
                    continue
                w = rx.dfa_witness(cur)
                n_feasible += 1
                if p.outcome[0] != 'return':
                    ctx.violation('C01.6', '%s-line:%s:rejected' % (dname, label), site_msg,
                                  'a %s message line is rejected as not-a-message (%s), e.g. %r' % (dname, p.outcome_text()[:40], w), {'line': w, 'path': p.describe()[:200]})
                    continue
                hit = [t_ for t_ in tries if t_[4] is p]
                if not hit:
                    continue        # shape problems of this path were reported above
                _, attr, sentv, _, _ = hit[0]
                if sentv != want_sent:
                    ctx.violation('C01.7', '%s-line:%s:taken-by:%s' % (dname, label, attr), site_msg,
                                  'a %s line can be matched by %s and is decoded with sent=%s, e.g. %r' % (dname, attr, sentv, w), {'line': w, 'pattern': pats[attr][0]})
                else:
                    ctx.ok('C01.6', site_pat, '%s-line:%s:accepted-by:%s' % (dname, label, attr),
                           'every %s line (<=%d args, both dialects, optional {queue} and <conn>) that takes this path is decoded from %s with sent=%s' % (dname, maxargs, attr, want_sent))
            ctx.check(n_feasible >= 1, 'C01.6', '%s-line:%s:some-path' % (dname, label), site_msg, '%s lines take at least one path through message()' % dname)

    # ---- C01.11 / C01.12 field provenance and group order --------------------------------------
    for order, attr, sentv, call, p in tries:
        pat = pats[attr][0]
        gn = rx.group_names(pat)
        for g in LINE_GROUPS:
            if g not in gn:
                raise AnalysisError('C01: line pattern %s lost its group %r (anchor vanished)' % (attr, g))
        idx = [gn.index(g) for g in LINE_GROUPS]
        # what a group can hold: the connection tag, the interface and the message name are words, the id is digits - a group that can also
        # swallow `>`, blanks or `(` binds text beyond its field on lines whose arguments happen to contain those characters
        for g_, want_ in (('conn', 'word'), ('type', 'word'), ('message', 'word'), ('id', 'digit')):
            alpha_ = rx.group_alphabet(pat, g_)
            if alpha_ is None:
                continue
            ok_ = all((ch.isalnum() or ch == '_') if want_ == 'word' else ch.isdigit() for ch in alpha_)
            ctx.check(ok_, 'C01.12', 'group-alphabet:%s:%s' % (attr, g_), init.loc(pats[attr][1]), 'group %s of %s holds only %s characters' % (g_, attr, want_),
                      'group %s of %s can also hold %s: on a line whose arguments contain such characters it binds text beyond its field' % (g_, attr, sorted(ch for ch in alpha_ if not (ch.isalnum() or ch == '_'))[:6]))
        ctx.check(idx == sorted(idx), 'C01.12', 'group-order:%s' % attr, init.loc(pats[attr][1]),
                  'groups appear as timestamp < conn < type < id < message < args in %s' % attr,
                  'named groups of %s are out of order: %s' % (attr, gn))
        Mx = r"[\w.]+(?:\(\))?\.%s\.search\(raw\)" % re.escape(attr)
        Gx = lambda g: r"%s\.group\('%s'\)" % (Mx, g)
        args = {}
        params = ['abs_time', 'obj', 'sent', 'name', 'args']
        for i, a in enumerate(call.args):
            if i < len(params):
                args[params[i]] = a
        for kw in call.keywords:
            args[kw.arg] = kw.value
        exp = {
            'obj': r"^%sUnresolvedObject\(int\(%s\), %s\)$" % (W, Gx('id'), Gx('type')),
            'name': r"^%s$" % Gx('message'),
            'args': r"^argument_list\([\w.]+(?:\(\))?, %s\)$" % Gx('args'),
        }
        for k, rxp in exp.items():
            t = norm(args.get(k))
            ctx.check(bool(re.match(rxp, t)), 'C01.11', 'field:%s:%s' % (k, attr), site_msg,
                      'Message.%s <- %s' % (k, t[:120]), 'Message.%s is built from %s (expected the %s capture group)' % (k, t[:160], k))
        # connection id: conn group when present else one fixed id
        rv = p.outcome[1]
        conn = rv.elts[0] if isinstance(rv, ast.Tuple) and rv.elts else None
        ct = norm(conn)
        conn_truthy = [v for a, v in p.decisions if re.match(r"^%s$" % Gx('conn'), a.text)] + [not v for a, v in p.decisions if re.match(r"^%s is None$" % Gx('conn'), a.text)]
        orform = re.match(r"^%s or '(\w+)'$" % Gx('conn'), ct)
        if orform:
            good = True         # `group or CONST`: the tag when present (non-empty by the pattern), else one fixed id
        elif conn_truthy and conn_truthy[0]:
            good = bool(re.match(r'^%s$' % Gx('conn'), ct))
        else:
            good = isinstance(conn, ast.Constant) and isinstance(conn.value, str) and conn.value != ''
        ctx.check(good, 'C01.11', 'field:conn:%s:%s' % (attr, bool(conn_truthy and conn_truthy[0])), site_msg,
                  'connection id <- %s' % ct[:100], 'connection id is %s' % ct[:120])
        # timestamp: ms -> s
        t = norm(args.get('abs_time'))
        from .common import ms_to_s_term_ok
        tsok = ms_to_s_term_ok(t, p, Gx('timestamp'))
        ctx.check(tsok, 'C01.9', 'field:abs_time:%s' % attr, site_msg, 'abs_time <- %s (milliseconds -> seconds)' % t[:120],
                  'abs_time is %s: not the timestamp group, comma-normalised, scaled by exactly 1/1000' % t[:160])

    # ---- C01.8 separator agreement in the splitter ------------------------------------------------
    f_split = repo.func('parse.argument_list_strs')
    sep = None
    skip = None
    quote_branch = False
    quote_helpers = []
    lconst = {}
    for n in f_split.body_nodes():
        if isinstance(n, ast.Assign) and len(n.targets) == 1 and isinstance(n.targets[0], ast.Name) and isinstance(n.value, ast.Constant) and isinstance(n.value.value, str):
            lconst[n.targets[0].id] = n.value.value
    for n in f_split.body_nodes():
        if isinstance(n, ast.Call) and isinstance(n.func, ast.Attribute) and n.func.attr == 'startswith' and n.args \
                and (isinstance(n.args[0], ast.Constant) or (isinstance(n.args[0], ast.Name) and n.args[0].id in lconst)):
            sep = n.args[0].value if isinstance(n.args[0], ast.Constant) else lconst[n.args[0].id]
            ifn = n
            while ifn is not None and not isinstance(ifn, ast.If):
                ifn = getattr(ifn, '_parent', None)
            if ifn is not None:
                for s in ifn.body:
                    if isinstance(s, ast.Assign) and isinstance(s.value, ast.BinOp) and isinstance(s.value.op, ast.Add):
                        r = s.value.right
                        if isinstance(r, ast.Constant):
                            skip = r.value
                        elif norm(r).startswith('len('):
                            skip = 'len'
        if isinstance(n, ast.Compare) and len(n.ops) == 1 and isinstance(n.ops[0], ast.Eq) \
                and isinstance(n.comparators[0], ast.Constant) and n.comparators[0].value == '"':
            p_ = n
            while p_ is not None and not isinstance(p_, ast.If):
                p_ = getattr(p_, '_parent', None)
            helpers_called = []
            if p_ is not None:
                for s_ in p_.body:
                    for x in ast.walk(s_):
                        if isinstance(x, ast.Call) and isinstance(x.func, ast.Name):
                            r_ = repo.lookup(f_split.module, x.func.id)
                            if r_ and r_[0] == 'func':
                                helpers_called.append(r_[1])
            if p_ is not None and (helpers_called or any(isinstance(x, (ast.While, ast.For)) for s_ in p_.body for x in ast.walk(s_))):
                quote_helpers.extend(helpers_called)
                inloop = p_
                while inloop is not None and not isinstance(inloop, (ast.While, ast.For)):
                    inloop = getattr(inloop, '_parent', None)
                quote_branch = inloop is not None
    site_split = f_split.loc()
    if sep is None:
        raise AnalysisError('C01.8: the argument splitter is no longer a scan that tests for the separator with startswith(): its separator cannot be read off')
    ctx.check(sep == ', ', 'C01.8', 'splitter:separator', site_split, "splitter separator is ', ' as printed by libwayland",
              'splitter separator is %r, libwayland prints %r' % (sep, ', '))
    ctx.check(skip == 'len' or (sep is not None and skip == len(sep)), 'C01.8', 'splitter:skip', site_split,
              'next argument starts len(separator) after the separator', 'next argument starts %r characters after a %r separator' % (skip, sep))
    ctx.check(quote_branch, 'C01.8', 'splitter:quote-skip', site_split, 'a quoted string is skipped as a unit inside the scan loop',
              'the scan loop no longer skips quoted strings: commas inside strings split arguments')
    # the helper that finds the end of a quoted string (whatever it is called): its scan loop must test for the closing quote
    for f_eos in quote_helpers[:1]:
        stops_at_quote = False
        for n in f_eos.body_nodes():
            if isinstance(n, (ast.While, ast.For)):
                for c in ast.walk(n):
                    if isinstance(c, ast.Compare) and isinstance(c.ops[0], (ast.NotEq, ast.Eq)) and any(isinstance(k_, ast.Constant) and k_.value == '"' for k_ in [c.left] + c.comparators):
                        stops_at_quote = True
        ctx.check(stops_at_quote, 'C01.8', 'end_of_str:stops-at-quote', f_eos.loc(), 'string scan stops at the closing quote')

    # ---- C01.13 every piece is decoded, in order ------------------------------------------------------
    f_al = repo.func('parse.argument_list')
    for p in paths_of_(repo, f_al):
        ok = p.outcome[0] == 'return' and re.match(r'^tuple\([\(\[]argument\(p, (\w+)\) for \1 in argument_list_strs\(args_str\)[\)\]]\)$', norm(p.outcome[1])) is not None
        ctx.check(ok, 'C01.13', 'argument_list:all-in-order', f_al.loc(), 'every piece of the argument text is decoded, in order, into one argument', 'argument_list returns %s' % p.outcome_text()[:120])
    return ('static obligations on the log decoder: automata inclusion/disjointness between the printer language '
            '(11 argument renderings, sent/received lines with up to %d arguments, both dialects, optional tags) and the '
            'regular expressions constant-folded from WlPatterns.__init__; dispatch table, direction flag and field '
            'provenance from path enumeration of argument()/message(). Decided: %s. Undecided: %s'
            % (maxargs, '; '.join(ctx.decided), '; '.join(ctx.undecided)))
