"""C04 - messages are attributed to the right connection; connections are isolated."""
import ast
import re

from ..core import AnalysisError, norm
from ..sim import check_reach, truthy_view
from .common import (effects, paths_of, check_writers, check_callers, arg_by_name, named_call_sites, ctor_sites, wkey)

CM = 'core.connection_manager.ConnectionManager'
CI = 'core.connection_impl.ConnectionImpl'

# idempotent caches of immutable facts / the global time origin (C16): the only shared state the ingestion path may write
ALLOWED_SHARED = {
    ('class:core.wl.message.Message', 'base_time'): 'time origin of the whole session (C16)',
    ('class:backends.libwayland_debug_output.parse.WlPatterns', 'instance'): 'lazily compiled regexes (immutable)',
    ('module:backends.gdb_plugin.extract', 'gdb_fast_access_map'): 'cache of struct field offsets (immutable facts)',
    ('module:backends.gdb_plugin.extract', 'wl_resource_ptr_type'): 'cached gdb type (immutable)',
    ('module:core.util', 'cached_project_root'): 'cached path (immutable)',
}


def _is_fresh_value(v):
    if isinstance(v, (ast.List, ast.Dict, ast.Set, ast.ListComp, ast.DictComp, ast.SetComp, ast.Tuple, ast.Constant)):
        return True
    if isinstance(v, ast.Call):
        return True
    return False


def check_naming(ctx, rule):
    """Connection names come from one counter: drawn once per opened connection, never reused (also used by C14)."""
    repo = ctx.repo
    f_open = repo.func('ConnectionManager.open_connection')
    opaths = paths_of(repo, f_open, asserts='ignore')
    ci_init = repo.func('ConnectionImpl.__init__')
    nn = 0
    for p in opaths:
        if p.outcome[0] == 'raise':
            continue
        nxt = [e for e in p.events if e.kind == 'call' and e.ftext == 'self.connection_name_generator.next']
        ctx.check(len(nxt) == 1, rule, 'open:one-name', f_open.loc(), 'exactly one name is drawn per opened connection',
                  '%d names are drawn on path %s' % (len(nxt), p.describe()[:120]))
        for e in p.events:
            if e.kind == 'call' and e.site is not None and e.site.kind == 'ctor' and e.site.ext.qual == CI:
                nn += 1
                ctx.check(norm(arg_by_name(e, ci_init, 'name')) == 'self.connection_name_generator.next()', rule, 'open:name-from-generator',
                          f_open.loc(e.node), 'the connection is named by the generator', 'connection name is %s' % norm(arg_by_name(e, ci_init, 'name'))[:80])
                ctx.check(norm(arg_by_name(e, ci_init, 'time')) == 'time' and norm(arg_by_name(e, ci_init, 'is_server')) == 'is_server',
                          rule, 'open:args', f_open.loc(e.node), 'time and role are passed through unmodified')
    ctx.floor(rule, nn, 1, 'ConnectionImpl construction in open_connection')
    LG = 'core.letter_id_generator.LetterIdGenerator'
    check_writers(ctx, rule, LG, 'index', [('LetterIdGenerator.__init__', lambda w: w.fresh and isinstance(w.stmt.value, ast.Constant) and w.stmt.value.value == 0),
                                               ('LetterIdGenerator.next', None)], floor=2)     # the stored value is decided on the paths below
    f_next = repo.func('LetterIdGenerator.next')
    for p in paths_of(repo, f_next):
        aug = [e for e in p.events if e.kind == 'store' and e.target == 'self.index']
        rv = p.outcome[1] if p.outcome[0] == 'return' else None

        def lin_(x):
            """(coefficient of the counter's value BEFORE the increment, constant) of an arithmetic term over self.index"""
            if isinstance(x, ast.Constant) and isinstance(x.value, int) and not isinstance(x.value, bool):
                return (0, x.value)
            if isinstance(x, ast.Attribute) and norm(x) == 'self.index':
                return (1, 0) if getattr(x, '_ep', 99) < aug[0].ep else (1, 1)      # read after the store: already incremented
            if isinstance(x, ast.BinOp) and isinstance(x.op, (ast.Add, ast.Sub)):
                l_, r_ = lin_(x.left), lin_(x.right)
                if l_ is None or r_ is None:
                    return None
                sg = 1 if isinstance(x.op, ast.Add) else -1
                return (l_[0] + sg * r_[0], l_[1] + sg * r_[1])
            return None
        ctx.check(len(aug) == 1 and aug[0].value is not None and lin_(aug[0].value) == (1, 1), rule, 'next:increments-by-one', f_next.loc(),
                  'next() advances the counter by exactly one, once', 'next() stores %s into the counter' % [norm(a.value)[:60] if a.value is not None else '?' for a in aug])
        good = False
        f_n2l = repo.func('number_to_letter_id')
        if isinstance(rv, ast.Call) and norm(rv.func) == 'number_to_letter_id' and len(aug) == 1:
            a0, a1 = arg_by_name(rv, f_n2l, 'value'), arg_by_name(rv, f_n2l, 'caps')
            good = a0 is not None and a1 is not None and lin_(a0) == (1, 0) and norm(a1) == 'True'
        ctx.check(good, rule, 'next:pre-increment', f_next.loc(), 'next() converts the value read before the increment, with capitals',
                  'next() returns %s' % norm(rv)[:80])
    f_name = repo.func('ConnectionImpl.name')
    for p in paths_of(repo, f_name):
        ctx.check(p.outcome[0] == 'return' and norm(p.outcome[1]) == 'self._name', rule, 'name:returns-stored', f_name.loc(), 'name() returns the stored name')
    check_writers(ctx, rule, CI, '_name', [('ConnectionImpl.__init__', lambda w: w.fresh and norm(w.stmt.value) == 'name')], floor=1)



def run(ctx):
    repo = ctx.repo
    cg = repo.callgraph()
    ef = effects(repo)
    ctx.decided = ['C04.1 no shared mutable state', 'C04.2 routing', 'C04.3 naming', 'C04.4 reopen = new connection',
                   'C04.5 close once', 'C04.6 log back end open/message/close discipline', 'C04.7 tag -> id (see C01.11)', 'C04.8 GDB back end opens / closes by address (C15.2)']
    ctx.undecided = ['independence from interleaving as an observable equality (follows from C04.1 + C02/C03, not separately checked)']
    ctx.assumptions = ['the single Controller (UI) is shared by design; its state is covered by C06/C11/C16']
    f_msg = repo.func('ConnectionManager.message')
    f_open = repo.func('ConnectionManager.open_connection')
    f_close = repo.func('ConnectionManager.close_connection')
    f_parse_all = repo.func('Parser.parse_all')
    f_handle = repo.func('Parser.handle_message')
    roots = [f_msg, f_open, f_close, f_parse_all, f_handle]
    pm = repo.try_func('Plugin.process_message')
    if pm is not None:
        roots.append(pm)

    # ---- C04.1 (a) shared writes of the ingestion closure -------------------------------------------
    ws = ef.closure_writes(roots)
    shared = [w for w in ws if any(o.startswith('module:') or o.startswith('class:') for o in w.owners)]
    seen = set()
    for w in shared:
        owners = [o for o in w.owners if o.startswith('module:') or o.startswith('class:')]
        k = (owners[0], w.attr)
        ok = any((o, w.attr) in ALLOWED_SHARED for o in owners)
        key = 'shared-write:%s.%s:%s' % (owners[0], w.attr, w.func.qual)
        if key in seen:
            continue
        seen.add(key)
        ctx.check(ok, 'C04.1', key, w.loc(), 'write to shared state %s.%s is a confirmed idempotent cache / the time origin' % k,
                  'the ingestion path writes shared (module / class level) state %s.%s in %s: state leaks between connections'
                  % (k[0], k[1], w.func.short), stmt=norm(w.stmt)[:120])
    ctx.floor('C04.1', len(seen), 2, 'shared writes on the ingestion closure (time origin, regex cache)')
    # (b) class-level containers and mutable defaults on the closure
    closure = cg.closure(roots)
    classes = {f.cls for f in closure if f.cls is not None}
    nca = 0
    for c in sorted(classes, key=lambda c: c.qual):
        for name, val in c.class_attrs.items():
            nca += 1
            mutable = isinstance(val, (ast.List, ast.Dict, ast.Set, ast.ListComp, ast.DictComp, ast.SetComp)) or \
                (isinstance(val, ast.Call) and norm(val.func) in ('list', 'dict', 'set', 'OrderedDict', 'defaultdict'))
            if mutable and not [w for w in ef.writers(c.qual, name) if not (w.func.is_module_body or w.func is c.module.body_func)] \
                    and not [w for w in ef.writers('class:' + c.qual, name)]:
                mutable = False         # a class-level table that nothing ever writes to or mutates is a constant, not shared state
            ctx.check(not mutable, 'C04.1', 'class-attr:%s.%s' % (c.qual, name), '%s:%s %s' % (c.module.relpath, c.node.lineno, c.name),
                      'class attribute %s.%s is not a shared container' % (c.name, name),
                      'class-level container %s.%s = %s is shared by all instances (all connections)' % (c.name, name, norm(val)[:60]))
    nd = 0
    for f in sorted(closure, key=lambda f: f.qual):
        if f.is_module_body:
            continue
        for d in f.node.args.defaults + [d for d in f.node.args.kw_defaults if d is not None]:
            nd += 1
            mutable = isinstance(d, (ast.List, ast.Dict, ast.Set)) or (isinstance(d, ast.Call) and norm(d.func) not in ('tuple', 'frozenset'))
            ctx.check(not mutable, 'C04.1', 'default:%s:%s' % (f.qual, norm(d)[:40]), f.loc(), 'default argument is immutable',
                      'mutable default argument %s in %s is shared between calls' % (norm(d)[:60], f.short))
    # containers of the per-connection classes are created fresh in __init__
    for cq in (CI, CM, 'backends.libwayland_debug_output.parse.Parser'):
        c = repo.cls(cq)
        init = c.methods.get('__init__')
        if init is None:
            raise AnalysisError('%s has no __init__' % cq)
        mutated = set()
        for f, wl_ in ef.by_func.items():
            for w in wl_:
                if w.kind in ('mutate', 'substore', 'subdel') and (c.qual in w.owners):
                    mutated.add(w.attr)
        for attr in sorted(mutated):
            inits = [w for w in ef.by_func[init] if w.attr == attr and w.kind == 'store' and w.fresh]
            good = bool(inits) and all(_is_fresh_value(w.stmt.value) and not isinstance(w.stmt.value, ast.Name) for w in inits)
            ctx.check(good, 'C04.1', 'fresh-container:%s.%s' % (c.name, attr), init.loc(),
                      'container %s.%s is created fresh per instance in __init__' % (c.name, attr),
                      'container %s.%s is not created fresh in __init__ (%s)' % (c.name, attr, [norm(w.stmt)[:60] for w in inits]))
    # a fresh ConnectionImpl is built per open_connection
    opaths = paths_of(repo, f_open, asserts='ignore')

    # ---- C04.2 routing ----------------------------------------------------------------------------------
    mpaths = paths_of(repo, f_msg, asserts='ignore')
    nr = 0
    for p in mpaths:
        for e in p.events:
            if e.kind == 'call' and e.ftext and e.ftext.endswith('.message'):
                nr += 1
                ctx.check(norm(e.recv) in ('self.open_connections.get(connection_id)', 'self.open_connections[connection_id]')
                          and e.argtext(0) == 'message', 'C04.2', 'route:by-id', f_msg.loc(e.node),
                          'the message goes, unmodified, to the open connection registered under its connection id',
                          'message is routed as %s' % e.text[:120])
    ctx.floor('C04.2', nr, 1, 'forwarding call in ConnectionManager.message')
    ctx.check(all(any(e.kind == 'call' and e.ftext and e.ftext.endswith('.message') for e in p.events) for p in mpaths if p.outcome[0] != 'raise'),
              'C04.2', 'route:always', f_msg.loc(), 'every normal path forwards the message')

    check_naming(ctx, 'C04.3')

    # ---- C04.4 reopen = new connection -------------------------------------------------------------------
    for p in opaths:
        if p.outcome[0] == 'raise':
            continue
        idx_close = [i for i, e in enumerate(p.events) if e.kind == 'call' and e.ftext == 'self.close_connection']
        idx_store = [i for i, e in enumerate(p.events) if e.kind == 'store' and e.target == 'self.open_connections[connection_id]']
        idx_app = [i for i, e in enumerate(p.events) if e.kind == 'call' and e.ftext == 'self.connection_list.append']
        good = len(idx_close) == 1 and len(idx_store) == 1 and idx_close[0] < idx_store[0] \
            and [norm(a) for a in p.events[idx_close[0]].args] == ['time', 'connection_id']
        ctx.check(good, 'C04.4', 'open:closes-previous-first', f_open.loc(),
                  'a previous connection under the same id is closed before the new one is registered',
                  'open_connection does not close the previous holder of the id first (%s)' % p.describe()[:120])
        if idx_store:
            v = p.events[idx_store[0]].value
            fresh = isinstance(v, ast.Call) and norm(v.func).split('.')[-1] == 'ConnectionImpl'
            ctx.check(fresh, 'C04.4', 'open:fresh-connection', f_open.loc(), 'the registered connection is a fresh ConnectionImpl',
                      'the id is bound to %s' % norm(v)[:80])
            ctx.check(len(idx_app) == 1 and norm(p.events[idx_app[0]].args[0]) == norm(v), 'C04.4', 'open:listed', f_open.loc(),
                      'the new connection is appended to the list of all connections')
            ctx.check(p.outcome[0] == 'return' and norm(p.outcome[1]) == norm(v), 'C04.4', 'open:returns-it', f_open.loc(), 'open_connection returns the new connection')
            lst = [e for e in p.events if e.kind == 'call' and e.ftext == 'self.listener.connection_opened']
            ctx.check(len(lst) == 1 and norm(lst[0].args[1]) == norm(v) if lst else False, 'C04.4', 'open:announced-once', f_open.loc(),
                      'the new connection is announced to the listeners exactly once')
    check_writers(ctx, 'C04.4', CM, 'connection_list', [('ConnectionManager.__init__', lambda w: w.fresh),
                                                        ('ConnectionManager.open_connection', lambda w: w.kind == 'mutate' and w.via == 'append')], floor=2)
    check_writers(ctx, 'C04.4', CM, 'open_connections', [('ConnectionManager.__init__', lambda w: w.fresh),
                                                         ('ConnectionManager.open_connection', lambda w: w.kind == 'substore'),
                                                         ('ConnectionManager.close_connection', lambda w: w.kind == 'subdel' or (w.kind == 'mutate' and w.via == 'pop'))], floor=3)
    f_conns = repo.func('ConnectionManager.connections')
    for p in paths_of(repo, f_conns):
        ctx.check(p.outcome[0] == 'return' and norm(p.outcome[1]) == 'tuple(self.connection_list)', 'C04.4', 'connections:all-listed', f_conns.loc(),
                  'connections() returns all connections, open and closed, in creation order')

    # ---- C04.5 close once ----------------------------------------------------------------------------------
    f_ciclose = repo.func('ConnectionImpl.close')
    callers = cg.callers_of(f_ciclose)
    for f, s in callers:
        ctx.check(f is f_close, 'C04.5', 'close:caller:%s' % f.qual, f.loc(s.node), 'ConnectionImpl.close is called by ConnectionManager.close_connection',
                  'ConnectionImpl.close is also called from %s: a connection can be reported closed twice' % f.short)
    ctx.floor('C04.5', len(callers), 1, 'caller of ConnectionImpl.close')
    cpaths = paths_of(repo, f_close)

    def m_close(a):
        bt, tv = truthy_view(a, True)
        if bt in ('self.open_connections.get(connection_id)', 'self.open_connections.pop(connection_id, None)',
                  'self.open_connections.get(connection_id, None)'):
            return ('open', tv)
        if a.text == 'connection_id in self.open_connections':
            return ('open', True)
        return None
    is_close = lambda e: e.kind == 'call' and e.ftext and e.ftext.endswith('.close')
    probs = check_reach(cpaths, is_close, m_close, lambda F: F['open'], universe=['open'])
    ctx.check(not probs, 'C04.5', 'close_connection:close-iff-open', f_close.loc(),
              'close() is reached iff the id names an open connection (unknown ids are tolerated)',
              'close() reached=%s in scenario %s' % ((probs[0][2], probs[0][1]) if probs else ('', '')))
    nc = 0
    for p in cpaths:
        for i, e in enumerate(p.events):
            if is_close(e):
                nc += 1
                dels = [j for j, x in enumerate(p.events) if x.kind == 'del' and x.target == 'self.open_connections[connection_id]']
                pops = [j for j, x in enumerate(p.events) if x.kind == 'call' and x.ftext == 'self.open_connections.pop']
                ctx.check(bool(dels and dels[0] < i) or bool(pops and pops[0] <= i), 'C04.5', 'close_connection:unregister-first', f_close.loc(e.node),
                          'the id is removed from the open table before the connection is closed (so it is closed once)',
                          'the connection is closed while its id stays registered')
                ctx.check(norm(e.recv) in ('self.open_connections.get(connection_id)', 'self.open_connections.pop(connection_id, None)', 'self.open_connections.pop(connection_id)',
                                           'self.open_connections[connection_id]')
                          and e.argtext(0) == 'time', 'C04.5', 'close_connection:closes-that-one', f_close.loc(e.node),
                          'the connection closed is the one registered under the id', 'closes %s' % e.text[:80])
    ctx.floor('C04.5', nc, 1, 'close() call in close_connection')
    for p in cpaths:
        k = sum(1 for e in p.events if is_close(e))
        ctx.check(k <= 1, 'C04.5', 'close_connection:at-most-once', f_close.loc(), 'a connection is closed at most once per close_connection',
                  'close() is called %d times on one path' % k)
    check_writers(ctx, 'C04.5', CI, 'open', [('ConnectionImpl.__init__', lambda w: w.fresh), ('ConnectionImpl.close', lambda w: isinstance(w.stmt.value, ast.Constant) and w.stmt.value.value is False)], floor=2)
    for p in paths_of(repo, f_ciclose):
        cl = [e for e in p.events if e.kind == 'call' and e.ftext == 'self.listener.connection_closed']
        ctx.check(len(cl) == 1 and cl[0].argtext(0) == 'self', 'C04.5', 'close:notifies-once', f_ciclose.loc(), 'close() notifies connection_closed exactly once')

    # ---- C04.6 log back end -----------------------------------------------------------------------------------
    hpaths = paths_of(repo, f_handle)

    def m_known(a):
        if a.text == 'conn_id in self.known_connections':
            return ('known', True)
        return None
    is_open = lambda e: e.kind == 'call' and e.ftext == 'self.sink.open_connection'
    # "remember the id": any way of putting conn_id into the collection of known connections (set / list / dict)
    is_add = lambda e: (e.kind == 'call' and e.ftext in ('self.known_connections.add', 'self.known_connections.append', 'self.known_connections.setdefault')) \
        or (e.kind == 'store' and e.target == 'self.known_connections[conn_id]')
    is_fwd = lambda e: e.kind == 'call' and e.ftext == 'self.sink.message'
    for nm, pred in (('open_connection', is_open), ('known_connections.add', is_add)):
        probs = check_reach(hpaths, pred, m_known, lambda F: not F['known'], universe=['known'])
        ctx.check(not probs, 'C04.6', 'handle:%s-iff-new' % nm, f_handle.loc(), '%s is reached iff the connection id is new' % nm,
                  '%s reached=%s when known=%s' % ((nm, probs[0][2], probs[0][1]) if probs else ('', '', '')))
    nf = 0
    for p in hpaths:
        if p.outcome[0] == 'raise':
            continue
        fw = [i for i, e in enumerate(p.events) if is_fwd(e)]
        op = [i for i, e in enumerate(p.events) if is_open(e)]
        ad = [i for i, e in enumerate(p.events) if is_add(e)]
        ctx.check(len(fw) == 1 and all(i < fw[0] for i in op + ad), 'C04.6', 'handle:forward-once-after-open', f_handle.loc(),
                  'the message is forwarded exactly once, after the connection was opened',
                  'forwarding happens %d time(s) / before opening on path %s' % (len(fw), p.describe()[:120]))
        for i in fw:
            nf += 1
            e = p.events[i]
            ctx.check([norm(a) for a in e.args] == ['conn_id', 'msg'], 'C04.6', 'handle:forward-args', f_handle.loc(e.node),
                      'forwarded under its own connection id, unmodified', 'forwarded as %s' % e.text[:80])
        for i in ad:
            ctx.check(p.events[i].kind == 'store' or p.events[i].argtext(0) == 'conn_id', 'C04.6', 'handle:remembers-id', f_handle.loc(p.events[i].node), 'the new id is remembered')
        for i in op:
            e = p.events[i]
            reg = [v for a, v in p.decisions if a.text == "'get_registry' == msg.name"]
            role = e.argtext(2)
            want = 'not msg.sent' if (reg and reg[0]) else 'None'
            t0 = e.argtext(0)
            if t0 == 'self.last_time':
                st = [x for x in p.events[:i] if x.kind == 'store' and x.target == 'self.last_time']
                if st and norm(st[-1].value) == 'msg.timestamp':
                    t0 = 'msg.timestamp'
            ctx.check(t0 == 'msg.timestamp' and e.argtext(1) == 'conn_id' and role == want and bool(reg), 'C04.6',
                      'handle:open-args:%s' % want, f_handle.loc(e.node),
                      'opened with the message time, its id, and role %s' % want, 'opened as %s (registry-first=%s)' % (e.text[:100], reg))
    ctx.floor('C04.6', nf, 2, 'forwarding paths of handle_message')
    f_cleanup = repo.func('Parser.cleanup')
    ncl = 0
    for p in paths_of(repo, f_cleanup):
        for e in p.events:
            if e.kind == 'call' and e.ftext == 'self.sink.close_connection':
                ncl += 1
                ctx.check(bool(re.match(r'^<elem\d+ of (?:sorted\(|list\(|tuple\()?self\.known_connections(?:\.keys\(\))?\)?>$|^<elem\d+ of (?:sorted\(|list\()?self\.known_connections\.items\(\)\)?>\[0\]$', e.argtext(1))), 'C04.6',
                          'cleanup:closes-each-known', f_cleanup.loc(e.node), 'cleanup closes every known connection id', 'cleanup calls %s' % e.text[:100])
    ctx.floor('C04.6', ncl, 1, 'close_connection in cleanup')
    for p in paths_of(repo, f_cleanup):
        iters = sum(1 for e in p.events if e.kind == 'loop-iter')
        closes = sum(1 for e in p.events if e.kind == 'call' and e.ftext == 'self.sink.close_connection')
        early = any(e.kind == 'loop-break' for e in p.events) or (p.outcome[0] == 'return' and any(e.kind == 'return' and e.loops for e in p.events))
        ctx.check(iters == closes and not early, 'C04.6', 'cleanup:all-of-them', f_cleanup.loc(),
                  'every iteration over the known ids closes one connection and the loop is never left early',
                  'cleanup leaves the loop early or skips an id (%d iterations, %d closes)' % (iters, closes))
    f_into = repo.func('parse.into_sink')
    for p in paths_of(repo, f_into):
        names = [e.ftext.split('.')[-1] for e in p.events if e.kind == 'call' and e.ftext and e.ftext.split('.')[-1] in ('parse_all', 'cleanup')]
        ctx.check(names == ['parse_all', 'cleanup'], 'C04.6', 'into_sink:parse-then-cleanup', f_into.loc(), 'into_sink parses everything, then closes the connections',
                  'into_sink runs %s' % names)
    check_writers(ctx, 'C04.6', 'backends.libwayland_debug_output.parse.Parser', 'known_connections',
                  [('Parser.__init__', lambda w: w.fresh),
                   ('Parser.handle_message', lambda w: (w.kind == 'mutate' and w.via in ('add', 'append', 'setdefault')) or (w.kind == 'substore' and norm(w.stmt.targets[0]) == 'self.known_connections[conn_id]'))], floor=2)
    # ---- C04.7 tag -> id ------------------------------------------------------------------------------------------------------
    # a line goes to the connection its <tag> names: the tag is what the `conn` group of the line patterns binds and what message() hands on as
    # the connection id (C01.11 field provenance, C01.12 what the group can hold) - the findings of C01 about that group are findings here
    from . import common as _cm47, c01 as _c01_47
    _cm47.lift(ctx, 'C04.7', 'tag-is-the-connection-id', _c01_47, 'C01', ('C01.11', 'C01.12'), 'a line must be attributed to the connection its tag names',
               key_filter=lambda k: 'conn' in k, floor=2, soft=True)

    # ---- C04.8 the GDB back end ----------------------------------------------------------------------------------------------
    # in GDB mode the connections are opened, given their role and closed by the plugin: that it opens one on first sight, with the role taken
    # from that connection's own first message and nothing remembered from another connection, and forgets the address when the connection is
    # destroyed, is C15.2; its findings are findings here (a GDB-less tree has no such back end: nothing to lift)
    if repo.try_func('Plugin.process_message') is not None:
        from . import common as _cm4, c15 as _c15
        _cm4.lift(ctx, 'C04.8', 'gdb-back-end-opens-and-closes', _c15, 'C15', ('C15.2',), 'a connection\'s identity and role come from its own address and first message', floor=0, soft=True)

    return ('effect closure of the ingestion path (no shared mutable state), scenario evaluation of open/close/route, writer '
            'enumeration of the connection tables. Decided: %s. Undecided: %s' % ('; '.join(ctx.decided), '; '.join(ctx.undecided)))
