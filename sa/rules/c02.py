"""C02 - every object mention is attributed to the right incarnation of its id.

Inductive invariant shown by writer enumeration: db[k] only grows, db[k][g] has id k and generation g, every
resolution returns db[id][-1]."""
import ast
import re

from ..core import AnalysisError, norm
from ..sim import check_reach, truthy_view
from .common import (dtext, effects, paths_of, check_writers, check_callers, ctor_sites, arg_by_name, named_call_sites,
                     call_sites_of, wkey)

CI = 'core.connection_impl.ConnectionImpl'
OB = 'core.wl.object.ObjectBase'


def _db_uses(ctx):
    """Escape analysis for ConnectionImpl.db and its value lists (C02.1)."""
    repo = ctx.repo
    ci = repo.cls(CI)
    n = 0
    for f in repo.all_funcs():
        aliases = {}
        for node in f.body_nodes():
            if not (isinstance(node, ast.Attribute) and node.attr == 'db'):
                continue
            owners = {t[1] for t in repo.expr_types(f, node.value) if t[0] == 'inst'}
            if owners and not any(o.is_subclass_of(ci) or ci.is_subclass_of(o) for o in owners):
                continue
            n += 1
            ok, why = _classify_use(f, node, 0)
            ctx.check(ok, 'C02.1', 'db-use:%s:%s' % (f.qual, why if not ok else norm(getattr(node, '_parent', node))[:60]),
                      f.loc(node), 'object table use is encapsulated (%s)' % why,
                      'the object table (or one of its id lists) escapes or is used in an unconfirmed way: %s' % why,
                      stmt=norm(_stmt(node))[:120])
    ctx.floor('C02.1', n, 3, 'uses of ConnectionImpl.db')


def _stmt(n):
    while n is not None and not isinstance(n, ast.stmt):
        n = getattr(n, '_parent', None)
    return n


def _enclosing_func_nodes(node):
    n = node
    while n is not None and not isinstance(n, (ast.FunctionDef, ast.AsyncFunctionDef)):
        n = getattr(n, '_parent', None)
    return n


def _classify_use(f, node, level):
    """node evaluates to the table (level 0) or one id list (level 1).  Returns (ok, description)."""
    p = getattr(node, '_parent', None)
    what = 'table' if level == 0 else 'id list'
    if isinstance(p, ast.Subscript) and p.value is node:
        if isinstance(p.ctx, ast.Store):
            return True, '%s[k] = ... (writer, checked separately)' % what
        if isinstance(p.ctx, ast.Del):
            return True, 'del %s[k] (writer, checked separately)' % what
        if level == 0:
            return _classify_use(f, p, 1)
        return True, 'element read %s' % norm(p)
    if isinstance(p, ast.Compare) and node in p.comparators and isinstance(p.ops[0], (ast.In, ast.NotIn)):
        return True, 'membership test'
    if isinstance(p, ast.Call) and node in p.args and isinstance(p.func, ast.Name) and p.func.id == 'len':
        return True, 'len()'
    if isinstance(p, ast.Attribute) and p.value is node and isinstance(getattr(p, '_parent', None), ast.Call) \
            and p._parent.func is p:
        return True, 'method call .%s() (mutators checked separately)' % p.attr
    if isinstance(p, (ast.Assign, ast.AnnAssign)) and (node in getattr(p, 'targets', []) or getattr(p, 'target', None) is node):
        return True, 'assignment of the table attribute (writer, checked separately)'
    if isinstance(p, ast.Assign) and p.value is node and len(p.targets) == 1 and isinstance(p.targets[0], ast.Name):
        # local alias: every use of the alias must itself be fine
        name = p.targets[0].id
        fn = _enclosing_func_nodes(node)
        for x in ast.walk(fn):
            if isinstance(x, ast.Name) and x.id == name and isinstance(x.ctx, ast.Load):
                ok, why = _classify_use(f, x, level)
                if not ok:
                    return False, 'alias %s: %s' % (name, why)
        return True, 'local alias %s with encapsulated uses' % name
    if isinstance(p, ast.Return):
        return False, 'the %s is returned from %s' % (what, f.short)
    if isinstance(p, ast.Call) and node in p.args and isinstance(p.func, ast.Name) and not p.keywords \
            and p.func.id in ('sorted', 'list', 'tuple', 'set', 'frozenset', 'reversed', 'enumerate', 'min', 'max', 'any', 'all', 'iter'):
        # a builtin that reads: of the table it sees the ids only, of an id list it builds a fresh container - the table's own lists stay inside
        return True, '%s() of the %s (read only)' % (p.func.id, what)
    if isinstance(p, ast.Call) and node in p.args and isinstance(p.func, ast.Attribute) and p.func.attr == 'extend' and isinstance(p.func.value, ast.Name) and level == 1:
        # some_local_list.extend(id_list): the elements are copied into another list, the table's own list stays inside
        return True, 'copied into %s (read only)' % p.func.value.id
    if isinstance(p, ast.Call):
        return False, 'the %s is passed to %s' % (what, norm(p.func))
    if isinstance(p, (ast.For, ast.comprehension)) and p.iter is node:
        return True, 'iteration (read only)'
    return False, 'the %s is used in %s' % (what, norm(p)[:80])


def cdb(t):
    """canonical spelling of object-table terms: d.get(k) and d.setdefault(k, []) name the same entry as d[k]"""
    from .c03 import cdb as _cdb
    return _cdb(t)


def run(ctx):
    repo = ctx.repo
    cg = repo.callgraph()
    ctx.decided = ['C02.1 table writers', 'C02.2 index = generation', 'C02.3 latest lookup', 'C02.4 who creates',
                   'C02.5 no retyping / relabelling', 'C02.6 order inside Message.resolve', 'C02.7 label = f(id, generation)',
                   'C02.8 creation arguments', 'C02.9 the table lives as long as its connection (C04.6)']
    ctx.undecided = ['monotonicity / bijectivity of number_to_letter_id (arithmetic, see C14)']
    ctx.assumptions = ['no monkey-patching (checked: no setattr/exec/__dict__ outside the disseminator generator)',
                       'histories are well-formed as in the property quantifier']
    ci = repo.cls(CI)
    f_init = ci.methods.get('__init__')
    f_create = repo.func('ConnectionImpl.create_object')
    f_retr = repo.func('ConnectionImpl.retrieve_object')
    ro = repo.cls('core.wl.object.ResolvedObject')
    ro_init = ro.find_method('__init__')

    # ---- C02.1 writers of the object table ------------------------------------------------------
    def empty_list_store(w):
        st = w.stmt
        if not (w.kind == 'substore' and isinstance(st, ast.Assign)):
            return False
        v = st.value
        if isinstance(v, ast.Name):
            # a local that was bound to a fresh empty list (the store-iff-absent obligation below still applies)
            defs = [n.value for n in w.func.body_nodes() if isinstance(n, ast.Assign) and any(isinstance(t, ast.Name) and t.id == v.id for t in n.targets)]
            fresh = [d for d in defs if isinstance(d, ast.List) and not d.elts]
            reads = [d for d in defs if re.match(r'^self\.db(\.get\(\w+\)|\[\w+\])$', norm(d))]
            return bool(fresh) and len(fresh) + len(reads) == len(defs)
        return isinstance(v, ast.List) and not v.elts

    def append_only(w):
        return w.kind == 'mutate' and w.via == 'append'
    check_writers(ctx, 'C02.1', CI, 'db', [('ConnectionImpl.__init__', lambda w: w.kind == 'store' and w.fresh),
                                           ('ConnectionImpl.create_object', empty_list_store),
                                           ('ConnectionImpl.create_object', append_only),
                                           ('ConnectionImpl.create_object', lambda w: w.kind == 'mutate' and w.via == 'setdefault' and re.search(r'self\.db\.setdefault\(\w+, \[\]\)', norm(w.stmt)) is not None)], floor=2)
    _db_uses(ctx)
    cpaths = paths_of(repo, f_create)
    # the empty-list store happens only when the id is absent
    def m_in_db(a):
        t = cdb(a.text)
        if re.match(r'^(\w+) in self\.db$', t) or re.match(r'^self\.db\[\w+\]$', t):
            return ('present', True)
        if re.match(r'^self\.db\[\w+\] is None$', t):
            return ('present', False)
        return None
    explicit_store = any(e.kind == 'store' and e.target and re.match(r'^self\.db\[\w+\]$', e.target) for p in cpaths for e in p.events)
    by_setdefault = any(e.kind == 'call' and e.ftext == 'self.db.setdefault' and len(e.args) == 2 and norm(e.args[1]) == '[]' for p in cpaths for e in p.events)
    if by_setdefault and not explicit_store:
        probs = []      # dict.setdefault(k, []) creates the empty list exactly when k is absent - by construction
    else:
        probs = check_reach(cpaths, lambda e: e.kind == 'store' and e.target and re.match(r'^self\.db\[\w+\]$', e.target),
                            m_in_db, lambda F: (not F['present']) if F.get('guard_ok', True) else None, universe=['present'],
                            ignore_raise=True)
    ctx.check(not probs, 'C02.1', 'create_object:new-list-iff-absent', f_create.loc(),
              'self.db[k] = [] is reached exactly when k is not yet in the table (so an id list is never reset)',
              'self.db[k] = [] can run although k is present (an id list is reset, incarnations are lost): %s'
              % (probs[0][0].describe()[:200] if probs else ''))

    # the liveness test create_object relies on ("client ids are reused only after their delete_id") is the destroy flag
    from .c03 import check_alive_flag, check_delete_id
    check_alive_flag(ctx, 'C02.1')
    check_delete_id(ctx, 'C02.3', 'C02.3')
    # "server-range ids are reused freely, client ids only after their delete_id": the reuse discipline of create_object and the
    # server range constant are C03 obligations that this property depends on - their findings are findings here too
    from ..report import Ctx as _Ctx
    from . import c03 as _c03
    sub = _Ctx('C03', repo, tier=ctx.tier, quiet=True)
    _c03.run(sub)
    for v in sub.violations:
        if v['rule'] in ('C03.2', 'C03.4', 'C03.5'):
            ctx.violation('C02.1', 'reuse-discipline:%s:%s' % (v['rule'], v['key']), v['site'], 'attribution to the latest incarnation rests on %s: %s' % (v['rule'], v['msg']), v['witness'])
    ctx.ok('C02.1', f_create.loc(), 'reuse-discipline', 'reuse discipline of create_object and the server id range evaluated (C03.2/4/5, %d obligations)' % len([o for o in sub.obligations if o['rule'] in ('C03.2', 'C03.4', 'C03.5')]))
    # ---- C02.2 index = generation ---------------------------------------------------------------
    n_app = 0
    for p in cpaths:
        for e in p.events:
            if e.kind == 'call' and e.ftext and re.match(r'^self\.db\[(\w+)\]\.append$', cdb(e.ftext)):
                k = re.match(r'^self\.db\[(\w+)\]\.append$', cdb(e.ftext)).group(1)
                n_app += 1
                v = e.args[0] if e.args else None
                site = f_create.loc(e.node)
                if not (isinstance(v, ast.Call) and norm(v.func).split('.')[-1] == 'ResolvedObject'):
                    ctx.violation('C02.2', 'append:not-ResolvedObject', site, 'appended value is %s, not a fresh ResolvedObject' % norm(v)[:100])
                    continue
                gen = arg_by_name(v, ro_init, 'generation')
                oid = arg_by_name(v, ro_init, 'obj_id')
                conn = arg_by_name(v, ro_init, 'conn')
                gtxt = cdb(norm(gen))
                good_gen = gtxt == 'len(self.db[%s])' % k
                # no mutation of the table between the len() and the append
                if good_gen:
                    len_ev = [x for x in p.events if x.kind == 'call' and cdb(x.text) == gtxt and p.events.index(x) < p.events.index(e)]
                    if len_ev:
                        between = p.events[p.events.index(len_ev[-1]) + 1:p.events.index(e)]
                        for b in between:
                            if (b.kind in ('store', 'del', 'aug') and b.target and b.target.startswith('self.db')) or \
                                    (b.kind == 'call' and b.ftext and cdb(b.ftext).startswith('self.db[') and b.ftext.split('.')[-1] in
                                     ('append', 'pop', 'insert', 'remove', 'clear', 'extend', 'sort', 'reverse')):
                                good_gen = False
                if gtxt == 'len(self.db[%s]) - 1' % k:
                    # accepted equivalent: append first, then len - 1 (cannot happen for a constructor argument)
                    good_gen = False
                ctx.check(good_gen, 'C02.2', 'append:generation', site,
                          'appended object has generation = len(db[k]) evaluated immediately before the append',
                          'appended object has generation %s (index of the new element is len(self.db[%s]))' % (gtxt, k), stmt=e.text[:140])
                ctx.check(norm(oid) == k, 'C02.2', 'append:id', site, 'appended object has id = the key of its list',
                          'object with id %s is appended to the list of id %s' % (norm(oid), k))
                ctx.check(norm(conn) == 'self', 'C02.2', 'append:conn', site, 'appended object belongs to this connection',
                          'appended object has connection %s' % norm(conn))
                # the method returns the appended object
                if p.outcome[0] == 'return':
                    ctx.check(cdb(norm(p.outcome[1])) == cdb(norm(v)), 'C02.2', 'create:returns-appended', site,
                              'create_object returns the object it appended')
    ctx.floor('C02.2', n_app, 3, 'paths of create_object that append')
    # seed
    if f_init is None:
        raise AnalysisError('ConnectionImpl.__init__ not found')
    seed_ok = False
    seed_txt = ''
    for p in paths_of(repo, f_init):
        for e in p.events:
            if e.kind == 'store' and e.target == 'self.db':
                v = e.value
                seed_txt = norm(v)
                if isinstance(v, ast.Dict) and len(v.keys) == 1 and isinstance(v.keys[0], ast.Constant) and v.keys[0].value == 1 \
                        and isinstance(v.values[0], ast.List) and len(v.values[0].elts) == 1:
                    o = v.values[0].elts[0]
                    if isinstance(o, ast.Call) and norm(o.func).split('.')[-1] == 'ResolvedObject':
                        g = arg_by_name(o, ro_init, 'generation')
                        i = arg_by_name(o, ro_init, 'obj_id')
                        t = arg_by_name(o, ro_init, 'type_name')
                        c = arg_by_name(o, ro_init, 'conn')
                        seed_ok = (norm(g) == '0' and norm(i) == '1' and norm(t) == "'wl_display'" and norm(c) == 'self')
    ctx.check(seed_ok, 'C02.2', 'seed:display', f_init.loc(), 'table is seeded with {1: [wl_display id 1 generation 0]}',
              'table seed is %s' % seed_txt[:160])
    # wl_display() returns that object
    f_disp = repo.func('ConnectionImpl.wl_display')
    dp = paths_of(repo, f_disp)
    ctx.check(all(p.outcome[0] == 'return' and norm(p.outcome[1]) == 'self.display' for p in dp), 'C02.2', 'wl_display:returns-seed',
              f_disp.loc(), 'wl_display() returns the seeded display object')
    check_writers(ctx, 'C02.2', CI, 'display', [('ConnectionImpl.__init__', lambda w: w.fresh)], floor=1)

    # ---- C02.3 latest lookup --------------------------------------------------------------------
    sites = named_call_sites(repo, 'retrieve_object')
    for f, n in sites:
        g = n.args[1] if len(n.args) > 1 else None
        for kw in n.keywords:
            if kw.arg == 'generation':
                g = kw.value
        ok, val = False, None
        if isinstance(g, ast.Name) and g.id not in f.params() and not any(isinstance(x, ast.Name) and x.id == g.id and isinstance(x.ctx, ast.Store) for x in f.body_nodes()):
            r_ = repo.lookup(f.module, g.id)       # a module-level constant
            if r_ and r_[0] == 'var' and r_[1] is not None:
                g = r_[1]
        try:
            val = ast.literal_eval(g)
            ok = val == -1
        except Exception:
            pass
        ctx.check(ok, 'C02.3', 'retrieve:generation:%s' % f.qual, f.loc(n), 'mention resolved to the latest incarnation (generation -1)',
                  'retrieve_object is asked for generation %s instead of -1 (the latest incarnation)' % norm(g), stmt=norm(n)[:100])
    ctx.floor('C02.3', len(sites), 2, 'retrieve_object call sites')
    rpaths = paths_of(repo, f_retr, may_raise=None)
    rets = [p for p in rpaths if p.outcome[0] == 'return']
    ctx.floor('C02.3', len(rets), 1, 'returning paths of retrieve_object')
    for p in rets:
        ctx.check(norm(p.outcome[1]) == 'self.db[id][generation]', 'C02.3', 'retrieve:index', f_retr.loc(),
                  'retrieve_object returns self.db[id][generation] with both parameters unmodified',
                  'retrieve_object returns %s' % norm(p.outcome[1])[:120])

    # the lookup fails (leaving the mention unresolved) exactly on a real interface mismatch
    def m_ty(a):
        if a.text == 'type_name is None':
            return ('asked', False)
        if a.text == 'self.db[id][generation].type is None':
            return ('typed', False)
        if a.text == 'str_matcher(type_name).matches(self.db[id][generation].type)':
            return ('same', True)
        return None
    probs = check_reach(rpaths, lambda e: e.kind == 'raise', m_ty, lambda F: F['asked'] and F['typed'] and not F['same'], universe=['asked', 'typed', 'same'])
    ctx.check(not probs, 'C02.3', 'retrieve:type-mismatch-only', f_retr.loc(), 'a lookup is refused iff an interface was asked for, the entry has one, and they differ',
              'retrieve_object raises=%s in scenario %s' % ((probs[0][2], probs[0][1]) if probs else ('', '')))
    # ---- C02.4 who creates -----------------------------------------------------------------------
    cs = ctor_sites(repo, ro)
    for f, s in cs:
        ctx.check(f.cls is ci, 'C02.4', 'ctor:ResolvedObject:%s' % f.qual, f.loc(s.node), 'ResolvedObject constructed inside ConnectionImpl',
                  'ResolvedObject is constructed in %s, outside the object table owner' % f.short)
    ctx.floor('C02.4', len(cs), 2, 'ResolvedObject constructor sites')
    check_callers(ctx, 'C02.4', 'create_object', {'Object.resolve'}, floor=1)
    f_ares = repo.func('Arg.Object.resolve')
    apaths = paths_of(repo, f_ares, asserts='ignore')

    def m_ares(a):
        bt, tv = truthy_view(a, True)
        if a.text == 'self.obj.resolved()':
            return ('resolved', True)
        if a.text == 'self.is_new':
            return ('is_new', True)
        if a.text == 'self.obj.type is None':
            return ('untyped', True)
        return None
    probs = check_reach(apaths, lambda e: e.calls('create_object'), m_ares,
                        lambda F: (not F['resolved']) and F['is_new'] and not F['untyped'], universe=['resolved', 'is_new', 'untyped'])
    ctx.check(not probs, 'C02.4', 'Object.resolve:create-iff', f_ares.loc(),
              'create_object is reached iff the argument is an unresolved new id with a known type',
              'create_object reached=%s in scenario %s' % ((probs[0][2], probs[0][1]) if probs else ('', '')))
    # back ends construct only UnresolvedObject
    ob = repo.cls(OB)
    nb = 0
    for c in [ob] + repo.subclasses(ob):
        for f, s in ctor_sites(repo, c):
            if f.module.name.startswith('backends.'):
                nb += 1
                ctx.check(c.name == 'UnresolvedObject', 'C02.4', 'backend-ctor:%s:%s' % (c.name, f.qual), f.loc(s.node),
                          'back end constructs only UnresolvedObject', 'back end %s constructs %s directly' % (f.short, c.name))
    ctx.floor('C02.4', nb, 3, 'object constructor sites in back ends')

    # ---- C02.5 no retyping / relabelling ----------------------------------------------------------
    for attr in ('id', 'generation', 'connection'):
        check_writers(ctx, 'C02.5', OB, attr, [('__init__', lambda w: w.fresh)], floor=1)
    check_writers(ctx, 'C02.5', OB, 'type', [('__init__', lambda w: w.fresh), ('Object.set_type', lambda w: w.kind == 'store')], floor=4)
    f_st = repo.func('Arg.Object.set_type')
    spaths = paths_of(repo, f_st)

    def m_st(a):
        if a.text == 'self.obj.resolved()':
            return ('resolved', True)
        if a.text == 'self.obj.type is None':
            return ('untyped', True)
        return None
    probs = check_reach(spaths, lambda e: e.kind == 'store' and e.target == 'self.obj.type', m_st,
                        lambda F: (not F['resolved']) and F['untyped'], universe=['resolved', 'untyped'])
    ctx.check(not probs, 'C02.5', 'set_type:guard', f_st.loc(), 'set_type stores only into an unresolved object without a type',
              'set_type can overwrite the type of an object that %s' % (probs[0][1] if probs else ''))
    for p in spaths:
        for e in p.events:
            if e.kind == 'store' and e.target == 'self.obj.type':
                ctx.check(norm(e.value) == 'new_type', 'C02.5', 'set_type:value', f_st.loc(e.node), 'set_type stores its parameter unmodified',
                          'set_type stores %s' % norm(e.value))
    check_callers(ctx, 'C02.5', 'set_type', {'Message.resolve'}, floor=1)
    f_mres = repo.func('message.Message.resolve')
    mpaths = paths_of(repo, f_mres, asserts='ignore', unroll=1)

    def m_bind(a):
        if a.text in ("'wl_registry' == self.obj.type", "'wl_registry' == self.obj.resolve(conn).type"):
            return ('registry', True)
        if a.text == "'bind' == self.name":
            return ('bind', True)
        return None
    probs = check_reach(mpaths, lambda e: e.calls('set_type'), m_bind, lambda F: F['registry'] and F['bind'],
                        universe=['registry', 'bind'])
    ctx.check(not probs, 'C02.5', 'Message.resolve:set_type-iff-bind', f_mres.loc(),
              'set_type is reached iff the message is wl_registry.bind', 'set_type reached=%s in scenario %s'
              % ((probs[0][2], probs[0][1]) if probs else ('', '')))
    nst = 0
    for p in mpaths:
        for e in p.events:
            if e.calls('set_type'):
                nst += 1
                ctx.check(norm(e.recv) == 'self.args[3]' and e.argtext(0) == 'self.args[1].value', 'C02.5', 'bind:args', f_mres.loc(e.node),
                          'bind types its new-id argument (args[3]) with the interface-name argument (args[1].value)',
                          'bind typing is %s' % e.text[:120])
    ctx.floor('C02.5', nst, 1, 'set_type call on the bind path')

    # ---- C02.6 order inside Message.resolve -------------------------------------------------------
    n_loop = 0
    for p in mpaths:
        if p.outcome[0] == 'raise':
            continue
        idx_target = None
        idx_settype = None
        idx_destroy = None
        idx_args = []
        for i, e in enumerate(p.events):
            if e.kind == 'store' and e.target == 'self.obj':
                idx_target = i
            if e.calls('set_type'):
                idx_settype = i
            if e.kind == 'call' and e.ftext and e.ftext.endswith('.destroy'):
                idx_destroy = i
            if e.kind == 'call' and e.ftext and e.ftext.endswith('.resolve') and len(e.args) == 3:
                idx_args.append((i, e))
        for i, e in idx_args:
            n_loop += 1
            ok = all(x is None or x < i for x in (idx_target, idx_settype, idx_destroy))
            ctx.check(ok, 'C02.6', 'resolve:order', f_mres.loc(e.node),
                      'target resolution, bind typing and delete_id handling precede argument resolution',
                      'an argument is resolved before the target/bind/delete_id step on path %s' % p.describe()[:200])
            m = re.match(r'^<elem(\d+) of self\.args>$', norm(e.recv))
            good = bool(m) and e.argtext(0) == 'conn' and e.argtext(1) == 'self' and e.argtext(2) == (m.group(1) if m else '')   # element k with index k
            ctx.check(good, 'C02.6', 'resolve:arg-loop', f_mres.loc(e.node),
                      'every argument is resolved with (conn, this message, its own position)',
                      'argument loop calls %s' % e.text[:140])
        # the target is resolved only when unresolved, to obj.resolve(conn)
    ctx.floor('C02.6', n_loop, 1, 'argument resolution calls')
    tprobs = check_reach(mpaths, lambda e: e.kind == 'store' and e.target == 'self.obj',
                         lambda a: ('resolved', True) if a.text == 'self.obj.resolved()' else None,
                         lambda F: not F['resolved'], universe=['resolved'])
    ctx.check(not tprobs, 'C02.6', 'resolve:target-iff-unresolved', f_mres.loc(), 'the target is resolved iff it is unresolved')
    for p in mpaths:
        for e in p.events:
            if e.kind == 'store' and e.target == 'self.obj':
                ctx.check(norm(e.value) == 'self.obj.resolve(conn)', 'C02.6', 'resolve:target-value', f_mres.loc(e.node),
                          'target <- self.obj.resolve(conn)', 'target is replaced by %s' % norm(e.value)[:100])

    # ---- C02.7 label ------------------------------------------------------------------------------
    f_ids = repo.func('ObjectBase.id_str')
    ip = paths_of(repo, f_ids)
    nl = 0
    for p in ip:
        gen_none = [v for a, v in p.decisions if a.text == 'self.generation is None']
        if gen_none and not gen_none[0] and p.outcome[0] == 'return':
            nl += 1
            t = dtext(p.outcome[1])
            ctx.check('str(self.id)' in t and 'number_to_letter_id(self.generation, False)' in t, 'C02.7', 'id_str:label', f_ids.loc(),
                      'label is built from self.id and number_to_letter_id(self.generation, False)', 'label is %s' % t[:160])
    ctx.floor('C02.7', nl, 1, 'labelled path of id_str')

    # ---- C02.8 creation arguments -----------------------------------------------------------------
    nc = 0
    for p in apaths:
        for e in p.events:
            if e.calls('create_object'):
                nc += 1
                want = {'time': 'message.timestamp', 'obj_id': 'self.obj.id', 'type_name': 'self.obj.type'}
                got = {k: norm(arg_by_name(e, f_create, k)) for k in want}
                ctx.check(got == want, 'C02.8', 'create:args', f_ares.loc(e.node),
                          'create_object(time=message.timestamp, obj_id=self.obj.id, type_name=self.obj.type)',
                          'create_object is called with %s' % got)
        # after the new-id branch the argument is re-bound to the table entry
        resolved = [v for a, v in p.decisions if a.text == 'self.obj.resolved()']
        if resolved and not resolved[0] and p.outcome[0] != 'raise':
            stores = [e for e in p.events if e.kind == 'store' and e.target == 'self.obj']
            ctx.check(bool(stores) and norm(stores[-1].value) == 'self.obj.resolve(conn)', 'C02.8', 'Object.resolve:rebinds', f_ares.loc(),
                      'an unresolved object argument is re-bound to the resolution result on every normal path',
                      'path %s leaves the argument unresolved' % p.describe()[:200])
    ctx.floor('C02.8', nc, 1, 'create_object call')
    f_ures = repo.func('UnresolvedObject.resolve')
    up = paths_of(repo, f_ures, asserts='ignore')
    nr = 0
    for p in up:
        for e in p.events:
            if e.calls('retrieve_object'):
                nr += 1
                ctx.check([norm(a) for a in e.args] == ['self.id', '-1', 'self.type'], 'C02.8', 'UnresolvedObject.resolve:lookup', f_ures.loc(e.node),
                          'looks up (self.id, -1, self.type)', 'looks up %s' % e.text[:100])
        if p.outcome[0] == 'return' and not any(e.kind == 'handler' for e in p.events):
            ctx.check(norm(p.outcome[1]) == 'conn.retrieve_object(self.id, -1, self.type)', 'C02.8', 'UnresolvedObject.resolve:returns', f_ures.loc(),
                      'returns the table entry it looked up', 'returns %s' % norm(p.outcome[1])[:100])
    ctx.floor('C02.8', nr, 1, 'retrieve_object call in UnresolvedObject.resolve')

    # ---- C02.9 the table lives as long as its connection ------------------------------------------------------------------
    # incarnations are counted per connection: a connection that is closed and re-opened in mid-history (or whose messages go to another one)
    # starts counting again.  That the log back end opens a connection once, forwards every message of its tag to it and closes it only when
    # the input has ended is C04.6; its findings are findings here.
    from . import common as _cm2, c04 as _c04
    _cm2.lift(ctx, 'C02.9', 'table-lives-as-long-as-the-connection', _c04, 'C04', ('C04.6',), 'the object table of a connection must persist for the whole history of its tag', floor=6, soft=True)

    return ('inductive invariant over all histories by writer enumeration: db[k] append-only, db[k][g].generation == g and '
            '.id == k, lookups use index -1; creation only from new-id arguments, typing only via wl_registry.bind. '
            'Decided: %s. Undecided: %s' % ('; '.join(ctx.decided), '; '.join(ctx.undecided)))
