"""C17 - colour is presentation only."""
import ast
import re

from ..core import AnalysisError, norm
from .. import rx
from .common import (effects, paths_of, check_writers, arg_by_name, named_call_sites)

ESC = '\x1b'
CODE_RE = re.compile(r'^[\d;]*$')
DISPLAY_CALLS = {'color', 'command_format', 'to_str', 'type_str', 'id_str', 'value_to_str', '_connection_get_type_str'}


def _flatten_add(sym):
    if isinstance(sym, ast.BinOp) and isinstance(sym.op, ast.Add):
        return _flatten_add(sym.left) + _flatten_add(sym.right)
    if isinstance(sym, ast.Call) and isinstance(sym.func, ast.Attribute) and sym.func.attr == 'join' and isinstance(sym.func.value, ast.Constant) \
            and sym.func.value.value == '' and len(sym.args) == 1 and not sym.keywords:
        # ''.join(parts) of a list known element by element on this path is the concatenation of the parts
        from ..sim import _literal_elts
        elts = _literal_elts(sym.args[0])
        if elts is not None:
            out = []
            for x in elts:
                out += _flatten_add(x)
            return out
    if isinstance(sym, ast.Call) and isinstance(sym.func, ast.Attribute) and sym.func.attr == 'format' and isinstance(sym.func.value, ast.Constant) \
            and isinstance(sym.func.value.value, str) and not sym.keywords and re.fullmatch(r'(?:\{\})+', sym.func.value.value) and len(sym.args) == sym.func.value.value.count('{}'):
        out = []        # '{}{}'.format(a, b) is str(a) + str(b)
        for x in sym.args:
            out += _flatten_add(x)
        return out
    return [sym]


STRING_OPS = {'strip', 'lstrip', 'rstrip', 'split', 'rsplit', 'startswith', 'endswith', 'lower', 'upper', 'partition', 'find', 'index', 'replace'}


def sanitiser_first(repo, f):
    """(number of string operations on the text parameter, events where the parameter is operated on before no_color)."""
    pname = [a for a in f.params() if a != 'self'][0]
    nops = 0
    bad = []
    seen = set()
    for p in paths_of(repo, f, asserts='ignore'):
        for e in p.events:
            operand = None
            if e.kind == 'call' and isinstance(e.node, ast.Call) and isinstance(e.node.func, ast.Attribute) and e.node.func.attr in STRING_OPS and e.recv is not None:
                operand = e.recv
            elif e.kind == 'call' and e.ftext in ('re.split', 're.match', 're.search', 're.findall') and len(e.args) > 1:
                operand = e.args[1]
            elif e.kind == 'load-sub':
                operand = e.recv
            elif e.kind == 'decide' and e.extra is not None and isinstance(e.extra.sym, ast.Compare):
                operand = e.extra.sym
            if operand is None:
                continue
            if not any(isinstance(x, ast.Name) and x.id == pname for x in ast.walk(operand)):
                continue
            nops += 1
            ok = True

            def walk(n_, under):
                nonlocal ok
                if isinstance(n_, ast.Call) and isinstance(n_.func, ast.Name) and n_.func.id == 'no_color':
                    under = True
                if isinstance(n_, ast.Name) and n_.id == pname and not under:
                    ok = False
                for c in ast.iter_child_nodes(n_):
                    walk(c, under)
            walk(operand, False)
            if not ok and id(e.node) not in seen:
                seen.add(id(e.node))
                bad.append(e)
    return nops, bad


def _private_constant(repo, mod, lit, users):
    """lit is (part of) the value of a module-level `NAME = ...` of `mod` and NAME is loaded only inside `users`."""
    name = None
    for st in mod.tree.body:
        if isinstance(st, (ast.Assign, ast.AnnAssign)) and any(x is lit for x in ast.walk(st)):
            tg = st.targets if isinstance(st, ast.Assign) else [st.target]
            if len(tg) == 1 and isinstance(tg[0], ast.Name):
                name = tg[0].id
    if name is None:
        return False
    n_loads = 0
    for g in repo.all_funcs():
        for x in g.body_nodes():
            hit = False
            if isinstance(x, ast.Name) and x.id == name and isinstance(x.ctx, ast.Load):
                r = repo.lookup(g.module, name)
                hit = bool(r and r[0] == 'var' and r[3] is mod)
            elif isinstance(x, ast.Attribute) and x.attr == name and isinstance(x.ctx, ast.Load):
                hit = True
            if hit:
                n_loads += 1
                if g not in users:
                    return False
    return True         # read only by the users - or by nobody (e.g. a hoisted compiled pattern whose uses are seen in place)


def run(ctx):
    repo = ctx.repo
    ef = effects(repo)
    ctx.decided = ['C17.1 single emitter of escape sequences, one switch', 'C17.2 shape of color()', 'C17.3 every emitted sequence is strippable by no_color',
                   'C17.4 no layout computed from coloured text', 'C17.5 pasted coloured text is stripped before it is tokenised', 'C17.6 coloured text is never kept (no memoised or stored rendering)']
    ctx.undecided = ['escape sequences that arrive in the input and are passed through']
    um = repo.modules['core.util']
    f_color = repo.func('util.color')
    f_noc = repo.func('util.no_color')
    # ---- C17.1 -----------------------------------------------------------------------------------------------
    nesc = 0
    for f in repo.all_funcs():
        for n in f.body_nodes():
            if isinstance(n, ast.Constant) and isinstance(n.value, str) and (ESC in n.value or '\\x1b' in n.value or '\\033' in n.value or '\\e[' in n.value):
                nesc += 1
                if f.module is um and f.name == '<module>' and _private_constant(repo, um, n, (f_color, f_noc)):
                    # a module-level constant read only by color()/no_color(): the same spelling, hoisted
                    ctx.check(True, 'C17.1', 'esc-literal:%s:private-constant' % f.qual, f.loc(n), 'escape-sequence constant used only by color()/no_color()')
                    continue
                ctx.check(f is f_color or f is f_noc, 'C17.1', 'esc-literal:%s' % f.qual, f.loc(n), 'escape sequences are spelled only inside color()/no_color()',
                          'an escape sequence is emitted outside color(): %r in %s (printed even with colour disabled / not strippable)' % (n.value[:20], f.short))
    ctx.floor('C17.1', nesc, 2, 'ESC literals')
    reads = []
    for f in repo.all_funcs():
        for n in f.body_nodes():
            if isinstance(n, ast.Name) and n.id == 'color_output' and isinstance(n.ctx, ast.Load):
                r = repo.lookup(f.module, 'color_output')
                if r and r[0] == 'var' and r[3] is um:
                    reads.append((f, n))
            if isinstance(n, ast.Attribute) and n.attr == 'color_output' and isinstance(n.ctx, ast.Load):
                reads.append((f, n))
    # (a read inside a logging argument, or inside a freshly added accessor / __repr__, counts for the places that use the result)
    from . import common as _cmn17
    reads = [(g_, n) for f, n in reads for g_ in _cmn17.effective_readers(repo, f, n)]
    for f, n in reads:
        ctx.check(f is f_color, 'C17.1', 'switch-read:%s' % f.qual, f.loc(n), 'the colour switch is read only by color()', 'the colour switch is also read in %s' % f.short)
    ctx.floor('C17.1', len(reads), 1, 'reads of color_output')
    check_writers(ctx, 'C17.1', 'module:core.util', 'color_output', [('<module>', None), ('set_color_output', lambda w: norm(w.stmt.value) == 'val')], floor=2)

    # ---- C17.2 -----------------------------------------------------------------------------------------------
    cpaths = paths_of(repo, f_color)
    ncp = 0
    for p in cpaths:
        if p.outcome[0] != 'return':
            ctx.violation('C17.2', 'color:no-return', f_color.loc(), 'color() does not return on path %s' % p.describe()[:100])
            continue
        facts = {a.text: v for a, v in p.decisions}
        empty = facts.get("'' == str(string)")
        truthy = facts.get('str(string)')
        if empty is False and truthy is False or (empty is True and truthy is True):
            continue
        on = facts.get('color_output')
        parts = [x for x in _flatten_add(p.outcome[1]) if not (isinstance(x, ast.Constant) and x.value == '')]
        texts = [x for x in parts if norm(x) == 'str(string)']
        escs = []
        other = []
        i = 0
        while i < len(parts):
            x = parts[i]
            if isinstance(x, ast.Constant) and isinstance(x.value, str) and x.value.startswith(ESC):
                if x.value == ESC + '[' and i + 2 < len(parts) and norm(parts[i + 1]) == 'color' and isinstance(parts[i + 2], ast.Constant) and parts[i + 2].value == 'm':
                    escs.append('code')
                    i += 3
                    continue
                escs.append(x.value)
            elif norm(x) != 'str(string)':
                other.append(norm(x))
            i += 1
        ncp += 1
        if empty:
            ctx.check(not parts or [norm(x) for x in parts] == ['str(string)'], 'C17.2', 'color:empty-text', f_color.loc(), 'empty text yields the empty string (no stray escape sequence)', 'empty text yields %s' % norm(p.outcome[1]))
            continue
        ctx.check(len(texts) == 1 and not other, 'C17.2', 'color:text-once:%s' % on, f_color.loc(), 'the result contains the text exactly once and nothing else but escape sequences',
                  'color() returns %s' % norm(p.outcome[1])[:120])
        if on is False or on is None and not escs:
            ctx.check(not escs, 'C17.2', 'color:off-no-esc', f_color.loc(), 'with colour disabled the result is the text itself', 'with colour disabled color() still emits %s' % escs)
        for e_ in escs:
            ctx.check(e_ == 'code' or re.match(r'^\x1b\[[\d;]*m$', e_), 'C17.2', 'color:esc-shape:%s' % (e_ if e_ == 'code' else e_[1:]), f_color.loc(), 'escape pieces are ESC [ code m', 'escape piece %r' % e_)
    ctx.floor('C17.2', ncp, 5, 'returning paths of color()')

    # ---- C17.3 -----------------------------------------------------------------------------------------------
    consts = {}
    for st in um.tree.body:
        if isinstance(st, ast.Assign) and isinstance(st.targets[0], ast.Name) and isinstance(st.value, ast.Constant):
            consts[st.targets[0].id] = st.value.value

    def tuple_component(v, i, k):
        if isinstance(v, (ast.Tuple, ast.List)) and len(v.elts) == k and not any(isinstance(x, ast.Starred) for x in v.elts):
            return [v.elts[i]]
        if isinstance(v, ast.IfExp):
            return tuple_component(v.body, i, k) + tuple_component(v.orelse, i, k)
        raise KeyError(norm(v))

    def int_values(a, depth=0):
        """The finite set of values of an integer expression over unknown integers, or None (x % m with a positive constant m is in [0, m))."""
        if depth > 6:
            return None
        if isinstance(a, ast.Constant) and isinstance(a.value, int) and not isinstance(a.value, bool):
            return {a.value}
        if isinstance(a, ast.BinOp) and isinstance(a.op, ast.Mod) and isinstance(a.right, ast.Constant) and isinstance(a.right.value, int) \
                and not isinstance(a.right.value, bool) and 0 < a.right.value <= 64 and not any(isinstance(x, (ast.Call, ast.Constant)) and not (isinstance(x, ast.Constant) and isinstance(x.value, int)) for x in ast.walk(a.left)):
            return set(range(a.right.value))
        if isinstance(a, ast.BinOp) and isinstance(a.op, (ast.Add, ast.Sub, ast.Mult)):
            l_, r_ = int_values(a.left, depth + 1), int_values(a.right, depth + 1)
            if l_ is None or r_ is None:
                return None
            op = {ast.Add: lambda x, y: x + y, ast.Sub: lambda x, y: x - y, ast.Mult: lambda x, y: x * y}[type(a.op)]
            return {op(x, y) for x in l_ for y in r_}
        return None

    def code_values(f, e, depth=0):
        """Set of possible code strings (None for no code); raises KeyError if not evaluable."""
        if depth > 5:
            raise KeyError(norm(e))
        if isinstance(e, ast.Constant):
            if e.value is None or isinstance(e.value, str):
                return {e.value}
            raise KeyError(norm(e))
        if isinstance(e, ast.IfExp):
            return code_values(f, e.body, depth + 1) | code_values(f, e.orelse, depth + 1)
        if isinstance(e, ast.BinOp) and isinstance(e.op, ast.Add):
            out = set()
            for a in code_values(f, e.left, depth + 1):
                for b in code_values(f, e.right, depth + 1):
                    out.add((a or '') + (b or ''))
            return out
        if isinstance(e, ast.Call) and isinstance(e.func, ast.Name) and e.func.id == 'str' and len(e.args) == 1:
            # str(<integer arithmetic>) renders digits
            vs = int_values(e.args[0])
            if vs is None or any(v < 0 for v in vs):
                raise KeyError(norm(e))
            return {str(v) for v in vs}
        if isinstance(e, ast.JoinedStr):
            outs = {''}
            for v in e.values:
                if isinstance(v, ast.Constant) and isinstance(v.value, str):
                    piece = {v.value}
                elif isinstance(v, ast.FormattedValue) and v.conversion == -1 and v.format_spec is None:
                    vs = int_values(v.value)
                    if vs is not None and all(x >= 0 for x in vs):
                        piece = {str(x) for x in vs}
                    else:
                        piece = {x or '' for x in code_values(f, v.value, depth + 1)}
                else:
                    raise KeyError(norm(e))
                outs = {a + b for a in outs for b in piece}
                if len(outs) > 64:
                    raise KeyError(norm(e))
            return outs
        if isinstance(e, ast.Attribute) and isinstance(e.value, ast.Name):
            # a field of a local record: marker = Rec(' => ', alert_color) [if .. else Rec(..)];  marker.color_code
            defs_r = [n for n in f.body_nodes() if isinstance(n, (ast.Assign, ast.AnnAssign)) and any(isinstance(t, ast.Name) and t.id == e.value.id for t in (n.targets if isinstance(n, ast.Assign) else [n.target]))]
            outs_r = set()
            okr = bool(defs_r)

            def rec_values(v):
                if isinstance(v, ast.IfExp):
                    return rec_values(v.body) + rec_values(v.orelse)
                return [v]
            for d in defs_r:
                for v in rec_values(d.value) if d.value is not None else []:
                    r_ = repo.resolve_expr_static(f.module, v.func) if isinstance(v, ast.Call) and isinstance(v.func, (ast.Name, ast.Attribute)) else None
                    flds = r_[1].record_fields() if r_ and r_[0] == 'class' else None
                    names = [n_ for n_, _ in flds] if flds else []
                    if e.attr not in names or any(isinstance(a, ast.Starred) for a in v.args):
                        okr = False
                        continue
                    i_ = names.index(e.attr)
                    val = None
                    for k in v.keywords:
                        if k.arg == e.attr:
                            val = k.value
                    if val is None and i_ < len(v.args):
                        val = v.args[i_]
                    if val is None:
                        val = flds[i_][1]
                    if val is None:
                        okr = False
                        continue
                    outs_r |= code_values(f, val, depth + 1)
            if okr and outs_r:
                return outs_r
            raise KeyError(norm(e))
        if isinstance(e, ast.Name):
            # local alias?
            defs = [n for n in f.body_nodes() if isinstance(n, (ast.Assign, ast.AnnAssign)) and any(isinstance(t, ast.Name) and t.id == e.id for t in (n.targets if isinstance(n, ast.Assign) else [n.target]))]
            # `a, code = (x, c1) if t else (y, c2)`: the component of every alternative at the name's position
            tdefs = []
            for n in f.body_nodes():
                if isinstance(n, ast.Assign):
                    for t in n.targets:
                        if isinstance(t, (ast.Tuple, ast.List)) and not any(isinstance(x, ast.Starred) for x in t.elts):
                            for i, x in enumerate(t.elts):
                                if isinstance(x, ast.Name) and x.id == e.id:
                                    tdefs.append((n.value, i, len(t.elts)))
            if defs or tdefs:
                out = set()
                for d in defs:
                    if d.value is not None:
                        out |= code_values(f, d.value, depth + 1)
                for v, i, k in tdefs:
                    for comp in tuple_component(v, i, k):
                        out |= code_values(f, comp, depth + 1)
                return out
            if e.id in f.params() and not f.is_module_body:
                # a parameter: the union over what the callers pass
                idx = f.params().index(e.id) - (1 if (f.cls is not None and not f.is_static()) else 0)
                out = set()
                ncs = 0
                for g, cn in named_call_sites(repo, f.name):
                    if g is f:
                        continue
                    a = None
                    for kw in cn.keywords:
                        if kw.arg == e.id:
                            a = kw.value
                    if a is None and 0 <= idx < len(cn.args) and not any(isinstance(x, ast.Starred) for x in cn.args):
                        a = cn.args[idx]
                    if a is None:
                        dflt = f.node.args.defaults
                        pos = f.params().index(e.id) - (len(f.params()) - len(dflt))
                        if 0 <= pos < len(dflt):
                            a = dflt[pos]
                    if a is None:
                        raise KeyError(e.id)
                    ncs += 1
                    out |= code_values(g, a, depth + 1)
                if ncs:
                    return out
                raise KeyError(e.id)
            r = repo.lookup(f.module, e.id)
            if r and r[0] == 'var' and r[1] is not None:
                return code_values(r[3].body_func, r[1], depth + 1)
            raise KeyError(e.id)
        raise KeyError(norm(e))
    sites = [(f, n) for f, n in named_call_sites(repo, 'color') if not (f is f_color)]
    ncodes = 0
    for f, n in sites:
        r = repo.lookup(f.module, 'color')
        if not (r and r[0] == 'func' and r[1] is f_color) or not n.args:
            continue
        ncodes += 1
        try:
            vals = code_values(f, n.args[0])
            bad = [v for v in vals if v is not None and not CODE_RE.match(v)]
            ctx.check(not bad, 'C17.3', 'code:%s:%s' % (f.qual, norm(n.args[0])[:40]), f.loc(n), 'colour code %s lies in [0-9;]*' % sorted(str(v) for v in vals)[:3],
                      'colour code %r is not of the form [0-9;]*: no_color() cannot strip the sequence' % (bad[0] if bad else ''))
        except KeyError as ex_:
            ctx.violation('C17.3', 'code:%s:%s' % (f.qual, norm(n.args[0])[:40]), f.loc(n), 'cannot show that colour code %s is strippable (not a constant / known alias)' % norm(n.args[0])[:60])
    ctx.floor('C17.3', ncodes, 40, 'color() call sites')
    subs = []
    extra = []
    for n in f_noc.body_nodes():
        if isinstance(n, ast.Call) and norm(n.func) == 're.sub' and len(n.args) >= 3:
            subs.append((n.args[0], n.args[1], n.args[2], n))
            extra = [norm(x) for x in n.args[3:]] + ['%s=%s' % (k.arg, norm(k.value)) for k in n.keywords]
        elif isinstance(n, ast.Call) and isinstance(n.func, ast.Attribute) and n.func.attr == 'sub' and isinstance(n.func.value, ast.Name) and len(n.args) >= 2:
            extra = [norm(x) for x in n.args[2:]] + ['%s=%s' % (k.arg, norm(k.value)) for k in n.keywords]
            # a pattern compiled once at module level: X = re.compile(<literal>); X.sub('', string)
            r_ = repo.lookup(f_noc.module, n.func.value.id)
            v_ = r_[1] if r_ and r_[0] == 'var' else None
            if isinstance(v_, ast.Call) and norm(v_.func) == 're.compile' and len(v_.args) == 1 and not v_.keywords:
                subs.append((v_.args[0], n.args[0], n.args[1], n))
    if len(subs) != 1 or not isinstance(subs[0][0], ast.Constant):
        raise AnalysisError('C17.3: no_color is no longer one re.sub with a literal pattern')
    pat_n, repl_n, subj_n, sub_call = subs[0]
    pat = pat_n.value
    emitted = rx.regex_nfa('\\x1b\\[[0-9;]*m', 'full')
    cex = rx.included(emitted, rx.regex_nfa(pat, 'full'))
    ctx.check(cex is None and isinstance(repl_n, ast.Constant) and repl_n.value == '' and norm(subj_n) == f_noc.params()[0],
              'C17.3', 'no_color:covers-emitted', f_noc.loc(), 'every sequence ESC [ digits/semicolons m is removed by no_color', 'no_color leaves %r in place' % cex)
    if any(x.startswith('flags=') for x in extra):
        raise AnalysisError('C17.3: no_color passes regex flags (%s); the inclusion check does not model flags' % extra)
    ctx.check(not extra, 'C17.3', 'no_color:all-occurrences', f_noc.loc(), 'the substitution has no count / flags argument: every occurrence is removed',
              'no_color passes %s to the substitution: a positional 4th argument of re.sub is `count`, so only the first occurrences are removed' % extra)
    for p in paths_of(repo, f_noc):
        ctx.check(p.outcome[0] == 'return' and norm(p.outcome[1]) == norm(sub_call), 'C17.3', 'no_color:returns-sub', f_noc.loc(), 'no_color returns the substituted text')

    # ---- C17.4 -----------------------------------------------------------------------------------------------
    def tainted_names(f):
        t = set()
        changed = True
        while changed:
            changed = False
            for n in f.body_nodes():
                if isinstance(n, (ast.Assign, ast.AugAssign)):
                    tg = n.targets if isinstance(n, ast.Assign) else [n.target]
                    if is_tainted(n.value, t):
                        for x in tg:
                            if isinstance(x, ast.Name) and x.id not in t:
                                t.add(x.id)
                                changed = True
        return t

    cur_func = [None]

    def displayable(x):
        """str(x) of a production object whose __str__ may emit colour."""
        f_ = cur_func[0]
        ts = repo.expr_types(f_, x) if f_ is not None else set()
        for t in ts:
            if t[0] == 'inst':
                c = t[1]
                if c.find_method('__str__') is not None or any('__str__' in k.methods for k in repo.subclasses(c)):
                    return True
        return False

    def is_tainted(e, names):
        for x in ast.walk(e):
            if isinstance(x, ast.Call):
                nm = x.func.id if isinstance(x.func, ast.Name) else (x.func.attr if isinstance(x.func, ast.Attribute) else '')
                if nm == 'no_color':
                    continue
                if nm in DISPLAY_CALLS:
                    if not inside_no_color(x):
                        return True
                if nm == 'str' and isinstance(x.func, ast.Name) and len(x.args) == 1 and displayable(x.args[0]) and not inside_no_color(x):
                    return True
            if isinstance(x, ast.Name) and x.id in names and not inside_no_color(x):
                return True
        return False

    def inside_no_color(x):
        p_ = getattr(x, '_parent', None)
        while p_ is not None and not isinstance(p_, ast.stmt):
            if isinstance(p_, ast.Call) and isinstance(p_.func, ast.Name) and p_.func.id == 'no_color':
                return True
            p_ = getattr(p_, '_parent', None)
        return False
    nlay = 0
    for f in repo.all_funcs():
        if f is f_color or f is f_noc:
            continue
        names = None
        cur_func[0] = f
        for n in f.body_nodes():
            operand = None
            what = None
            if isinstance(n, ast.Compare) and isinstance(n.ops[0], (ast.Eq, ast.NotEq, ast.In, ast.NotIn)):
                if names is None:
                    names = tainted_names(f)
                sides = [n.left] + list(n.comparators)
                lits = [x for x in sides if isinstance(x, ast.Constant) and isinstance(x.value, str)]
                tainted_sides = [x for x in sides if not isinstance(x, ast.Constant) and is_tainted(x, names)]
                if lits and tainted_sides:
                    nlay += 1
                    ctx.violation('C17.4', 'compare:%s:%s' % (f.qual, norm(n)[:50]), f.loc(n),
                                  'rendered (possibly coloured) text `%s` is compared with a literal: the decision differs between colour on and off' % norm(tainted_sides[0])[:60])
                continue
            if isinstance(n, ast.Call) and isinstance(n.func, ast.Name) and n.func.id == 'len' and n.args:
                operand, what = n.args[0], 'len()'
            elif isinstance(n, ast.Call) and isinstance(n.func, ast.Attribute) and n.func.attr in ('ljust', 'rjust', 'center', 'zfill'):
                operand, what = n.func.value, '.' + n.func.attr + '()'
            elif isinstance(n, ast.Subscript) and isinstance(n.slice, ast.Slice) and isinstance(n.ctx, ast.Load):
                operand, what = n.value, 'slicing'
            if operand is None:
                continue
            if names is None:
                names = tainted_names(f)
            if what == 'slicing' and not is_tainted(operand, names):
                continue
            nlay += 1
            ctx.check(not is_tainted(operand, names), 'C17.4', 'layout:%s:%s' % (f.qual, norm(n)[:50]), f.loc(n), '%s is not applied to coloured text' % what,
                      '%s is applied to text that may contain escape sequences (%s): layout differs between colour on and off' % (what, norm(operand)[:60]))
    ctx.floor('C17.4', nlay, 10, 'layout computations examined')

    # ---- C17.5 -----------------------------------------------------------------------------------------------
    for q in ('matcher.parse', 'Controller.process_command'):
        f = repo.func(q)
        nops, bad = sanitiser_first(repo, f)
        for e in bad:
            ctx.violation('C17.5', 'input:%s:strip-before-tokenise' % f.name, f.loc(e.node),
                          '%s tokenises the raw text before removing colour (%s): coloured text is not understood like its plain form' % (f.name, norm(e.node)[:80]))
        if not bad:
            ctx.ok('C17.5', f.loc(), 'input:%s' % f.name, '%s removes colour from the pasted text before any string operation on it (%d operations examined)' % (f.name, nops))
        ctx.floor('C17.5', nops, 2, 'string operations on the pasted text in ' + q)
    # the prompt hands each typed line to the dispatcher whole and as typed: colour is stripped there (above), so nothing may take the text apart
    # before it - the turn rule of the prompt loop (C10.7), evaluated here
    from .c10 import check_prompt_turns
    check_prompt_turns(ctx, 'C17.5')
    # ---- C17.6 coloured text is never kept -------------------------------------------------------------------------
    # color() consults the switch at the moment it is called; text that went through it is only right for the switch setting of that moment.
    # A function that can return coloured text (color() in its call closure) must therefore not be memoised, and must not park such text in
    # an attribute, a module-level name or a module-level table: the next rendering under the other setting would reuse it.
    from .common import memoised_funcs as _memo17
    cg17 = repo.callgraph()
    colouring = set()
    def _colour_calls(g, e, depth=0):
        for c in ast.walk(e):
            if isinstance(c, ast.Call):
                s_ = cg17.site_of(g, c)
                if s_ is not None and (cg17.targets(s_) & colouring):
                    return c
            if isinstance(c, ast.Name) and isinstance(c.ctx, ast.Load) and depth < 3:
                for a in g.body_nodes():
                    if isinstance(a, ast.Assign) and any(isinstance(t, ast.Name) and t.id == c.id for t in a.targets):
                        r = _colour_calls(g, a.value, depth + 1)
                        if r is not None:
                            return r
        return None
    # (functions that can RETURN coloured text: color() itself, and any function one of whose return values is built - directly or through its
    #  local names - from a call of such a function; a fixed point over the resolved call sites)
    colouring = {f_color}
    changed17 = True
    while changed17:
        changed17 = False
        for g0 in repo.all_funcs(False):
            if g0 in colouring or g0.is_module_body:
                continue
            for r0 in g0.body_nodes():
                if isinstance(r0, ast.Return) and r0.value is not None and _colour_calls(g0, r0.value) is not None:
                    colouring.add(g0)
                    changed17 = True
                    break
    for g in _memo17(repo):
        ctx.check(g not in colouring, 'C17.6', 'coloured-text-not-kept:memoised:%s' % g.qual, g.loc(), '%s is memoised and returns no coloured text' % g.short,
                  '%s is memoised but its result can contain escape sequences from color(): the text of the first call is reused after the colour switch changes' % g.short)

    n17 = 0
    for g in sorted(colouring - {f_color}, key=lambda x: x.qual):
        declared_global = {nm for st in g.body_nodes() if isinstance(st, ast.Global) for nm in st.names}
        local_names = set(g.params()) | {t.id for st in g.body_nodes() if isinstance(st, (ast.Assign, ast.AnnAssign, ast.AugAssign, ast.For))
                                       for t in ast.walk(st.targets[0] if isinstance(st, ast.Assign) else st.target) if isinstance(t, ast.Name)}
        for st in g.body_nodes():
            if not isinstance(st, (ast.Assign, ast.AugAssign, ast.AnnAssign)) or getattr(st, 'value', None) is None:
                continue
            n17 += 1
            for t in (st.targets if isinstance(st, ast.Assign) else [st.target]):
                base = t
                while isinstance(base, ast.Subscript):
                    base = base.value
                kept = (isinstance(base, ast.Attribute)
                        or (isinstance(base, ast.Name) and (base.id in declared_global or (base is not t and base.id not in local_names))))
                if not kept:
                    continue
                c = _colour_calls(g, st.value)
                ctx.check(c is None, 'C17.6', 'coloured-text-not-kept:%s:%s' % (g.qual, norm(t)[:40]), g.loc(st), 'what %s stores in %s is not coloured text' % (g.short, norm(t)[:40]),
                          '%s keeps text that went through color() (%s) in %s: it is reused by a later rendering whatever the colour switch then says'
                          % (g.short, norm(c)[:50] if c is not None else '', norm(t)[:40]))
    ctx.floor('C17.6', len(colouring), 10, 'functions that can return coloured text')
    return ('enumeration of escape literals and switch reads, path enumeration of color() with symbolic string pieces, abstract evaluation of all colour '
            'codes and automata inclusion in no_color\'s pattern, taint of coloured text into layout computations, sanitiser ordering on the input side. '
            'Decided: %s. Undecided: %s' % ('; '.join(ctx.decided), '; '.join(ctx.undecided)))
