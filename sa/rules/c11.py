"""C11 - `list` returns exactly the recorded messages that match, with honest counts."""
import ast
import re

from ..core import AnalysisError, norm
from ..sim import check_reach
from .common import (effects, paths_of, check_writers, arg_by_name, named_call_sites, paths_for_input, dtext)

CTRL = 'frontends.tui.controller.Controller'
PROTECTED = {'display_matcher', 'stop_matcher', 'current_connection', 'all_messages', 'message_list', 'db', 'open_connections',
             'connection_list', 'alive', 'generation', '_paused', '_should_quit'}


def rev_count(sym):
    """Number of order-reversing operations wrapped around a term."""
    n = 0
    for x in ast.walk(sym):
        if isinstance(x, ast.Call) and isinstance(x.func, ast.Name) and x.func.id == 'reversed':
            n += 1
        if isinstance(x, ast.Subscript) and isinstance(x.slice, ast.Slice) and x.slice.step is not None \
                and norm(x.slice.step) == '-1' and x.slice.lower is None and x.slice.upper is None:
            n += 1
    return n


def lin(sym, atoms):
    """Linear form {atom text: coeff, '': const} of an arithmetic term, or None."""
    if isinstance(sym, ast.Constant) and isinstance(sym.value, (int, float)) and not isinstance(sym.value, bool):
        return {'': sym.value}
    if isinstance(sym, ast.BinOp) and isinstance(sym.op, (ast.Add, ast.Sub)):
        a, b = lin(sym.left, atoms), lin(sym.right, atoms)
        if a is None or b is None:
            return None
        out = dict(a)
        sgn = 1 if isinstance(sym.op, ast.Add) else -1
        for k, v in b.items():
            out[k] = out.get(k, 0) + sgn * v
        return {k: v for k, v in out.items() if v != 0 or k == ''}
    if isinstance(sym, ast.UnaryOp) and isinstance(sym.op, ast.USub):
        a = lin(sym.operand, atoms)
        return None if a is None else {k: -v for k, v in a.items()}
    t = norm(sym)
    return {t: 1}


def run(ctx):
    repo = ctx.repo
    cg = repo.callgraph()
    ef = effects(repo)
    ctx.decided = ['C11.1 read-only', 'C11.2 source', 'C11.3 oldest first', 'C11.4 cap', 'C11.5 count identity', 'C11.6 matcher choice']
    ctx.undecided = ['what matches() returns (C05)']
    f_list = repo.func('Controller.list_command')
    f_showm = repo.func('Controller.show_messages')
    f_get = repo.func('Controller._get_matching')

    # ---- C11.1 -------------------------------------------------------------------------------------------
    ws = ef.closure_writes([f_list])
    bad = [w for w in ws if w.attr in PROTECTED]
    ctx.check(not bad, 'C11.1', 'list:read-only', f_list.loc(), 'listing writes neither filter, breakpoints, selection nor any record',
              'listing can write %s' % [(w.func.short, w.attr, norm(w.stmt)[:50]) for w in bad][:4])
    touched = sorted({w.attr for w in ws})
    ctx.note('attributes written by the closure of list_command: %s' % touched)
    ctx.check(set(touched) <= {'last_shown_timestamp', 'name', 'labels', 'type', 'obj'} | set(touched) - PROTECTED, 'C11.1', 'list:write-set', f_list.loc(),
              'write set of the closure of list_command is %s' % touched)

    # ---- C11.6 matcher choice and arguments (list_command) --------------------------------------------------
    lpaths = paths_of(repo, f_list)
    nl = 0
    # the argument of `list` is `[matcher] [~ N]`: decided by folding the (pure string) terms of list_command for each shape of argument
    from ..peval import fold, Unfoldable
    SHAPES = [('', None, None), ('wl_surface', 'wl_surface', None), ('wl_surface ~ 3', 'wl_surface ', 3), ('~3', None, 3), ('a~2~3', 'a', None), ('x ~ 12', 'x ', 12),
              # a matcher may itself start with a connection prefix (`A: .commit, B: .damage` lists from both): the whole text is the matcher
              ('A: .commit, B: .damage', 'A: .commit, B: .damage', None), ('A: wl_surface ~ 2', 'A: wl_surface ', 2)]
    for sample, want_m, want_cap in SHAPES:
        hits = 0
        for p in paths_for_input(lpaths, {'arg': sample}):
            for e in p.events:
                if not (e.kind == 'call' and e.ftext == 'self.show_messages'):
                    continue
                hits += 1
                nl += 1
                got = {k: arg_by_name(e, f_showm, k) for k in ('connection', 'matcher', 'cap')}
                m = got['matcher']
                good = False
                desc = norm(m)
                try:
                    if want_m is None:
                        good = norm(m) == 'self.display_matcher'
                    else:
                        good = isinstance(m, ast.Call) and norm(m.func) == 'self.parse_and_join' and len(m.args) == 2 and norm(m.args[1]) == 'None' and fold(m.args[0], {'arg': sample}) == want_m
                        if isinstance(m, ast.Call) and m.args:
                            desc = '%s(%r, %s)' % (norm(m.func), fold(m.args[0], {'arg': sample}), ', '.join(norm(x) for x in m.args[1:]))
                except Unfoldable as ex_:
                    desc += ' [%s]' % ex_
                ctx.check(good, 'C11.6', 'list:matcher:%s' % (want_m is not None), f_list.loc(e.node),
                          'with an argument the matcher is parsed on its own (no join with the filter), otherwise the current filter is used',
                          '`list %s` uses matcher %s' % (sample, desc))
                ctx.check(norm(got['connection']) == 'self.current_connection', 'C11.2', 'list:selected-connection', f_list.loc(e.node),
                          'the listing is restricted to the selected connection', 'listing passes connection %s' % norm(got['connection']))
                try:
                    capv = fold(got['cap'], {'arg': sample}) if got['cap'] is not None else None
                except Unfoldable as ex_:
                    capv = 'unfoldable: %s' % ex_
                ctx.check(capv == want_cap and type(capv) is type(want_cap), 'C11.4', 'list:cap-parse:%s' % ('N' if want_cap is not None else 'None'), f_list.loc(e.node),
                          'cap is the number after ~ (or absent)', '`list %s` passes cap %r (%s), expected %r' % (sample, capv, norm(got['cap']), want_cap))
        ctx.check(hits >= 1, 'C11.6', 'list:shape-handled:%s' % (sample or 'empty'), f_list.loc(), '`list %s` reaches the listing' % sample, '`list %s` shows nothing (no path reaches show_messages)' % sample)
    ctx.floor('C11.6', nl, 4, 'show_messages calls from list_command')

    # the all-connections record is complete (same obligation as C06.1) and connection.messages() is the connection's record
    from .c06 import check_recorded, check_selection
    check_recorded(ctx, 'C11.2')
    check_selection(ctx, 'C11.2')
    check_writers(ctx, 'C11.2', CTRL, 'all_messages', [('Controller.__init__', lambda w: w.fresh and isinstance(w.stmt.value, ast.List)),
                                                        ('Controller.connection_got_new_message', lambda w: w.kind == 'mutate' and w.via == 'append')], floor=2)
    check_writers(ctx, 'C11.2', 'core.connection_impl.ConnectionImpl', 'message_list', [('ConnectionImpl.__init__', lambda w: w.fresh and isinstance(w.stmt.value, ast.List)),
                                                                                         ('ConnectionImpl.message', lambda w: w.kind == 'mutate' and w.via == 'append')], floor=2)
    f_msgs = repo.func('ConnectionImpl.messages')
    for p_ in paths_of(repo, f_msgs):
        ctx.check(p_.outcome[0] == 'return' and norm(p_.outcome[1]) == 'tuple(self.message_list)', 'C11.2', 'connection:messages-returns-record', f_msgs.loc(), 'messages() returns the connection\'s whole record, in order')
    # ---- C11.2 source in _get_matching ------------------------------------------------------------------------
    gpaths = paths_of(repo, f_get, unroll=3 if ctx.tier == 'thorough' else 2)
    rets = [p for p in gpaths if p.outcome[0] == 'return']
    ctx.floor('C11.2', len(rets), 10, 'returning paths of _get_matching')
    for p in rets:
        sel = [v for a, v in p.decisions if a.text == 'connection'] + [not v for a, v in p.decisions if a.text == 'connection is None']
        it = [e for e in p.events if e.kind in ('loop-iter', 'loop-exit')]
        src = None
        for e in p.events:
            if e.kind == 'call' and isinstance(e.node, ast.Call) and isinstance(e.node.func, ast.Name) and e.node.func.id in ('reversed',) and e.args:
                src = norm(e.args[0])
                break
        if not sel:
            ctx.violation('C11.2', 'source:selection-not-tested', f_get.loc(), 'the source of the listing does not depend on the selected connection')
            continue
        want = 'connection.messages()' if sel[0] else 'tuple(self.all_messages)'
        if not sel[0] and src in ('self.all_messages', 'list(self.all_messages)', 'self.all_messages[:]'):
            src = want      # with or without a copy: the listing is read-only (C11.1), nothing is recorded while it scans
        ctx.check(src == want, 'C11.2', 'source:%s' % want, f_get.loc(), 'messages come from %s' % want, 'messages come from %s (selection=%s)' % (src, sel[0]))

    # ---- C11.3 order, C11.5 counts, C11.4 cap ----------------------------------------------------------------------
    # Per path (a scan of up to N messages with the matcher's verdicts decided): the returned list, folded element by element, must be
    # exactly the scanned messages the matcher accepted, oldest first; the three counts, folded to numbers, must be the number
    # accepted, the number rejected and the number of recorded messages minus the number scanned.
    from ..sim import deep_norm, deep_ast
    from ..peval import fold, Unfoldable
    BIG = 1000
    n_sem = 0
    for p in rets:
        rv = p.outcome[1]
        if not (isinstance(rv, ast.Tuple) and len(rv.elts) == 4):
            ctx.violation('C11.5', 'result:shape', f_get.loc(), '_get_matching returns %s' % norm(rv)[:100])
            continue
        lst, matched, didnt, notchk = rv.elts
        verdicts = []       # (k, element text, verdict) in scan order
        for a_, v_ in p.decisions:
            m_ = re.match(r'^matcher\.matches\((<elem(\d+) of (.*)>)\)$', a_.text)
            if m_:
                verdicts.append((int(m_.group(2)), m_.group(1), v_, m_.group(3)))
        scans = [e for e in p.events if e.kind == 'loop-iter' and e.value is not None and not (e.loops and len(e.loops) > 1)]
        n_iter = len(scans)
        if n_iter != len(verdicts):
            ctx.violation('C11.5', 'scan:every-message-judged', f_get.loc(), 'the scan runs %d iteration(s) but asks the matcher %d time(s) on path %s' % (n_iter, len(verdicts), p.describe()[:160]))
            continue
        n_sem += 1
        src = verdicts[0][3] if verdicts else None
        newest_first = src is not None and rev_count(ast.parse(src, mode='eval').body) % 2 == 1
        accepted = [t for k, t, v, _ in verdicts if v]
        want_list = list(reversed(accepted)) if newest_first else accepted
        le = deep_ast(lst)
        lt = norm(le)
        got_list = [norm(x) for x in le.elts] if isinstance(le, (ast.List, ast.Tuple)) else None
        if got_list is None and not verdicts and re.match(r'^(list\(reversed\(\w+\)\)|\w+|\w+\[::-1\])$', lt):
            got_list = []
        if got_list is None and re.search(r'\bsorted\(|\.sort\(', lt):
            ctx.violation('C11.3', 'order:parity', f_get.loc(), 'the list returned is re-ordered by a key (%s): recorded order - oldest first as the messages arrived - is not what a sort by value gives '
                          '(equal or wrapped time stamps)' % lt[:100])
            continue
        if got_list is None:
            raise AnalysisError('C11.3: cannot read the elements of the list _get_matching returns off `%s`' % lt[:80])
        ctx.check(got_list == want_list, 'C11.3', 'order:parity', f_get.loc(),
                  'the list returned is exactly the scanned messages the matcher accepted, oldest first',
                  'with verdicts %s (scan %s) the list returned is %s, expected %s' % ([v for _, _, v, _ in verdicts], 'newest first' if newest_first else 'oldest first', lt[:160], want_list))
        if any(e.kind == 'loop-break' for e in p.events):
            ctx.check(newest_first, 'C11.3', 'order:cap-keeps-newest', f_get.loc(),
                      'a scan that can stop early runs newest-first, so a cap keeps the last N', 'the capped scan runs oldest-first and would keep the first N')
        texts = {}
        for x in ast.walk(rv):
            if isinstance(x, ast.Call) and isinstance(x.func, ast.Name) and x.func.id == 'len' and len(x.args) == 1:
                t_ = norm(x.args[0])
                sel_ = [v for a2, v in p.decisions if a2.text == 'connection'] + [not v for a2, v in p.decisions if a2.text == 'connection is None']
                legit = ('connection.messages()',) if (sel_ and sel_[0]) else ('tuple(self.all_messages)', 'self.all_messages')
                if t_ in legit:
                    texts[norm(x)] = BIG        # the length of the record that this path scans

        def num(sym):
            try:
                return fold(deep_ast(sym), {}, texts)
            except (Unfoldable, SyntaxError) as ex_:
                if any(isinstance(x_, ast.Name) and x_.id in f_get.params() for x_ in ast.walk(deep_ast(sym))):
                    return 'unfoldable: %s' % ex_       # the count depends on a parameter itself (the cap, say), not on what the scan saw: wrong
                # a count written with something the term folder does not interpret (a deque, an iterator tool ..): the clause is undecided
                raise AnalysisError('C11.5: cannot evaluate the count `%s` of _get_matching: %s' % (norm(sym)[:60], str(ex_)[:80]))
        n_yes = sum(1 for _, _, v, _ in verdicts if v)
        n_no = n_iter - n_yes
        ctx.check(num(matched) == n_yes, 'C11.5', 'counts:matched-is-len', f_get.loc(), 'the matched count is the number of messages returned',
                  'matched count is %s = %s after %d acceptances' % (norm(matched), num(matched), n_yes))
        ctx.check(num(didnt) == n_no, 'C11.5', 'counts:didnt-match', f_get.loc(),
                  'the didn\'t-match count equals the number of scanned messages the matcher rejected', 'didnt_match = %s = %s after %d rejections' % (norm(didnt), num(didnt), n_no))
        ctx.check(bool(texts) and num(notchk) == BIG - n_iter, 'C11.5', 'counts:sum-identity', f_get.loc(), 'matched + didn\'t match + not checked == number of recorded messages',
                  'not-checked count is %s = %s after %d scanned of %d recorded' % (norm(notchk), num(notchk), n_iter, BIG))
    ctx.floor('C11.5', n_sem, 8, 'scan paths of _get_matching evaluated')

    def m_cap(a):
        t = a.text
        if t == '0 == cap':
            return ('cap0', True)
        if t == 'cap':
            return ('cap', True)
        if t == 'cap is None':
            return ('cap', False)
        if re.match(r'^(?:len\(\w+\)|\d+) < cap$', t):
            return ('full', False)      # fewer collected than the cap (the number collected is known on the path)
        if re.match(r'^cap < (?:len\(\w+\)|\d+)$', t) or re.match(r'^cap == (?:len\(\w+\)|\d+)$', t) or re.match(r'^(?:len\(\w+\)|\d+) == cap$', t):
            return None
        if re.match(r'^matcher\.matches\(<elem0 of ', t):
            return ('match0', True)
        return None
    brk0 = lambda e: e.kind == 'loop-break' and e.extra == 0
    probs = check_reach(gpaths, brk0, m_cap, lambda F: F['match0'] and F['cap'] and F['full'] and not F['cap0'],
                        universe=['cap0', 'cap', 'full', 'match0'], feasible=lambda F: not (F['cap0'] and F['cap']), first_only=True)
    # only paths that enter the loop are informative
    probs = [q for q in probs if any(e.kind == 'loop-iter' for e in q[0].events)]
    from . import common as _cm11
    _cm11.confirm_scenarios('C11.4', probs, m_cap, (r'^connection( is None)?$', r'^matcher\.matches\(<elem\d+ of .*>\)$', r'^cap (<|==) (?:len\(\w+\)|\d+)$', r'^(?:len\(\w+\)|\d+) == cap$'))
    ctx.check(not probs, 'C11.4', 'cap:stop-iff-full', f_get.loc(),
              'the scan stops right after the append that fills the cap; a cap of 0 or None never stops it',
              'scan stop reached=%s in scenario %s' % ((probs[0][2], probs[0][1]) if probs else ('', '')))
    capatoms = {a.text for p in gpaths for a, v in p.decisions if 'cap' in a.text}
    ctx.check(any(re.match(r'^(?:len\(\w+\)|\d+) < cap$', t) for t in capatoms), 'C11.4', 'cap:atoms-present', f_get.loc(),
              'the cap is compared with the number collected (>=)', 'cap conditions are %s' % sorted(capatoms))

    # ---- show_messages passes things through and prints the three counts in order ----------------------------------
    spaths = paths_of(repo, f_showm, unroll=1)
    ng = 0
    for p in spaths:
        for e in p.events:
            if e.kind == 'call' and e.ftext == 'self._get_matching':
                ng += 1
                ctx.check([norm(a) for a in e.args] == ['connection', 'matcher', 'cap'], 'C11.2', 'show_messages:passes-through', f_showm.loc(e.node),
                          'show_messages hands connection, matcher and cap to the scan unmodified', 'scan called as %s' % e.text[:80])
            if e.kind == 'call' and e.ftext == 'self._show_message':
                ctx.check(bool(re.match(r'^<elem\d+ of self\._get_matching\(connection, matcher, cap\)\[0\]>$', e.argtext(0) or '')), 'C11.3', 'show_messages:prints-list-in-order',
                          f_showm.loc(e.node), 'the listing prints the returned list front to back', 'prints %s' % e.argtext(0))
            if e.kind == 'call' and e.ftext == 'self.out.show' and ' matched, ' in e.text:
                from ..sim import concat_parts, deep_ast
                t = dtext(e.args[0]) if e.args else e.text
                seq = []            # [(index of the count a piece prints, the constant text that follows it)]
                for part in (concat_parts(deep_ast(e.args[0])) if e.args else []):
                    if isinstance(part, ast.Constant):
                        if seq:
                            seq[-1][1] += str(part.value)
                    else:
                        ks = re.findall(r'self\._get_matching\(connection, matcher, cap\)\[(\d)\]', norm(part))
                        seq.append([ks[0] if len(ks) == 1 else '?', ''])
                labels = {'1': ' matched', '2': " didn't", '3': ' not checked'}
                good = [k for k, _ in seq] in (['1', '2'], ['1', '2', '3']) and all(lab.startswith(labels[k]) for k, lab in seq)
                ctx.check(good, 'C11.5', 'summary:counts-labelled-right', f_showm.loc(e.node),
                          'the summary line labels the matched / didn\'t / not checked counts with their own values',
                          'summary line is %s' % t[:200])
    ctx.floor('C11.2', ng, 1, '_get_matching call in show_messages')
    return ('effect closure of list_command; path enumeration of _get_matching (2 iterations) with order parity, per-iteration '
            'bookkeeping, linear count identity and cap scenarios. Decided: %s. Undecided: %s' % ('; '.join(ctx.decided), '; '.join(ctx.undecided)))
