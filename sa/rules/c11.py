"""C11 - `list` returns exactly the recorded messages that match, with honest counts."""
import ast
import re

from ..core import AnalysisError, norm
from ..sim import check_reach
from .common import (effects, paths_of, check_writers, arg_by_name, named_call_sites)

CTRL = 'frontends.tui.controller.Controller'
PROTECTED = {'display_matcher', 'stop_matcher', 'current_connection', 'all_messages', 'message_list', 'db', 'open_connections',
             'connection_list', 'alive', 'generation', '_paused', '_should_quit'}


def rev_count(sym):
    """Number of order-reversing operations wrapped around a term."""
    n = 0
    for x in ast.walk(sym):
        if isinstance(x, ast.Call) and isinstance(x.func, ast.Name) and x.func.id == 'reversed':
            n += 1
        if isinstance(x, ast.Subscript) and isinstance(x.slice, ast.Slice) and x.slice.step is not None \
                and norm(x.slice.step) == '-1' and x.slice.lower is None and x.slice.upper is None:
            n += 1
    return n


def lin(sym, atoms):
    """Linear form {atom text: coeff, '': const} of an arithmetic term, or None."""
    if isinstance(sym, ast.Constant) and isinstance(sym.value, (int, float)) and not isinstance(sym.value, bool):
        return {'': sym.value}
    if isinstance(sym, ast.BinOp) and isinstance(sym.op, (ast.Add, ast.Sub)):
        a, b = lin(sym.left, atoms), lin(sym.right, atoms)
        if a is None or b is None:
            return None
        out = dict(a)
        sgn = 1 if isinstance(sym.op, ast.Add) else -1
        for k, v in b.items():
            out[k] = out.get(k, 0) + sgn * v
        return {k: v for k, v in out.items() if v != 0 or k == ''}
    if isinstance(sym, ast.UnaryOp) and isinstance(sym.op, ast.USub):
        a = lin(sym.operand, atoms)
        return None if a is None else {k: -v for k, v in a.items()}
    t = norm(sym)
    return {t: 1}


def run(ctx):
    repo = ctx.repo
    cg = repo.callgraph()
    ef = effects(repo)
    ctx.decided = ['C11.1 read-only', 'C11.2 source', 'C11.3 oldest first', 'C11.4 cap', 'C11.5 count identity', 'C11.6 matcher choice']
    ctx.undecided = ['what matches() returns (C05)']
    f_list = repo.func('Controller.list_command')
    f_showm = repo.func('Controller.show_messages')
    f_get = repo.func('Controller._get_matching')

    # ---- C11.1 -------------------------------------------------------------------------------------------
    ws = ef.closure_writes([f_list])
    bad = [w for w in ws if w.attr in PROTECTED]
    ctx.check(not bad, 'C11.1', 'list:read-only', f_list.loc(), 'listing writes neither filter, breakpoints, selection nor any record',
              'listing can write %s' % [(w.func.short, w.attr, norm(w.stmt)[:50]) for w in bad][:4])
    touched = sorted({w.attr for w in ws})
    ctx.note('attributes written by the closure of list_command: %s' % touched)
    ctx.check(set(touched) <= {'last_shown_timestamp', 'name', 'labels', 'type', 'obj'} | set(touched) - PROTECTED, 'C11.1', 'list:write-set', f_list.loc(),
              'write set of the closure of list_command is %s' % touched)

    # ---- C11.6 matcher choice and arguments (list_command) --------------------------------------------------
    lpaths = paths_of(repo, f_list)
    nl = 0
    for p in lpaths:
        for e in p.events:
            if e.kind == 'call' and e.ftext == 'self.show_messages':
                nl += 1
                has_arg = [v for a, v in p.decisions if a.text in ("arg.split('~')[0]",)]
                m = e.argtext(1)
                if has_arg and has_arg[0]:
                    good = m == "self.parse_and_join(arg.split('~')[0], None)"
                else:
                    good = m == 'self.display_matcher' and bool(has_arg)
                ctx.check(good, 'C11.6', 'list:matcher:%s' % (has_arg[0] if has_arg else '?'), f_list.loc(e.node),
                          'with an argument the matcher is parsed on its own (no join with the filter), otherwise the current filter is used',
                          'listing uses matcher %s (argument given: %s)' % (m, has_arg))
                ctx.check(e.argtext(0) == 'self.current_connection', 'C11.2', 'list:selected-connection', f_list.loc(e.node),
                          'the listing is restricted to the selected connection', 'listing passes connection %s' % e.argtext(0))
                two = [v for a, v in p.decisions if a.text in ("2 == len(arg.split('~'))", "1 == len(arg.split('~')[1:])")]
                c = (e.argtext(2) or '').replace("[1:][0]", "[1]")
                want = "int(arg.split('~')[1])" if (two and two[0]) else 'None'
                ctx.check(c == want and bool(two), 'C11.4', 'list:cap-parse:%s' % want, f_list.loc(e.node), 'cap is the number after ~ (or absent)', 'cap is %s' % c)
    ctx.floor('C11.6', nl, 4, 'show_messages calls from list_command')

    # the all-connections record is complete (same obligation as C06.1) and connection.messages() is the connection's record
    from .c06 import check_recorded, check_selection
    check_recorded(ctx, 'C11.2')
    check_selection(ctx, 'C11.2')
    check_writers(ctx, 'C11.2', CTRL, 'all_messages', [('Controller.__init__', lambda w: w.fresh and isinstance(w.stmt.value, ast.List)),
                                                        ('Controller.connection_got_new_message', lambda w: w.kind == 'mutate' and w.via == 'append')], floor=2)
    check_writers(ctx, 'C11.2', 'core.connection_impl.ConnectionImpl', 'message_list', [('ConnectionImpl.__init__', lambda w: w.fresh and isinstance(w.stmt.value, ast.List)),
                                                                                         ('ConnectionImpl.message', lambda w: w.kind == 'mutate' and w.via == 'append')], floor=2)
    f_msgs = repo.func('ConnectionImpl.messages')
    for p_ in paths_of(repo, f_msgs):
        ctx.check(p_.outcome[0] == 'return' and norm(p_.outcome[1]) == 'tuple(self.message_list)', 'C11.2', 'connection:messages-returns-record', f_msgs.loc(), 'messages() returns the connection\'s whole record, in order')
    # ---- C11.2 source in _get_matching ------------------------------------------------------------------------
    gpaths = paths_of(repo, f_get, unroll=3 if ctx.tier == 'thorough' else 2)
    rets = [p for p in gpaths if p.outcome[0] == 'return']
    ctx.floor('C11.2', len(rets), 10, 'returning paths of _get_matching')
    for p in rets:
        sel = [v for a, v in p.decisions if a.text == 'connection'] + [not v for a, v in p.decisions if a.text == 'connection is None']
        it = [e for e in p.events if e.kind in ('loop-iter', 'loop-exit')]
        src = None
        for e in p.events:
            if e.kind == 'call' and isinstance(e.node.func, ast.Name) and e.node.func.id in ('reversed',) and e.args:
                src = norm(e.args[0])
                break
        if not sel:
            ctx.violation('C11.2', 'source:selection-not-tested', f_get.loc(), 'the source of the listing does not depend on the selected connection')
            continue
        want = 'connection.messages()' if sel[0] else 'tuple(self.all_messages)'
        ctx.check(src == want, 'C11.2', 'source:%s' % want, f_get.loc(), 'messages come from %s' % want, 'messages come from %s (selection=%s)' % (src, sel[0]))

    # ---- C11.3 order, C11.5 counts, C11.4 cap ----------------------------------------------------------------------
    for p in rets:
        rv = p.outcome[1]
        if not (isinstance(rv, ast.Tuple) and len(rv.elts) == 4):
            ctx.violation('C11.5', 'result:shape', f_get.loc(), '_get_matching returns %s' % norm(rv)[:100])
            continue
        lst, matched, didnt, notchk = rv.elts
        iters = [e for e in p.events if e.kind == 'loop-iter']
        itsym = iters[0].value if iters else None
        if itsym is None:
            ex = [e for e in p.events if e.kind == 'call' and isinstance(e.node.func, ast.Name) and e.node.func.id == 'reversed']
        # order parity
        acc_name = None
        m = re.match(r'^list\(reversed\((\w+)\)\)$|^(\w+)\[::-1\]$|^(\w+)$', norm(lst))
        par_result = rev_count(lst)
        par_iter = rev_count(itsym) if itsym is not None else None
        muts = [e for e in p.events if e.kind == 'call' and e.ftext and e.ftext.split('.')[-1] in ('insert', 'reverse', 'sort', 'extend', 'pop', 'remove')]
        if par_iter is not None:
            ctx.check((par_result + par_iter) % 2 == 0 and not muts, 'C11.3', 'order:parity', f_get.loc(),
                      'an even number of reversals lies between the record and the listing (oldest first)',
                      'listing order is reversed: %d reversal(s) on the scan, %d on the result, other reordering %s' % (par_iter, par_result, [e.text[:30] for e in muts]))
            if any(e.kind == 'loop-break' for e in p.events):
                ctx.check(par_iter % 2 == 1, 'C11.3', 'order:cap-keeps-newest', f_get.loc(),
                          'a scan that can stop early runs newest-first, so a cap keeps the last N',
                          'the capped scan runs oldest-first and would keep the first N')
        # per iteration: append xor didnt_match += 1, decided by the matcher on the iteration's element
        n_app = n_no = 0
        okiter = True
        for e in iters:
            k = e.extra
            body = [x for x in p.events if x.loops and x.loops[-1] == e.loops[-1] and x.kind in ('call', 'aug')]
            dec = [v for a, v in p.decisions if re.match(r'^matcher\.matches\(<elem%d of ' % k, a.text)]
            apps = [x for x in body if x.kind == 'call' and x.ftext and x.ftext.endswith('.append')]
            augs = [x for x in body if x.kind == 'aug' and x.target == 'didnt_match']
            if not dec:
                okiter = False
                continue
            if dec[0]:
                n_app += 1
                okiter &= len(apps) == 1 and not augs and bool(re.match(r'^<elem%d of ' % k, apps[0].argtext(0) or ''))
            else:
                n_no += 1
                okiter &= len(augs) == 1 and not apps and norm(augs[0].value) == '1' and augs[0].extra == 'Add'
        ctx.check(okiter, 'C11.5', 'scan:append-xor-count', f_get.loc(),
                  'each scanned message is either collected (matcher true) or counted as not matching (matcher false), never both',
                  'scan bookkeeping is wrong on path %s' % p.describe()[:200])
        accs = {norm(x.recv) for x in p.events if x.kind == 'call' and x.ftext and x.ftext.endswith('.append')}
        ml = re.match(r'^(?:list\(reversed\((\w+)\)\)|(\w+)\[::-1\]|(\w+))$', norm(lst))
        acc = next(iter(accs)) if len(accs) == 1 else ((ml.group(1) or ml.group(2) or ml.group(3)) if ml else 'acc')
        ctx.check(norm(matched) == 'len(%s)' % acc and acc in norm(lst), 'C11.5', 'counts:matched-is-len', f_get.loc(),
                  'the matched count is the length of the returned list', 'matched count is %s for list %s' % (norm(matched), norm(lst)))
        ld = lin(didnt, None)
        ctx.check(ld is not None and set(ld) <= {''} and ld.get('', 0) == n_no, 'C11.5', 'counts:didnt-match', f_get.loc(),
                  'the didn\'t-match count equals the number of scanned messages the matcher rejected', 'didnt_match = %s after %d rejections' % (norm(didnt), n_no))
        # identity: notchk + matched + didnt == len(messages)
        total = ast.BinOp(left=ast.BinOp(left=notchk, op=ast.Add(), right=matched), op=ast.Add(), right=didnt)
        lf = lin(total, None)
        srcs = [k for k in (lf or {}) if k.startswith('len(') and k != 'len(%s)' % acc]
        good = lf is not None and len(srcs) == 1 and lf.get(srcs[0]) == 1 and all(v == 0 for k, v in lf.items() if k != srcs[0]) \
            and srcs[0] in ('len(connection.messages())', 'len(tuple(self.all_messages))')
        ctx.check(good, 'C11.5', 'counts:sum-identity', f_get.loc(), 'matched + didn\'t match + not checked == number of recorded messages',
                  'the three counts sum to %s' % lf)

    def m_cap(a):
        t = a.text
        if t == '0 == cap':
            return ('cap0', True)
        if t == 'cap':
            return ('cap', True)
        if t == 'cap is None':
            return ('cap', False)
        if re.match(r'^len\(\w+\) < cap$', t):
            return ('full', False)
        if re.match(r'^cap < len\(\w+\)$', t) or re.match(r'^cap == len\(\w+\)$', t) or re.match(r'^len\(\w+\) == cap$', t):
            return None
        if re.match(r'^matcher\.matches\(<elem0 of ', t):
            return ('match0', True)
        return None
    brk0 = lambda e: e.kind == 'loop-break' and e.extra == 0
    probs = check_reach(gpaths, brk0, m_cap, lambda F: F['match0'] and F['cap'] and F['full'] and not F['cap0'],
                        universe=['cap0', 'cap', 'full', 'match0'], feasible=lambda F: not (F['cap0'] and F['cap']), first_only=True)
    # only paths that enter the loop are informative
    probs = [q for q in probs if any(e.kind == 'loop-iter' for e in q[0].events)]
    ctx.check(not probs, 'C11.4', 'cap:stop-iff-full', f_get.loc(),
              'the scan stops right after the append that fills the cap; a cap of 0 or None never stops it',
              'scan stop reached=%s in scenario %s' % ((probs[0][2], probs[0][1]) if probs else ('', '')))
    capatoms = {a.text for p in gpaths for a, v in p.decisions if 'cap' in a.text}
    ctx.check(any(re.match(r'^len\(\w+\) < cap$', t) for t in capatoms), 'C11.4', 'cap:atoms-present', f_get.loc(),
              'the cap is compared with the number collected (>=)', 'cap conditions are %s' % sorted(capatoms))

    # ---- show_messages passes things through and prints the three counts in order ----------------------------------
    spaths = paths_of(repo, f_showm, unroll=1)
    ng = 0
    for p in spaths:
        for e in p.events:
            if e.kind == 'call' and e.ftext == 'self._get_matching':
                ng += 1
                ctx.check([norm(a) for a in e.args] == ['connection', 'matcher', 'cap'], 'C11.2', 'show_messages:passes-through', f_showm.loc(e.node),
                          'show_messages hands connection, matcher and cap to the scan unmodified', 'scan called as %s' % e.text[:80])
            if e.kind == 'call' and e.ftext == 'self._show_message':
                ctx.check(bool(re.match(r'^<elem\d+ of self\._get_matching\(connection, matcher, cap\)\[0\]>$', e.argtext(0) or '')), 'C11.3', 'show_messages:prints-list-in-order',
                          f_showm.loc(e.node), 'the listing prints the returned list front to back', 'prints %s' % e.argtext(0))
            if e.kind == 'call' and e.ftext == 'self.out.show' and ' matched, ' in e.text:
                t = e.text
                i1 = t.find('self._get_matching(connection, matcher, cap)[1])')
                i2 = t.find("' matched, '")
                i3 = t.find('str(self._get_matching(connection, matcher, cap)[2])')
                i4 = t.find('" didn\'t"')
                i5 = t.find('str(self._get_matching(connection, matcher, cap)[3])')
                i6 = t.find("' not checked'")
                good = 0 <= i1 < i2 < i3 < i4 and ((i6 < 0 and i5 < 0) or i4 < i5 < i6)
                ctx.check(good, 'C11.5', 'summary:counts-labelled-right', f_showm.loc(e.node),
                          'the summary line labels the matched / didn\'t / not checked counts with their own values',
                          'summary line is %s' % t[:200])
    ctx.floor('C11.2', ng, 1, '_get_matching call in show_messages')
    return ('effect closure of list_command; path enumeration of _get_matching (2 iterations) with order parity, per-iteration '
            'bookkeeping, linear count identity and cap scenarios. Decided: %s. Undecided: %s' % ('; '.join(ctx.decided), '; '.join(ctx.undecided)))
