"""C15 - GDB mode follows libwayland's connections as they come and go."""
import ast
import re

from ..core import AnalysisError, norm
from ..sim import check_reach
from .. import keysafe
from .common import (effects, exceptions, paths_of, check_writers, arg_by_name, named_call_sites)

PL = 'backends.gdb_plugin.plugin.Plugin'


def run(ctx):
    repo = ctx.repo
    ex = exceptions(repo)
    ctx.decided = ['C15.1 key safety of the connection tables', 'C15.2 open on first sight / close removes and forwards / identity', 'C15.3 thread mismatch only warns',
                   'C15.4 no KeyError/RuntimeError escapes the destroy breakpoint from the plugin\'s own code',
                   'C15.5 behind the plugin: messages are routed by the address of their connection, a re-opened address is a new connection (C04.2, C04.4 lifted)']
    ctx.undecided = ['GDB/libwayland behaviour itself']
    f_pm = repo.func('Plugin.process_message')
    f_open = repo.func('Plugin.open_connection')
    f_close = repo.func('Plugin.close_connection')
    # ---- C15.1 -----------------------------------------------------------------------------------------------
    keysafe.check(ctx, 'C15.1', f_pm, {'self.connections'}, inline=[f_open])
    r = keysafe.check(ctx, 'C15.1', f_close, {'self.connections'})
    keysafe.check(ctx, 'C15.1', repo.func('ConnectionManager.close_connection'), {'self.open_connections'})
    keysafe.check(ctx, 'C15.1', repo.func('ConnectionImpl.create_object'), {'self.db'})
    keysafe.check(ctx, 'C15.1', repo.func('ConnectionImpl.retrieve_object'), {'self.db'})
    # ---- C15.2 -----------------------------------------------------------------------------------------------
    paths = paths_of(repo, f_pm)

    def m_known(a):
        if a.text == 'connection_id in self.connections':
            return ('known', True)
        if a.text == 'self.connections.get(connection_id) is None':
            return ('known', False)
        return None
    is_open = lambda e: e.kind == 'call' and e.ftext == 'self.open_connection'
    probs = check_reach(paths, is_open, m_known, lambda F: not F['known'], universe=['known'])
    ctx.check(not probs, 'C15.2', 'process_message:open-iff-unknown', f_pm.loc(), 'a connection is opened exactly when a message arrives on an address not currently known',
              'open reached=%s when %s' % ((probs[0][2], probs[0][1]) if probs else ('', '')))
    for p in paths:
        for e in p.events:
            if is_open(e):
                reg = [v for a, v in p.decisions if a.text == "'get_registry' == message.name"]
                want = 'not message.sent' if (reg and reg[0]) else 'None'
                ctx.check(e.argtext(0) == 'connection_id' and e.argtext(1) == want and bool(reg), 'C15.2', 'process_message:open-args:%s' % want, f_pm.loc(e.node),
                          'opened under the message\'s connection address, role %s' % want, 'opened as %s' % e.text[:100])
    for p in paths_of(repo, f_open):
        st = [e for e in p.events if e.kind == 'store' and e.target == 'self.connections[connection_id]']
        op = [e for e in p.events if e.kind == 'call' and e.ftext == 'self.connection_id_sink.open_connection']
        ctx.check(len(st) == 1 and len(op) == 1 and op[0].argtext(1) == 'connection_id' and op[0].argtext(2) == 'is_server' and op[0].argtext(0) == 'time_now()', 'C15.2', 'open_connection:registers-and-forwards', f_open.loc(),
                  'open_connection opens a sink connection under the same id and registers it', 'open_connection is %s' % [e.text[:60] for e in op + st])
        if st and op:
            ctx.check('self.connection_id_sink.open_connection(time_now(), connection_id, is_server)' in norm(st[0].value), 'C15.2', 'open_connection:stores-new-connection', f_open.loc(), 'the registered entry holds the connection just opened')
    cpaths = paths_of(repo, f_close)
    ncl = 0
    for p in cpaths:
        if p.outcome[0] == 'raise':
            continue
        ncl += 1
        fw = [e for e in p.events if e.kind == 'call' and e.ftext == 'self.connection_id_sink.close_connection']
        ctx.check(len(fw) == 1 and fw[0].argtext(1) == 'connection_id' and fw[0].argtext(0) == 'time_now()', 'C15.2', 'close_connection:forwards', f_close.loc(),
                  'every close is forwarded to the sink under the same id (known or not)', 'close forwards %s on path %s' % ([e.text[:60] for e in fw], p.describe()[:80]))
        known = [e.value for e in p.events if e.kind == 'decide' and e.text == 'connection_id in self.connections']
        removed = any((e.kind == 'del' and e.target == 'self.connections[connection_id]') or (e.kind == 'call' and e.ftext == 'self.connections.pop' and e.argtext(0) == 'connection_id') for e in p.events)
        if not known or known[0]:
            ctx.check(removed, 'C15.2', 'close_connection:forgets-address', f_close.loc(), 'a known address is forgotten, so a later connection at the same address is new',
                      'close_connection keeps the address registered on path %s' % p.describe()[:100])
    ctx.floor('C15.2', ncl, 1, 'normal paths of Plugin.close_connection')
    def _keeps_the_connection(w):
        # a store in process_message that writes back, under the same key, the very connection the entry holds (only what is remembered
        # next to it - the thread - changes): the table's key -> connection relation is untouched
        if w.kind != 'substore':
            return False
        hits = []
        for p_ in paths_of(repo, f_pm):
            for e_ in p_.events:
                if e_.kind == 'store' and e_.node is not None and (e_.node is w.stmt or getattr(e_.node, '_parent', None) is w.stmt or e_.node is getattr(w, 'node', None)):
                    v_ = e_.value
                    key_ = (e_.target or '')[len('self.connections['):-1]
                    hits.append(isinstance(v_, ast.Tuple) and len(v_.elts) == 2 and norm(v_.elts[1]) == 'self.connections[%s][1]' % key_)
        return bool(hits) and all(hits)
    check_writers(ctx, 'C15.2', PL, 'connections', [('Plugin.__init__', lambda w: w.fresh), ('Plugin.open_connection', lambda w: w.kind == 'substore'),
                                                    ('Plugin.close_connection', lambda w: w.kind == 'subdel' or (w.kind == 'mutate' and w.via == 'pop')),
                                                    ('Plugin.process_message', _keeps_the_connection)], floor=3)
    f_id = repo.func('extract.connection_id_of')
    from ..peval import fold, Unfoldable
    cp = f_id.params()[0]
    for p in paths_of(repo, f_id):
        ok = p.outcome[0] == 'return'
        got = []
        if ok:
            names = {x.id for x in ast.walk(p.outcome[1]) if isinstance(x, ast.Name)} - {'int', 'hex', 'str', 'format', cp}
            if names:
                ok = False          # the identity depends on something besides the connection's address
                got = ['depends on %s' % sorted(names)]
            else:
                try:
                    got = [fold(p.outcome[1], {cp: v}) for v in (0x10, 0x7f12abc0, 0x7f12abc8)]
                except Unfoldable as ex_:
                    raise AnalysisError('C15.2: cannot fold the connection identity %s: %s' % (norm(p.outcome[1])[:80], ex_))
                ok = len(set(got)) == 3 and all(isinstance(g_, str) for g_ in got)
        ctx.check(ok, 'C15.2', 'identity:address-only', f_id.loc(), 'a connection is identified by the address of its wl_connection and by nothing else (distinct addresses give distinct ids)',
                  'connection identity is %s (for three addresses: %s)' % (p.outcome_text()[:100], got))
    f_dstop = repo.func('WlConnectionDestroyBreakpoint.stop')
    for p in paths_of(repo, f_dstop):
        cl = [e for e in p.events if e.kind == 'call' and e.ftext == 'self.plugin.close_connection']
        ctx.check(len(cl) == 1 and cl[0].argtext(0) == "extract.connection_id_of(gdb.selected_frame().read_var('connection'))", 'C15.2', 'destroy-breakpoint:closes-that-connection', f_dstop.loc(),
                  'wl_connection_destroy closes the connection being destroyed', 'destroy breakpoint does %s' % [e.text[:80] for e in cl])
    # ---- C15.3 -----------------------------------------------------------------------------------------------
    nfw = 0
    for p in paths:
        fw = [e for e in p.events if e.kind == 'call' and e.ftext == 'self.connection_id_sink.message']
        if p.outcome[0] == 'raise':
            ctx.violation('C15.3', 'process_message:raises', f_pm.loc(), 'process_message raises %s on path %s' % (p.outcome[1], p.describe()[:100]))
            continue
        nfw += 1
        ctx.check(len(fw) == 1 and [norm(a) for a in fw[0].args] == ['connection_id', 'message'], 'C15.3', 'process_message:always-forwards', f_pm.loc(),
                  'every message is forwarded exactly once under its connection id, whatever thread it arrives on',
                  'message forwarded %d time(s) on path %s' % (len(fw), p.describe()[:120]))
        warns = [e for e in p.events if e.kind == 'call' and e.ftext == 'self.out.warn']
        for w in warns:
            ctx.check(p.events.index(w) < p.events.index(fw[0]) if fw else False, 'C15.3', 'thread-mismatch:warn-then-forward', f_pm.loc(w.node), 'a thread mismatch only warns')
    ctx.floor('C15.3', nfw, 3, 'normal paths of process_message')
    # .. and building the warning cannot itself fail: a `%` format whose format string contains dynamic text (the message as printed, which may
    # hold a `%`) raises TypeError / ValueError out of the breakpoint before the message is forwarded
    from .common import scope_nodes as _sn15
    for g_, n_ in _sn15(repo, f_pm):
        if isinstance(n_, ast.BinOp) and isinstance(n_.op, ast.Mod):
            left = n_.left
            dyn = [x for x in ast.walk(left) if isinstance(x, (ast.Call, ast.Name, ast.Attribute, ast.Subscript, ast.JoinedStr))]
            strish = isinstance(left, (ast.BinOp, ast.JoinedStr)) or (isinstance(left, ast.Constant) and isinstance(left.value, str))
            if strish and dyn and any(isinstance(x, ast.Constant) and isinstance(x.value, str) for x in ast.walk(left)):
                ctx.violation('C15.3', 'thread-mismatch:warning-cannot-raise', g_.loc(n_), 'the %%-format string `%s` contains dynamic text: a `%%` in it makes the formatting raise out of the '
                              'breakpoint (the message is then never forwarded)' % norm(left)[:80])
    # ---- C15.4 -----------------------------------------------------------------------------------------------
    safe = set()
    for f, dicts, inl in ((f_close, {'self.connections'}, ()), (repo.func('ConnectionManager.close_connection'), {'self.open_connections'}, ())):
        for r_ in keysafe.analyse(repo, f, dicts, inl):
            if r_['safe']:
                safe.add(id(r_['node']))
    esc = [rs for rs in ex.escapes(f_dstop) if rs.exc in ('KeyError', 'RuntimeError') and rs.func.module.name.split('.')[0] in ('backends', 'core', 'frontends', 'interfaces')]
    def is_safe(rs):
        if rs.kind != 'implicit':
            return False
        n = rs.node
        if id(n) in safe:
            return True
        par = getattr(n, '_parent', None)
        return isinstance(par, ast.Delete) and id(par) in safe
    esc = [rs for rs in esc if not is_safe(rs)]
    ctx.check(not esc, 'C15.4', 'destroy-breakpoint:escape-set', f_dstop.loc(), 'no KeyError / RuntimeError can escape the destroy breakpoint from the tool\'s own code',
              'the destruction of a connection can raise out of stop(): %s' % sorted(r_.key() for r_ in esc)[:3])
    # ---- C15.5 behind the plugin ----------------------------------------------------------------------------------
    # The plugin only announces opens / closes and hands messages on with the address as identifier; that each message then reaches the
    # connection that is open under that address NOW (not one remembered from an earlier message), and that an address opened again is
    # a new connection, is decided by the connection manager's own rules - their findings are findings here.
    from . import common as _common, c04 as _c04
    _common.lift(ctx, 'C15.5', 'behind-the-plugin', _c04, 'C04', ('C04.2', 'C04.4'),
                 'a message on an address must be delivered to the connection open at that address now; an address opened again is a new connection', floor=4)
    return ('key-presence analysis of the connection tables over all paths, scenario evaluation of open-on-first-sight, exception escape set of '
            'the destroy breakpoint. Decided: %s. Undecided: %s' % ('; '.join(ctx.decided), '; '.join(ctx.undecided)))
