"""C06 - the live view shows exactly the messages matching the current filter."""
import ast
import re

from ..core import AnalysisError, norm
from ..sim import check_reach
from .common import (effects, paths_of, check_writers, check_callers, arg_by_name, named_call_sites, call_sites_of)

CTRL = 'frontends.tui.controller.Controller'
CI = 'core.connection_impl.ConnectionImpl'


def selection_mapper(conn_name='connection', extra=None):
    def m(a):
        t = a.text
        if t == 'self.current_connection is None':
            return ('none', True)
        if t == 'self.current_connection':
            return ('none', False)
        if t in ('%s == self.current_connection' % conn_name, 'self.current_connection == %s' % conn_name,
                 '%s is self.current_connection' % conn_name, 'self.current_connection is %s' % conn_name):
            return ('this', True)
        if extra:
            return extra(a)
        return None
    return m


def check_recorded(ctx, rule):
    """Every arriving message is appended to the controller's record exactly once, before any filtering (also used by C11)."""
    repo = ctx.repo
    f_new = repo.func('Controller.connection_got_new_message')
    npaths = paths_of(repo, f_new)
    is_rec = lambda e: e.kind == 'call' and e.ftext == 'self.all_messages.append'
    for p in npaths:
        rec = [i for i, e in enumerate(p.events) if is_rec(e)]
        oth = [i for i, e in enumerate(p.events) if e.kind in ('call', 'decide') and not is_rec(e)]
        ctx.check(len(rec) == 1 and (not oth or rec[0] < oth[0]) and p.events[rec[0]].argtext(0) == 'message' and not p.events[rec[0]].loops,
                  rule, 'controller:record-first', f_new.loc(),
                  'every message is appended to all_messages exactly once, before any filtering or selection test',
                  'path %s does not record the message first/once: messages of some connections never reach the all-connections record' % p.describe()[:160])
    ctx.floor(rule, len(npaths), 4, 'paths of connection_got_new_message')


def check_selection(ctx, rule):
    """The selected connection changes only on a successful `connection` command: to None for `all`, to a connection that
    was found (tested non-None before the store) otherwise.  Also used by C10 and C11."""
    repo = ctx.repo
    f = repo.func('Controller.connection_command')
    n = 0
    from ..sim import _literal_elts
    for p in paths_of(repo, f, unroll=1):
        for i, e in enumerate(p.events):
            if e.kind == 'store' and e.target == 'self.current_connection':
                n += 1
                val = e.value
                # X[k] of a list known element by element on this path is that element
                if isinstance(val, ast.Subscript) and isinstance(val.slice, ast.Constant) and isinstance(val.slice.value, int):
                    elts = _literal_elts(val.value)
                    if elts is not None and -len(elts) <= val.slice.value < len(elts):
                        val = elts[val.slice.value]
                    elif elts is not None:
                        n -= 1
                        continue        # the list is known to be shorter on this path: the path cannot be taken (the length test before it failed)
                v = norm(val)
                before = [(x.text, x.value) for x in p.events[:i] if x.kind == 'decide']
                if v == 'None':
                    # cleared only because the command said so: some decision on the typed text (compared with a word) was taken as true
                    ok = any(val_ is True and 'arg' in t_ and re.search(r"""(^|\W)'[\w*]+' == |== '[\w*]+'$""", t_) for t_, val_ in before)
                    why = 'the selection is cleared only when the command asks for all connections'
                    bad = 'the selected connection is cleared without the command having asked for it'
                elif v.startswith('<elem') and '.connections()' in v:
                    ok = True
                    why = 'the selection is set to one of the listed connections'
                    bad = ''
                elif '_get_connection(' in v:
                    ok = (v + ' is None', False) in before or (v, True) in before
                    why = 'the selection is set only to a connection that was looked up and found'
                    bad = 'the selected connection is overwritten with %s before/without testing that it names a connection: a mistyped name silently changes the selection' % v[:60]
                else:
                    raise AnalysisError('%s: cannot tell where the value stored into the selection comes from: %s' % (rule, v[:80]))
                ctx.check(ok, rule, 'selection:store:%s' % ('clear' if v == 'None' else 'set'), f.loc(e.node), why, bad)
    ctx.floor(rule, n, 2, 'stores to current_connection in connection_command')
    f_gc = repo.func('Controller._get_connection')
    rets = {norm(p.outcome[1]) for p in paths_of(repo, f_gc, unroll=1) if p.outcome[0] == 'return'}
    ctx.check('None' in rets and all(r == 'None' or r.startswith('<elem') for r in rets), rule, 'selection:lookup-returns-listed-connection', f_gc.loc(),
              '_get_connection returns one of the listed connections or None', '_get_connection returns %s' % sorted(rets))


def run(ctx):
    repo = ctx.repo
    cg = repo.callgraph()
    ef = effects(repo)
    ctx.decided = ['C06.1 always recorded', 'C06.2 show iff (no selection or this connection) and filter matches',
                   'C06.3 once, in order', 'C06.4 filter/selection changes touch no record and show nothing', 'C06.5 matchers are pure']
    ctx.undecided = ['what matches() returns (C05)']
    f_new = repo.func('Controller.connection_got_new_message')
    f_cimsg = repo.func('ConnectionImpl.message')
    f_show = repo.func('Controller._show_message')
    f_mshow = repo.func('message.Message.show')

    # ---- C06.1 -------------------------------------------------------------------------------------------
    npaths = paths_of(repo, f_new)
    is_rec = lambda e: e.kind == 'call' and e.ftext == 'self.all_messages.append'
    is_show = lambda e: e.kind == 'call' and e.ftext == 'self._show_message'
    check_recorded(ctx, 'C06.1')
    check_writers(ctx, 'C06.1', CTRL, 'all_messages', [('Controller.__init__', lambda w: w.fresh and isinstance(w.stmt.value, ast.List)),
                                                        ('Controller.connection_got_new_message', lambda w: w.kind == 'mutate' and w.via == 'append')], floor=2)
    check_writers(ctx, 'C06.1', CI, 'message_list', [('ConnectionImpl.__init__', lambda w: w.fresh and isinstance(w.stmt.value, ast.List)),
                                                      ('ConnectionImpl.message', lambda w: w.kind == 'mutate' and w.via == 'append')], floor=2)
    from .common import raise_model
    rm = raise_model(repo)

    def mr_cim(e):
        ft = e.ftext or ''
        if ft.endswith('message.resolve'):
            return ['RuntimeError']
        if ft == 'self.listener.connection_got_new_message' or ft.startswith('logger.') or ft.startswith('logging.'):
            return ()
        from ..flow import handler_stack
        if not handler_stack(f_cimsg, e.node):
            return ()           # only failures that a handler of this function turns back into normal control flow matter here
        return rm(e)
    cpaths = paths_of(repo, f_cimsg, asserts='fork', may_raise=mr_cim)
    nn = 0
    for p in cpaths:
        rec = [i for i, e in enumerate(p.events) if e.kind == 'call' and e.ftext == 'self.message_list.append']
        res = [i for i, e in enumerate(p.events) if e.kind == 'call' and e.ftext == 'message.resolve']
        lst = [i for i, e in enumerate(p.events) if e.kind == 'call' and e.ftext == 'self.listener.connection_got_new_message']
        ctx.check(len(rec) == 1 and bool(res) and rec[0] < res[0] and p.events[rec[0]].argtext(0) == 'message', 'C06.1', 'connection:record-before-resolve',
                  f_cimsg.loc(), 'the connection records the message (once) before resolving it, so even a failing message is kept',
                  'path %s does not record before resolving' % p.describe()[:160])
        if p.outcome[0] != 'raise':
            nn += 1
            ctx.check(len(lst) == 1 and res and res[0] < lst[0] and [norm(a) for a in p.events[lst[0]].args] == ['self', 'message']
                      and not p.events[lst[0]].loops, 'C06.3', 'connection:notify-once-after-resolve', f_cimsg.loc(),
                      'listeners are told about the message exactly once, after it was resolved',
                      'listeners are notified %d time(s) on path %s' % (len(lst), p.describe()[:120]))
        else:
            ctx.check(not lst, 'C06.3', 'connection:no-notify-on-failure', f_cimsg.loc(), 'a message whose resolution raised is not shown')
    ctx.floor('C06.3', nn, 1, 'normal paths of ConnectionImpl.message')
    f_msgs = repo.func('ConnectionImpl.messages')
    for p in paths_of(repo, f_msgs):
        ctx.check(p.outcome[0] == 'return' and norm(p.outcome[1]) == 'tuple(self.message_list)', 'C06.1', 'connection:messages-returns-record',
                  f_msgs.loc(), 'messages() returns the record, in order')

    # ---- C06.2 show iff ---------------------------------------------------------------------------------------
    def extra(a):
        if a.text == 'self.display_matcher.matches(message)':
            return ('filter', True)
        return None
    probs = check_reach(npaths, is_show, selection_mapper('connection', extra), lambda F: (F['none'] or F['this']) and F['filter'],
                        universe=['none', 'this', 'filter'], feasible=lambda F: True)
    ctx.check(not probs, 'C06.2', 'live-view:show-iff', f_new.loc(),
              '_show_message is reached iff (no connection selected or this one) and the display filter matches this message',
              '_show_message reached=%s in scenario %s on path %s' % ((probs[0][2], probs[0][1], probs[0][0].describe()[:200]) if probs else ('', '', '')))
    ns = 0
    for p in npaths:
        sh = [e for e in p.events if is_show(e)]
        if sh:
            ns += 1
        ctx.check(len(sh) <= 1 and all(e.argtext(0) == 'message' and not e.loops for e in sh), 'C06.3', 'live-view:show-once', f_new.loc(),
                  'the message itself is shown at most once per arrival', 'shown %d times / different object on path %s' % (len(sh), p.describe()[:120]))
    ctx.floor('C06.2', ns, 2, 'showing paths')
    # the filter atom must exist (guards against the filter test being dropped while facts stay consistent)
    ctx.check(any(any(a.text == 'self.display_matcher.matches(message)' for a, v in p.decisions) for p in npaths), 'C06.2', 'live-view:filter-consulted',
              f_new.loc(), 'the display filter is consulted with the arriving message')

    # ---- C06.3 single route to Message.show ------------------------------------------------------------------------
    from .common import effective_funcs as _eff6
    callers = cg.callers_of(f_mshow)
    for f, s in callers:
        ctx.check(all(g is f_show for g in _eff6(repo, f)), 'C06.3', 'show:caller:%s' % f.qual, f.loc(s.node), 'Message.show is called only by Controller._show_message',
                  'Message.show is also called from %s (a second display route)' % f.short)
    ctx.floor('C06.3', len(callers), 1, 'caller of Message.show')
    callers = cg.callers_of(f_show)
    for f, s in callers:
        ctx.check(all(g.short in ('Controller.connection_got_new_message', 'Controller.show_messages') for g in _eff6(repo, f)), 'C06.3', 'show_message:caller:%s' % f.qual, f.loc(s.node),
                  '_show_message is called by the live view and by listings only', '_show_message is also called from %s' % f.short)
    ctx.floor('C06.3', len(callers), 1, 'callers of _show_message')
    for p in paths_of(repo, f_show):
        sh = [e for e in p.events if e.kind == 'call' and e.ftext == 'message.show']
        ctx.check(len(sh) == 1 and sh[0].argtext(0) == 'self.out', 'C06.3', '_show_message:shows-once', f_show.loc(),
                  '_show_message prints its message exactly once to the output', 'prints %d times' % len(sh))
    sites = named_call_sites(repo, 'add_connection_listener')
    for f, n in sites:
        ctx.check(f.short in ('Controller.connection_opened',), 'C06.3', 'listener-registration:%s' % f.qual, f.loc(n),
                  'the controller registers itself with a connection only when that connection is opened',
                  'a connection listener is also registered in %s (messages would be shown twice)' % f.short)
    ctx.floor('C06.3', len(sites), 1, 'add_connection_listener call')
    f_opened = repo.func('Controller.connection_opened')
    for p in paths_of(repo, f_opened):
        reg = [e for e in p.events if e.kind == 'call' and e.ftext == 'connection.add_connection_listener']
        ctx.check(len(reg) == 1 and reg[0].argtext(0) == 'self', 'C06.3', 'connection_opened:registers-once', f_opened.loc(), 'registers itself exactly once')
    f_add = repo.func('ConnectionImpl.add_connection_listener')
    for p in paths_of(repo, f_add):
        reg = [e for e in p.events if e.kind == 'call' and e.ftext == 'self.listener.add_listener']
        ctx.check(len(reg) == 1, 'C06.3', 'add_connection_listener:adds-once', f_add.loc(), 'adds the listener once')

    # ---- C06.4 commands that change filter / selection ----------------------------------------------------------------
    records = {('core.connection_impl.ConnectionImpl', 'message_list'), ('core.connection_impl.ConnectionImpl', 'db'),
               (CTRL, 'all_messages')}
    for cname in ('filter_command', 'break_point_command', 'connection_command'):
        f = repo.func('Controller.' + cname)
        ws = ef.closure_writes([f])
        bad = [w for w in ws if any((o, w.attr) in records for o in w.owners) or (not w.owners and w.attr in ('message_list', 'db', 'all_messages'))]
        ctx.check(not bad, 'C06.4', '%s:touches-no-record' % cname, f.loc(), '%s writes none of the records' % cname,
                  '%s can write %s' % (cname, [(w.func.short, w.attr) for w in bad][:4]))
        reach = cg.closure([f])
        ctx.check(f_mshow not in reach and f_show not in reach, 'C06.4', '%s:shows-nothing' % cname, f.loc(),
                  '%s never (re)displays messages: a change applies to later arrivals only' % cname,
                  '%s reaches the message display (%s)' % (cname, [g.short for g in (cg.find_path(f, lambda g: g is f_mshow) or [])]))
    check_writers(ctx, 'C06.4', CTRL, 'display_matcher', [('Controller.__init__', lambda w: w.fresh), ('Controller.filter_command', None)], floor=2)
    # .. and the filter object itself is not changed behind the attribute: nothing hands it to a position that is mutated in place
    # (matcher.join and simplify() rewrite the lists of the matcher they are given)
    from . import common as _cm6
    _cm6.check_not_mutated_in_place(ctx, 'C06.4', 'display_matcher', 'the current filter')
    check_selection(ctx, 'C06.4')
    check_writers(ctx, 'C06.4', CTRL, 'current_connection', [('Controller.__init__', lambda w: w.fresh), ('Controller.connection_command', None)], floor=2)      # (the initial value and at least one store by the command; the command's own stores are judged by check_selection)

    # ---- C06.5 matchers are pure ------------------------------------------------------------------------------------------
    mbase = repo.cls('core.matcher.Matcher')
    nm = 0
    for c in [mbase] + repo.subclasses(mbase):
        m = c.methods.get('matches')
        if m is None:
            continue
        nm += 1
        ws = [w for w in ef.closure_writes([m])]
        ctx.check(not ws, 'C06.5', 'pure:%s' % m.qual, m.loc(), '%s.matches writes nothing' % c.name,
                  '%s.matches has side effects: %s' % (c.name, [(w.func.short, w.attr, w.kind) for w in ws][:4]))
    ctx.floor('C06.5', nm, 15, 'matches() implementations')
    # a message that raises on its way through ConnectionImpl.message (after it was put on the connection's record, before the listeners hear
    # of it) is recorded but never shown and never reaches the record `list` reads: which errors can take that way out is the pass-through
    # rule of C08.2 - its findings are findings here
    from . import common as _cm6b, c08 as _c08
    _cm6b.lift(ctx, 'C06.3', 'message-not-lost-to-an-error', _c08, 'C08', ('C08.2',), 'a decoded message must reach the listeners: an error raised while it is resolved drops it from the live view',
               key_filter=lambda k: 'passthrough-raise:' in k, floor=1, soft=True)

    # "matching the current filter" means matching as documented: what a matcher selects is C05 - its findings are findings about the live view
    from . import c05 as _c05
    _cm6b.lift(ctx, 'C06.5', 'filter-selects-what-the-documentation-says', _c05, 'C05', ('C05.1', 'C05.2', 'C05.3', 'C05.4', 'C05.5', 'C05.6'),
               'the live view shows the messages the filter selects: a matcher that selects other messages than documented shows other lines', floor=20, soft=True)

    return ('scenario evaluation of the live-view guard, who-calls tables of the display route, transitive write sets of the '
            'filter/selection commands and of all matches() implementations. Decided: %s. Undecided: %s'
            % ('; '.join(ctx.decided), '; '.join(ctx.undecided)))
