"""C08 - no input line is lost, reordered or altered; output keeps pace with input."""
import ast
import re

from ..core import AnalysisError, norm
from ..sim import check_reach
from ..flow import handler_stack, first_catcher
from .common import (dtext, effects, exceptions, paths_of, check_writers, arg_by_name, named_call_sites, call_sites_of)

# raise functions that may reach the pass-through handler, with the reason they are accepted
TRIAGE = {
    'backends.libwayland_debug_output.parse.message': 'the intended flow: RuntimeError(raw) for a line that is not a message',
    'core.connection_impl.ConnectionImpl.retrieve_object': 'only via delete_id naming an id that was never created (ill-formed history, outside C08\'s quantifier)',
}


JOINED = re.compile(r"' '\.join\((?:map\(lambda (\w+): str\(\1\), msg\)|map\(str, msg\)|\(?str\((\w+)\) for \2 in msg\)?|\[str\((\w+)\) for \3 in msg\])\)")


def check_loop_exits(ctx, rule, paths):
    """The read loop of parse_all is left only at end of input or on KeyboardInterrupt (also used by C18.4)."""
    repo = ctx.repo
    f_pa = repo.func('Parser.parse_all')
    loops = [n for n in f_pa.body_nodes() if isinstance(n, (ast.While, ast.For))]
    ctx.check(len(loops) == 1, rule, 'parse_all:one-loop', f_pa.loc(), 'parse_all is one read loop')
    nb = 0
    from ..sim import is_new_function
    from .common import scope_funcs
    scope = scope_funcs(repo, f_pa)     # parse_all and the helpers freshly extracted from it

    def read_loop_of(fn_, n):
        """is the nearest loop around n the read loop (parse_all's loop, or the loop of a generator helper that yields the lines)?"""
        lp = getattr(n, '_parent', None)
        while lp is not None and not isinstance(lp, (ast.While, ast.For, ast.FunctionDef)):
            lp = getattr(lp, '_parent', None)
        if not isinstance(lp, (ast.While, ast.For)):
            return False
        if fn_ is f_pa:
            return lp in loops and not any(isinstance(a, (ast.While, ast.For)) and a is not lp and lp in list(ast.walk(a)) for a in loops)
        return any(isinstance(x, (ast.Yield, ast.YieldFrom)) for x in ast.walk(lp))
    for fn_ in scope:
      is_gen = any(isinstance(x, (ast.Yield, ast.YieldFrom)) for x in ast.walk(fn_.node))
      for n in fn_.body_nodes():
        if (isinstance(n, ast.Return) and (fn_ is f_pa or is_gen)) or (isinstance(n, ast.Break) and (fn_ is f_pa or is_gen) and read_loop_of(fn_, n)):
            if isinstance(n, ast.Return) and n.value is not None:
                continue
            nb += 1
            par = n._parent
            ok = False
            why = ''
            if isinstance(par, ast.If) and re.match(r"^(\w+ == ''|'' == \w+|not \w+|len\(\w+\) == 0)$", norm(par.test)) and n in par.body:
                ok, why = True, 'end of input'
            hh = n
            while hh is not None and not isinstance(hh, ast.ExceptHandler):
                hh = getattr(hh, '_parent', None)
            if hh is not None and norm(hh.type) == 'KeyboardInterrupt':
                ok, why = True, 'interrupt'
            if not ok and isinstance(par, ast.If):
                # the guard tests a value handed back by a freshly extracted helper (e.g. a `None` end-of-input sentinel): what that value means
                # is decided on the paths below (exit:only-eof-or-interrupt), not from this statement's text
                tn = {x.id for x in ast.walk(par.test) if isinstance(x, ast.Name)}
                from_helper = False
                for st_ in fn_.body_nodes():
                    if isinstance(st_, ast.Assign) and any(isinstance(t_, ast.Name) and t_.id in tn for t_ in st_.targets) and isinstance(st_.value, ast.Call):
                        cs_ = repo.callgraph().site_of(fn_, st_.value)
                        if cs_ is not None and any(is_new_function(g_) for g_ in cs_.targets):
                            from_helper = True
                if from_helper:
                    ctx.check(True, rule, 'exit:%s:decided-on-paths' % type(n).__name__, f_pa.loc(n), 'loop exit guarded by a helper\'s result: decided by the path rule')
                    continue
            ctx.check(ok, rule, 'exit:%s:%s' % (type(n).__name__, why or norm(par)[:40]), f_pa.loc(n), 'loop exit on %s' % why,
                      'the read loop can also be left at `%s` under `%s`: remaining lines are lost' % (norm(n), norm(par.test)[:60] if isinstance(par, ast.If) else type(par).__name__))
    nfall = 0
    for p in paths:
        if p.outcome[0] == 'fall':
            nfall += 1
            eof = [v for a, v in p.decisions if a.text in ("'' == input_file.readline()",)] + \
                  [not v for a, v in p.decisions if a.text in ('input_file.readline()', "0 < len(input_file.readline())")]
            intr = any(e.kind == 'handler' and e.extra == 'KeyboardInterrupt' for e in p.events)
            ctx.check((eof and eof[-1]) or intr, rule, 'exit:only-eof-or-interrupt', f_pa.loc(), 'parse_all returns only at end of input or on interrupt',
                      'parse_all returns on path %s' % p.describe()[:160])
        elif p.outcome[0] == 'raise':
            ctx.violation(rule, 'exit:raises:%s' % p.outcome[1], f_pa.loc(), 'parse_all is left by %s on path %s' % (p.outcome[1], p.describe()[:120]))
    ctx.floor(rule, nb + nfall, 2, 'loop exits (statements and returning paths) of parse_all')
    # an interrupted read ends the reading: readline() that is interrupted has already consumed (and dropped) part of a line, so reading on
    # would pass the torn rest through as if it were a line of input
    def mr2(e):
        return ['KeyboardInterrupt'] if (e.ftext or '').endswith('.readline') else ()
    n_int = 0
    for p in paths_of(repo, f_pa, may_raise=mr2, while_unroll=2):
        evs = p.events
        for i, e in enumerate(evs):
            if e.kind == 'raised-by-call' and e.extra == 'KeyboardInterrupt':
                n_int += 1
                later = [x for x in evs[i + 1:] if x.kind == 'call' and x.ftext and re.search(r'\.(readline|read|readlines)$', x.ftext)]
                ctx.check(not later, rule, 'interrupt:ends-reading', f_pa.loc(), 'after an interrupted read nothing more is read',
                          'after a KeyboardInterrupt inside readline() the loop reads on (%s): the part of the line consumed before the interrupt is lost and the rest is passed through as text'
                          % (later[0].text[:40] if later else ''))
    ctx.floor(rule, n_int, 1, 'interrupted reads of parse_all')


# exceptions that the (over-approximating) call graph lets escape but that cannot occur, with the rule that shows it
ESC_TRIAGE = {
    ('core.letter_id_generator.number_to_letter_id', 'AssertionError'):
        'value >= 0: generations are list indices (C02.2), connection ordinals start at 0 and only grow (C04.3)',
}


def check_decoder_input(ctx, rule, paths):
    """message() is applied to the stripped line that was just read - that line by itself, nothing carried over from other lines - and what it
    returns is handed over unmodified (also the per-line part of C01: a line's decoding depends on that line alone)"""
    f_pa = ctx.repo.func('Parser.parse_all')
    nm = 0
    for p in paths:
        for e in p.events:
            if e.kind == 'call' and e.ftext == 'message':
                nm += 1
                ctx.check(e.argtext(0) == 'input_file.readline().strip()', rule, 'decode:the-line-read', f_pa.loc(e.node), 'the decoder is given the line just read (whitespace-stripped)', 'the decoder is given %s' % e.argtext(0))
            if e.kind == 'call' and e.ftext == 'self.handle_message':
                ctx.check([norm(a) for a in e.args] in (['message(input_file.readline().strip())[0]', 'message(input_file.readline().strip())[1]'], ['*message(input_file.readline().strip())']),
                          rule, 'decode:hands-over-result', f_pa.loc(e.node),
                          'the decoded (connection id, message) pair is handed over unmodified', 'hands over %s' % e.text[:140])
    ctx.floor(rule, nm, 1, 'message() call in parse_all')


def parse_all_paths(ctx):
    repo = ctx.repo
    f_pa = repo.func('Parser.parse_all')

    def mr(e):
        ft = e.ftext or ''
        if ft == 'message':
            return ['RuntimeError']
        if ft == 'self.handle_message':
            return ['RuntimeError', 'AssertionError']
        if ft == 'input_file.readline':
            return ['KeyboardInterrupt']
        return ()
    return paths_of(repo, f_pa, may_raise=mr, while_unroll=2 if ctx.tier == 'thorough' else 1)


def run(ctx):
    repo = ctx.repo
    cg = repo.callgraph()
    ex = exceptions(repo)
    ctx.decided = ['C08.1 one read, one outcome per iteration', 'C08.2 pass-through text is the line, only for non-messages',
                   'C08.3 loop exits', 'C08.4 --supress affects only pass-through', 'C08.5 notices after the last line', 'C08.6 synchronous output chain', 'C08.7 the item shown for a message is the whole decoded message']
    ctx.undecided = ['OS-level buffering of print', 'behaviour after the deliberate stop-decoding latch (internal error)']
    f_pa = repo.func('Parser.parse_all')
    f_hm = repo.func('Parser.handle_message')
    f_msg = repo.func('parse.message')

    def mr(e):
        ft = e.ftext or ''
        if ft == 'message':
            return ['RuntimeError']
        if ft == 'self.handle_message':
            return ['RuntimeError', 'AssertionError']
        if ft == 'input_file.readline':
            return ['KeyboardInterrupt']
        return ()
    paths = paths_of(repo, f_pa, may_raise=mr, while_unroll=2 if ctx.tier == 'thorough' else 1)
    ctx.floor('C08.1', len(paths), 6, 'paths of parse_all')

    # ---- C08.1 -----------------------------------------------------------------------------------------------
    loop_ids = set()
    for p in paths:
        for e in p.events:
            if e.loops:
                loop_ids.add(e.loops[0][0])
    n_it = 0
    for p in paths:
        iters = sorted({e.loops[0] for e in p.events if e.loops})
        for it in iters:
            evs = [e for e in p.events if e.loops and e.loops[0] == it]
            reads = [e for e in evs if e.kind == 'call' and e.ftext and e.ftext.endswith('.readline')]
            other_reads = [e for e in evs if e.kind == 'call' and e.ftext and re.search(r'\.(read|readlines|read1|readinto)$', e.ftext)]
            unp = [e for e in evs if e.kind == 'call' and e.ftext == 'self.out.unprocessed']
            hm = [e for e in evs if e.kind == 'call' and e.ftext == 'self.handle_message']
            raised = [e for e in evs if e.kind == 'raised-by-call']
            n_it += 1
            ctx.check(len(reads) == 1 and not other_reads, 'C08.1', 'iteration:one-readline', f_pa.loc(), 'each iteration reads exactly one line with readline()',
                      'an iteration performs %d readline() and %d other reads' % (len(reads), len(other_reads)))
            msg_failed = any(r.text.startswith('message(') for r in raised)
            hm_failed = any(r.text.startswith('self.handle_message(') for r in raised)
            if reads and any(r.text.startswith('input_file.readline') for r in raised):
                continue
            eof = [v for a, v in p.decisions if a.text == "'' == input_file.readline()"]
            if msg_failed:
                ctx.check(len(unp) == 1 and not hm, 'C08.1', 'iteration:non-message->passthrough-only', f_pa.loc(),
                          'a line that is not a message yields exactly one pass-through item and nothing else',
                          'non-message line yields %d pass-through item(s), %d decode(s)' % (len(unp), len(hm)))
            elif hm and not hm_failed:
                ctx.check(len(hm) == 1 and not unp, 'C08.1', 'iteration:message->decode-only', f_pa.loc(),
                          'a message line is handed to the decoder exactly once and is not also passed through',
                          'message line yields %d decode(s), %d pass-through item(s)' % (len(hm), len(unp)))
            elif not hm and not msg_failed and evs and any(e.kind == 'call' and e.ftext == 'message' for e in evs):
                # decoding disabled (after an internal error): nothing is emitted for the line
                ctx.check(not unp, 'C08.1', 'iteration:latched->nothing', f_pa.loc(), 'after the stop-decoding latch a message line yields nothing')
    ctx.floor('C08.1', n_it, 6, 'iterations examined')
    check_decoder_input(ctx, 'C08.1', paths)
    # the latch: decoding starts enabled and only an internal error (the catch-all handler) turns it off - decided on two-iteration paths:
    # in the second iteration a decodable line is handed to the decoder exactly when the first iteration did not end in the catch-all handler
    paths2 = paths if ctx.tier == 'thorough' else paths_of(repo, f_pa, may_raise=mr, while_unroll=2)
    n_l2 = 0
    latch_bad = None
    for p in paths2:
        its = sorted({e.loops[0] for e in p.events if e.loops}, key=lambda x: x[1])
        if len(its) < 2:
            continue
        ev1 = [e for e in p.events if e.loops and e.loops[0] == its[0]]
        ev2 = [e for e in p.events if e.loops and e.loops[0] == its[1]]
        internal1 = any(e.kind == 'handler' and e.extra not in ('RuntimeError', 'KeyboardInterrupt') for e in ev1)
        decoded2 = any(e.kind == 'call' and e.ftext == 'message' for e in ev2) and not any(e.kind == 'raised-by-call' and e.text.startswith('message(') for e in ev2)
        if not decoded2:
            continue
        n_l2 += 1
        hm2 = any(e.kind == 'call' and e.ftext == 'self.handle_message' for e in ev2)
        if hm2 == internal1:
            latch_bad = latch_bad or (p, internal1, hm2)
    ctx.check(latch_bad is None, 'C08.1', 'latch:only-internal-error-disables', f_pa.loc(), 'decoding starts enabled and is disabled only by the internal-error handler',
              'after a first line that %s an internal error, a decodable second line is %s to the decoder; path %s'
              % (('raised' if latch_bad[1] else 'did not raise'), ('still handed' if latch_bad[2] else 'not handed'), latch_bad[0].describe()[:200]) if latch_bad else '')
    ctx.floor('C08.1', n_l2, 4, 'two-line paths of parse_all with a decodable second line')

    # a message line must be decoded, never passed through: the acceptance part of C01 (language inclusion of the printer's
    # lines in what message() accepts) is a clause of C08 as well
    from ..report import Ctx as _Ctx
    from . import c01 as _c01
    sub = _Ctx('C01', repo, tier=ctx.tier, quiet=True)
    try:
        _c01.run(sub)
    except AnalysisError as ex_c01:
        # the line-language part cannot be evaluated on this tree: that clause is undecided (reported when nothing else is found), the rules
        # about the loop, the pass-through text and the exits below are evaluated all the same
        ctx.floor_failures.append('C08.1 (line acceptance, from C01): %s' % str(ex_c01)[:300])
        sub.obligations = [o for o in sub.obligations if o['rule'] != 'C01.6'] + [{'rule': 'C01.6'}] * 4
        sub.violations = [v for v in sub.violations if v['rule'] == 'C01.6']
    nacc = 0
    for o in sub.obligations:
        if o['rule'] == 'C01.6':
            nacc += 1
    for v in sub.violations:
        if v['rule'] == 'C01.6':
            ctx.violation('C08.1', 'message-line-not-decoded:' + v['key'], v['site'], 'a Wayland message line is not decoded but passed through as text (hidden by --supress): ' + v['msg'], v['witness'])
    if not [v for v in sub.violations if v['rule'] == 'C01.6']:
        ctx.ok('C08.1', f_msg.loc(), 'message-lines-decoded', 'every sent/received message line of the printer language takes a decoding path of message() (%d obligations of C01.6)' % nacc)
    ctx.floor('C08.1', nacc, 4, 'line acceptance obligations')
    # ---- C08.2 -----------------------------------------------------------------------------------------------
    from .common import scope_nodes
    hfunc = {id(n): g__ for g__, n in scope_nodes(repo, f_pa) if isinstance(n, ast.ExceptHandler)}
    handlers = [n for g__, n in scope_nodes(repo, f_pa) if isinstance(n, ast.ExceptHandler)]
    pt = [h for h in handlers if any(isinstance(x, ast.Call) and norm(x.func) == 'self.out.unprocessed' for s in h.body for x in ast.walk(s))]
    if len(pt) != 1:
        raise AnalysisError('C08.2: expected exactly one pass-through handler in parse_all, found %d' % len(pt))
    h = pt[0]
    calls = [x for s in h.body for x in ast.walk(s) if isinstance(x, ast.Call) and norm(x.func) == 'self.out.unprocessed']
    ctx.check(h.name is not None and all(norm(c.args[0]) == 'str(%s)' % h.name for c in calls if c.args), 'C08.2', 'handler:prints-exception-text', f_pa.loc(h),
              'the pass-through handler prints exactly the exception\'s text', 'the pass-through handler prints %s' % [norm(c)[:60] for c in calls])
    reach = ex.reaching_handler(hfunc.get(id(h), f_pa), h)
    funcs = {}
    from .common import effective_funcs
    for rs, chain in reach:
        # a raise inside a freshly extracted helper is a raise of the function(s) it was extracted from
        effs = effective_funcs(repo, rs.func)
        funcs.setdefault(effs[0].qual if len(effs) == 1 else rs.func.qual, []).append(rs)
    ctx.floor('C08.2', len(funcs), 1, 'raise functions reaching the pass-through handler')
    for q, sites in sorted(funcs.items()):
        key = 'passthrough-raise:%s' % q
        site = sites[0].func.loc(sites[0].node)
        if q in TRIAGE:
            ctx.ok('C08.2', site, key, 'accepted: ' + TRIAGE[q])
        else:
            ch = ex.chain(hfunc.get(id(h), f_pa), sites[0])
            ctx.violation('C08.2', key, site,
                          'a %s raised in %s reaches parse_all\'s pass-through handler: a well-formed message line is replaced by the exception text (%s) and hidden by --supress'
                          % (sites[0].exc, sites[0].func.short, sites[0].text[:80]), {'chain': [g.short for g in ch] if ch else None})
    # the intended raise carries the raw line
    own = [rs for rs in funcs.get('backends.libwayland_debug_output.parse.message', [])]
    for rs in own:
        n = rs.node
        good = isinstance(n.exc, ast.Call) and len(n.exc.args) == 1 and norm(n.exc.args[0]) == f_msg.params()[0]
        if not good and rs.func is not f_msg and isinstance(n.exc, ast.Call) and len(n.exc.args) == 1 and isinstance(n.exc.args[0], ast.Name) and n.exc.args[0].id in rs.func.params():
            # raised in an extracted helper: its parameter must be bound to the raw line at the call in message()
            k_ = rs.func.params().index(n.exc.args[0].id)
            sites_ = [x for x in f_msg.body_nodes() if isinstance(x, ast.Call) and isinstance(x.func, ast.Name) and x.func.id == rs.func.name]
            good = bool(sites_) and all((len(c_.args) > k_ and norm(c_.args[k_]) == f_msg.params()[0]) or any(kw.arg == n.exc.args[0].id and norm(kw.value) == f_msg.params()[0] for kw in c_.keywords) for c_ in sites_)
        ctx.check(good, 'C08.2', 'message:raises-the-line', f_msg.loc(n), 'the not-a-message error carries the raw line itself', 'the not-a-message error carries %s' % norm(n)[:80])
    # .. and the name still holds the line as it was read: no path that ends in the not-a-message error rebinds the parameter before raising
    try:
        raw_paths = paths_of(repo, f_msg)
    except AnalysisError:
        raw_paths = []
    par_raw = f_msg.params()[0]
    for p in raw_paths:
        if p.outcome[0] == 'raise' and p.outcome[1] == 'RuntimeError':
            reb = [e for e in p.events if e.kind == 'bind' and e.target == par_raw and e.func is f_msg]
            ctx.check(not reb, 'C08.2', 'message:line-unaltered-when-raised', f_msg.loc(reb[0].node) if reb else f_msg.loc(),
                      'the line is not rebound before it is raised as not-a-message text', 'the line handed to the pass-through is first altered: %s = %s' % (par_raw, norm(reb[0].value)[:80] if reb else ''))
    ctx.floor('C08.2', len(own), 1, 'not-a-message raise in parse.message')
    # no RuntimeError can come out of the listener dispatch (a line never yields both a shown message and a pass-through item)
    f_cim = repo.func('ConnectionImpl.message')
    disp = [s for s in cg.sites.get(f_cim, []) if not s.prop and norm(s.node.func) == 'self.listener.connection_got_new_message']
    ctx.floor('C08.2', len(disp), 1, 'listener dispatch in ConnectionImpl.message')
    for s in disp:
        esc = set()
        for g in cg.targets(s):
            esc |= {rs for rs in ex.escapes(g) if rs.exc in ('RuntimeError', 'NotImplementedError')}
        ctx.check(not esc, 'C08.2', 'dispatch:no-runtime-error-after-show', f_cim.loc(s.node), 'nothing after the display step can raise into the pass-through handler',
                  'RuntimeError can escape the listeners after the message was shown: %s' % sorted(r.key() for r in esc)[:3])
    after = False
    for st in f_cim.node.body:
        if any(x is s.node for s in disp for x in ast.walk(st)):
            after = True
            continue
        if after:
            ok = isinstance(st, ast.Try) and any(hh.type is None or norm(hh.type) in ('Exception', 'BaseException') for hh in st.handlers)
            esc = []
            if not ok:
                for x in ast.walk(st):
                    if isinstance(x, (ast.Raise, ast.Assert)):
                        esc.append(x)
                    if isinstance(x, ast.Call):
                        cs = cg.site_of(f_cim, x)
                        if cs:
                            from ..sim import exc_catches
                            for g in cg.targets(cs):
                                esc.extend(ex.escapes(g))
            ctx.check(ok or not esc, 'C08.2', 'after-dispatch:contained:%s' % type(st).__name__, f_cim.loc(st), 'code after the listener dispatch cannot raise out of ConnectionImpl.message')

    # ---- C08.3 exits ---------------------------------------------------------------------------------------------
    esc = {rs for rs in ex.escapes(f_pa) if (rs.func.qual, rs.exc) not in ESC_TRIAGE}
    from . import common as _cmn
    for rs in sorted((r for r in esc if r.kind == 'assert'), key=lambda r: r.key()):
        _cmn.unproved_assert(ctx, 'C08.3', rs, f_pa)       # a new assertion whose truth is not visible in its function: undecided, not an alarm
    esc = {rs for rs in esc if rs.kind != 'assert'}
    ctx.check(not esc, 'C08.3', 'parse_all:escape-set-empty', f_pa.loc(), 'no exception of the modelled kinds can escape parse_all (handlers cover the decode step, their own calls raise nothing)',
              'exceptions can escape parse_all: %s' % sorted(r.key() for r in esc)[:4])
    check_loop_exits(ctx, 'C08.3', paths)
    # an error of any other kind inside the decode step lands in the catch-all handler, which switches decoding off for the rest of the input
    # (every later message line yields nothing): the object-table lookups on that path must be key-safe (the rule of C15.1 / C18.6)
    from .. import keysafe as _ks8
    for fq_, d_ in (('ConnectionImpl.create_object', {'self.db'}), ('ConnectionImpl.retrieve_object', {'self.db'})):
        _ks8.check(ctx, 'C08.3', repo.func(fq_), d_)
    # the EOF test happens before stripping
    for p in paths:
        for a, v in p.decisions:
            if "== input_file.readline()" in a.text or a.text.startswith("input_file.readline()"):
                ctx.check('strip' not in a.text, 'C08.3', 'eof-test:before-strip', f_pa.loc(), 'end of input is tested on the unstripped line (a blank line is not end of input)')
    ctx.check(not any('strip()' in a.text and ("''" in a.text) for p in paths for a, v in p.decisions), 'C08.3', 'eof-test:not-on-stripped', f_pa.loc(),
              'no exit decision is taken on the stripped line', 'an exit decision tests the stripped line: blank lines end the input')

    # a decoded message yields its one output item only if the connection hands it to its listeners: exactly once, after resolving, on every
    # normal path and not inside a block whose handler would swallow the hand-over - the notification rules of C06.3 are findings here
    from . import common as _common8, c06 as _c06
    _common8.lift(ctx, 'C08.1', 'message-reaches-the-display', _c06, 'C06', ('C06.3',),
                  'every decoded message must reach the display exactly once', key_filter=lambda k: k.startswith('connection:') or 'notify' in k, floor=1)
    # ---- C08.4 --supress ------------------------------------------------------------------------------------------------
    reads = []
    for f in repo.all_funcs():
        for n in f.body_nodes():
            if isinstance(n, ast.Attribute) and n.attr == 'show_unprocessed' and isinstance(n.ctx, ast.Load):
                reads.append((f, n))
    # (a read inside a logging argument, or inside a freshly added accessor / __repr__, counts for the places that use the result)
    reads = [(g_, n) for f, n in reads for g_ in _cmn.effective_readers(repo, f, n)]
    for f, n in reads:
        ctx.check(f.short in ('Output.unprocessed', 'Plugin.__init__'), 'C08.4', 'show_unprocessed:read:%s' % f.qual, f.loc(n), 'the --supress switch is read only by the pass-through sink (and the GDB tty switch)',
                  'the --supress switch is also read in %s' % f.short)
    ctx.floor('C08.4', len(reads), 2, 'reads of show_unprocessed')
    f_unp = repo.func('Output.unprocessed')
    up = paths_of(repo, f_unp)
    probs = check_reach(up, lambda e: e.kind == 'call' and e.ftext == 'self.show', lambda a: ('on', True) if a.text == 'self.show_unprocessed' else None, lambda F: F['on'], universe=['on'])
    ctx.check(not probs, 'C08.4', 'unprocessed:shown-iff-switch', f_unp.loc(), 'a pass-through item is shown iff the switch is on')
    for p in up:
        for e in p.events:
            if e.kind == 'call' and e.ftext == 'self.show':
                mj = JOINED.search(e.text)
                J = mj.group(0) if mj else "' '.join(map(lambda m: str(m), msg))"
                cut = any(isinstance(x, ast.Subscript) and J in norm(x.value) for a_ in e.args for x in ast.walk(a_)) or \
                    any(isinstance(x, ast.Call) and isinstance(x.func, ast.Attribute) and J in norm(x.func.value) and x.func.attr != 'join' for a_ in e.args for x in ast.walk(a_))
                ctx.check(J in e.text and not cut, 'C08.4', 'unprocessed:text-through', f_unp.loc(e.node), 'the pass-through item contains the given text unaltered', 'pass-through item is %s' % e.text[:120])
    f_oshow = repo.func('Output.show')
    for p in paths_of(repo, f_oshow):
        w = [e for e in p.events if e.kind == 'call' and e.ftext == 'self.out.write']
        ctx.check(len(w) == 1 and not p.decisions and bool(JOINED.search(w[0].text)) and w[0].argtext(0) == JOINED.search(w[0].text).group(0), 'C08.6', 'Output.show:writes-once-unconditionally', f_oshow.loc(),
                  'Output.show writes its text once, unconditionally', 'Output.show is %s' % p.describe()[:100])
    outc = repo.cls('core.output.output.Output')
    o_init = outc.find_method('__init__')
    nsites = 0
    for f, s in call_sites_of(repo, lambda t: t is o_init, reachable_only=False):
        if f.cls is not None and f.cls.is_subclass_of(outc) or s.kind != 'ctor':
            continue
        nsites += 1
        v = norm(arg_by_name(s.node, o_init, 'show_unprocessed'))
        ctx.check(v == 'args.show_unprocessed_output', 'C08.4', 'Output:switch-from-arguments', f.loc(s.node), 'the switch comes from the parsed --supress flag', 'the switch is %s' % v)
    ctx.floor('C08.4', nsites, 1, 'Output construction')
    f_pargs = repo.func('arguments.parse_args')
    sw = [n for n in f_pargs.body_nodes() if isinstance(n, ast.Assign) and norm(n.targets[0]) == 'show_unprocessed_output']
    ctx.check(len(sw) == 1 and norm(sw[0].value) in ('not bool(args.supress)', 'not args.supress'), 'C08.4', 'switch:is-not-supress', f_pargs.loc(sw[0] if sw else None),
              'show_unprocessed_output = not --supress', 'show_unprocessed_output is %s' % [norm(n.value) for n in sw])

    # ---- C08.5 notices -----------------------------------------------------------------------------------------------------
    f_cleanup = repo.func('Parser.cleanup')
    callers = cg.callers_of(f_cleanup)
    for f, s in callers:
        ctx.check(f.short == 'into_sink', 'C08.5', 'cleanup:caller:%s' % f.qual, f.loc(s.node), 'connections are closed only after parse_all returned (into_sink)', 'cleanup is also called from %s' % f.short)
    ctx.floor('C08.5', len(callers), 1, 'caller of cleanup')
    f_cc = repo.func('Controller.connection_closed')
    callers = cg.callers_of(f_cc)
    for f, s in callers:
        ctx.check(f.short == 'ConnectionImpl.close', 'C08.5', 'closed-notice:origin:%s' % f.qual, f.loc(s.node), 'closed notices originate from ConnectionImpl.close only')
    ctx.floor('C08.5', len(callers), 1, 'origin of the closed notice')

    # ---- C08.6 synchronous chain -----------------------------------------------------------------------------------------------
    f_w = repo.func('stream.Base.write')
    for p in paths_of(repo, f_w):
        w = [e for e in p.events if e.kind == 'call' and e.ftext == 'self.override_write']
        ctx.check(len(w) == 1 and not p.decisions and w[0].argtext(0) == 'str(thing)', 'C08.6', 'stream.write:direct', f_w.loc(), 'stream.write hands the text straight to the concrete stream')
    sb = repo.cls('core.output.stream.Base')
    nimpl = 0
    for c in repo.subclasses(sb):
        m = c.methods.get('override_write')
        if m is None or c not in cg.instantiated:
            continue
        nimpl += 1
        for p in paths_of(repo, m):
            sinks = [e for e in p.events if e.kind == 'call' and e.ftext in ('print', 'gdb.write')]
            ctx.check(len(sinks) == 1 and not p.decisions and norm(sinks[0].args[0]).startswith('string'), 'C08.6', 'stream:%s:emits-now' % c.name, m.loc(),
                      '%s emits the text immediately (no buffer a later call would drain)' % c.name, '%s.override_write is %s' % (c.name, [e.text[:50] for e in p.events if e.kind == 'call']))
    ctx.floor('C08.6', nimpl, 2, 'instantiated output streams')
    # ---- C08.7 the item shown for a message is the whole decoded message --------------------------------------------------------
    f_str = repo.func('message.Message.__str__')
    nstr = 0
    for p in paths_of(repo, f_str):
        if p.outcome[0] != 'return':
            continue
        sents = [v for a, v in p.decisions if a.text == 'self.sent']
        if len(set(sents)) > 1:
            continue            # infeasible: the flag does not change while printing
        nstr += 1
        t = dtext(p.outcome[1])
        i1 = t.find('str(self.obj)')
        i2 = t.find("'.' + self.name")
        m3 = re.search(r'\.join\((?:[\(\[]str\((\w+)\) for \1 in self\.args[\)\]]|map\(str, self\.args\))\)', t)
        i3 = m3.start() if m3 else -1
        ctx.check(0 <= i1 < i2 < i3 and t.count('self.args') == 1, 'C08.7', 'display:target-name-all-args', f_str.loc(), 'a message is printed as target, .name and all of its arguments in order',
                  'Message.__str__ is %s' % t[:200])
        if sents:
            arrow = "'→ '" in t
            back = "' ↲'" in t
            ctx.check(arrow == sents[0] and back == (not sents[0]), 'C08.7', 'display:direction-marks:%s' % sents[0], f_str.loc(), 'a sent message carries the → mark, a received one the ↲ mark',
                      'direction marks for sent=%s: arrow=%s return-mark=%s' % (sents[0], arrow, back))
    ctx.floor('C08.7', nstr, 4, 'feasible paths of Message.__str__')
    f_mshow = repo.func('message.Message.show')
    for p in paths_of(repo, f_mshow):
        sh = [e for e in p.events if e.kind == 'call' and e.ftext == 'out.show']
        ctx.check(len(sh) == 1 and bool(sh[0].args) and re.search(r": ' \+ str\(self\)$", dtext(sh[0].args[0])) is not None, 'C08.7', 'display:line-is-message', f_mshow.loc(), 'the line shown is time, connection name and the message itself, once',
                  'Message.show prints %s' % [e.text[:120] for e in sh])
    vals = {'Arg.Int.value_to_str': 'str(self.value)', 'Arg.Float.value_to_str': 'str(self.value)', 'Arg.String.value_to_str': 'repr(self.value)', 'Arg.Fd.value_to_str': "'fd ' + str(self.value)",
            'Arg.Object.value_to_str': 'str(self.obj)', 'Arg.Unknown.value_to_str': None, 'Arg.Array.value_to_str': None, 'Arg.Null.value_to_str': "'null "}
    for q, want in vals.items():
        f = repo.func(q)
        for p in paths_of(repo, f):
            if p.outcome[0] != 'return':
                ctx.violation('C08.7', 'display:%s:no-value' % q, f.loc(), '%s does not return a string on path %s' % (q, p.describe()[:80]))
                continue
            t = dtext(p.outcome[1])
            if want is not None:
                ctx.check(want in t, 'C08.7', 'display:%s' % q, f.loc(), '%s shows %s' % (q.split('.')[1], want), '%s shows %s' % (q, t[:100]))
            if q == 'Arg.Object.value_to_str':
                isnew = [v for a, v in p.decisions if a.text == 'self.is_new']
                ctx.check(bool(isnew) and ("'new '" in t) == isnew[0], 'C08.7', 'display:new-mark:%s' % (isnew[0] if isnew else '?'), f.loc(), 'a new id is marked `new`, other object arguments are not')
            if q == 'Arg.Array.value_to_str':
                none = [v for a, v in p.decisions if a.text == 'self.values is None']
                if none and not none[0]:
                    ctx.check(re.search(r'\.join\((?:[\(\[]str\((\w+)\) for \1 in self\.values[\)\]]|map\(str, self\.values\))\)', t) is not None, 'C08.7', 'display:array-elements', f.loc(), 'an array shows all of its elements in order')
    return ('path enumeration of parse_all with modelled failures of the decode step, exception flow into the pass-through handler over the '
            'RTA call graph (%d raise functions), structural exits, reads of the --supress switch, the output chain. Decided: %s. Undecided: %s'
            % (len(funcs), '; '.join(ctx.decided), '; '.join(ctx.undecided)))
