"""C19 - everything after -r/-g is forwarded verbatim; everything before is ours."""
import ast
import re

from ..core import AnalysisError, norm
from .common import (paths_for_input, scope_nodes, effects, exceptions, paths_of, check_writers, arg_by_name, named_call_sites, ctor_sites)
from ..sim import check_reach

TOTAL_QUOTERS = {'repr', 'json.dumps', 'shlex.quote'}


def _quoting_ok(elt, var):
    """Is `elt` a total quoting of the word `var` for embedding in Python source?"""
    t = norm(elt)
    if isinstance(elt, ast.Call) and norm(elt.func) in ('repr', 'json.dumps') and len(elt.args) == 1 and norm(elt.args[0]) == var:
        return True, 'quoted with %s()' % norm(elt.func)
    # hand-rolled '"' + <escaped> + '"'
    if isinstance(elt, ast.BinOp):
        parts = []

        def flat(b):
            if isinstance(b, ast.BinOp) and isinstance(b.op, ast.Add):
                flat(b.left)
                flat(b.right)
            else:
                parts.append(b)
        flat(elt)
        if len(parts) == 3 and all(isinstance(x, ast.Constant) for x in (parts[0], parts[2])) and parts[0].value == parts[2].value and parts[0].value in ('"', "'"):
            q = parts[0].value
            mid = parts[1]
            reps = []
            while isinstance(mid, ast.Call) and isinstance(mid.func, ast.Attribute) and mid.func.attr == 'replace' and len(mid.args) == 2 \
                    and all(isinstance(a, ast.Constant) for a in mid.args):
                reps.append((mid.args[0].value, mid.args[1].value))
                mid = mid.func.value
            reps.reverse()
            if norm(mid) != var:
                return False, 'hand-rolled quoting of %s' % norm(mid)
            if not reps or reps[0] != ('\\', '\\\\'):
                return False, 'hand-rolled quoting does not escape backslashes first (escapes %s): a word containing \\ is altered or breaks the generated command' % [r[0] for r in reps]
            if (q, '\\' + q) not in reps:
                return False, 'hand-rolled quoting does not escape the quote character'
            if not any(r[0] == '\n' for r in reps):
                return False, 'hand-rolled quoting does not escape newlines'
            return True, 'hand-rolled quoting escapes \\ first, then the quote and newlines'
    return False, 'the word is embedded as %s' % t[:80]


from .common import eval_count as _eval_count


def check_split(ctx, rule):
    """Shapes and first-marker-wins discipline of _split_command (also used by C13: the program's own words are verbatim)."""
    repo = ctx.repo
    f_split = repo.func('arguments._split_command')
    # ---- C19.1 -------------------------------------------------------------------------------------------
    sp = paths_of(repo, f_split, unroll=1)
    I = 'I'
    W = r'args\[I\]'

    def cI(t):
        """position and word of the (first) iteration in one spelling: the position is I, the word is args[I] - whether the loop
        runs over range(len(args)) or over enumerate(args)"""
        t = t.replace('<elem0 of range(len(args))>', 'I')
        t = re.sub(r'args\[:0\]', 'args[:I]', t)
        t = re.sub(r'args\[(?:0 \+ 1|1):\]', 'args[I + 1:]', t)
        t = t.replace('<elem0 of args>', 'args[I]').replace('args[0]', 'args[I]')
        return t
    shapes = set()
    for p in sp:
        if p.outcome[0] != 'return':
            continue
        from ..sim import deep_norm as _dn19
        t = cI(_dn19(p.outcome[1]))       # (locals holding fresh lists are written out: `args[:i] + remainder` is `args[:i] + [..]`)
        t = t.replace(' + [], ', ', ')      # .. and appending nothing is nothing
        if t == "(args, '', [])":
            shapes.add('none')
            ctx.ok(rule, f_split.loc(), t, 'no marker: everything is ours')
            continue
        m = re.match(r"^\((.+), (_strip_dashes\(<elem0 of commands>\[0\]\)), (.+)\)$", t)
        good = False
        if m:
            pre, post = m.group(1), m.group(3)
            if re.match(r'^args\[:%s\]$' % I, pre) and re.match(r'^args\[%s \+ 1:\]$' % I, post):
                good = True
                shapes.add('exact')
            elif re.match(r'^args\[:%s\] \+ \[%s\[:-1\]\]$' % (I, W), pre) and re.match(r'^args\[%s \+ 1:\]$' % I, post):
                good = True
                shapes.add('cluster')
        ctx.check(good, rule, 'split:shape:%s' % t[:60], f_split.loc(), 'split is (words before position i [+ the cluster minus its last letter], marker id, words after i)',
                  '_split_command returns %s' % t[:200])
    ctx.check(shapes >= {'none', 'exact', 'cluster'}, rule, 'split:all-shapes', f_split.loc(), 'the three split shapes (no marker, exact marker, marker at the end of a flag cluster) exist',
              'split shapes present: %s' % sorted(shapes))
    # the cluster form (-Cr): taken exactly when alias and word are single-dash options, the word is longer than two
    # characters, the marker letter is its last letter and occurs nowhere before
    for p in sp:
        if p.outcome[0] == 'return' and '[:-1]]' in norm(p.outcome[1]):
            facts = {cI(a.text): v for a, v in p.decisions}
            need = {'_starts_with_single_dash(<elem0 of <elem0 of commands>>)': True, '2 < len(args[I])': True, '_starts_with_single_dash(args[I])': True,
                    '_strip_dashes(<elem0 of <elem0 of commands>>) in args[I][:-1]': False, 'args[I].endswith(_strip_dashes(<elem0 of <elem0 of commands>>))': True}
            ctx.check(all(facts.get(k) == v for k, v in need.items()), rule, 'split:cluster-conditions', f_split.loc(),
                      'the cluster form is recognised under exactly the five conditions (single-dash alias and word, length > 2, marker letter last and not earlier)',
                      'cluster form is taken under %s' % {k: facts.get(k) for k in need})
    f_ssd = repo.func('arguments._starts_with_single_dash')

    # decided by folding the returned term on sample words (every shape of the first two characters, longer words included)
    from ..peval import fold, Unfoldable
    ssd_paths = paths_of(repo, f_ssd)
    from .common import cparams as _cparams
    pname = _cparams(f_ssd)[0]
    bad = None
    nssd = 0
    for sample in ('', '-', '--', '-a', '--a', 'a', 'a-', '-ab', '---', '-a-', '-C', '--help', 'x-y'):
        want = sample.startswith('-') and len(sample) > 1 and sample[1] != '-'
        ps_ = paths_for_input(ssd_paths, {pname: sample})
        if not ps_:
            bad = bad or (sample, 'no path')
        for p in ps_:
            nssd += 1
            if p.outcome[0] != 'return':
                bad = bad or (sample, p.outcome[0])
                continue
            try:
                got = fold(p.outcome[1], {pname: sample})
            except Unfoldable as ex:
                bad = bad or (sample, 'cannot be evaluated: %s' % ex)
                continue
            if isinstance(got, tuple) or bool(got) != want:
                bad = bad or (sample, got)
    ctx.check(bad is None, rule, 'split:single-dash-test', f_ssd.loc(), 'a single-dash option is: starts with -, longer than one character, second character is not -',
              '_starts_with_single_dash(%r) gives %r' % (bad if bad else ('', '')))
    ctx.floor(rule, nssd, 13, 'sample evaluations of _starts_with_single_dash')
    f_sd = repo.func('arguments._strip_dashes')
    nsd = 0
    sd_paths = paths_of(repo, f_sd, while_unroll=2)
    if any(isinstance(n_, (ast.While, ast.For)) for g__, n_ in scope_nodes(repo, f_sd)):
        # written as a loop: each returning path removes one dash per iteration and stops at the first non-dash
        for p in sd_paths:
            if p.outcome[0] != 'return':
                continue
            nsd += 1
            t = norm(p.outcome[1])
            k = t.count('[1:]')
            vals = [v for a, v in p.decisions if a.text.endswith(".startswith('-')")]
            ctx.check(t == 's' + '[1:]' * k and vals == [True] * k + [False], rule, 'split:strip-dashes:%d' % k, f_sd.loc(), '_strip_dashes removes exactly the leading dashes',
                      '_strip_dashes returns %s after decisions %s' % (t, vals))
        ctx.floor(rule, nsd, 2, 'returning paths of _strip_dashes')
    else:
        # written as one expression: folded for the shapes of word that matter (no dash, one, two, dashes inside and at the end, only dashes)
        from ..peval import fold, Unfoldable
        for sample, want in (('g', 'g'), ('-g', 'g'), ('--gdb', 'gdb'), ('-a-b-', 'a-b-'), ('---', ''), ('', '')):
            for p in paths_for_input(sd_paths, {'s': sample}):
                if p.outcome[0] != 'return':
                    continue
                nsd += 1
                try:
                    got = fold(p.outcome[1], {'s': sample})
                except Unfoldable as ex_:
                    raise AnalysisError('%s: cannot fold _strip_dashes (%s): %s' % (rule, norm(p.outcome[1])[:60], ex_))
                ctx.check(got == want, rule, 'split:strip-dashes:%d' % (len(sample) - len(want)), f_sd.loc(), '_strip_dashes removes exactly the leading dashes',
                          '_strip_dashes(%r) is %r, expected %r' % (sample, got, want))
        ctx.floor(rule, nsd, 6, 'shapes of word folded through _strip_dashes')
    tops = [n for n in f_split.node.body if isinstance(n, ast.For)]
    ctx.check(len(tops) == 1 and norm(tops[0].iter) in ('range(len(args))', 'enumerate(args)') and any(isinstance(x, ast.For) for x in ast.walk(tops[0]) if x is not tops[0]), rule, 'split:position-loop-outermost', f_split.loc(),
              'the loop over positions is the outermost one, so the first marker position wins', 'outermost loop is %s' % [norm(t_.iter) for t_ in tops])
    # a return inside the loops happens at the first hit: every Return inside the loop nest is unconditional once its test matched
    # exact-match test compares the whole word with the alias
    exact = [a.text for p in sp for a, v in p.decisions if re.match(r'^.+ == %s$|^%s == .+$' % (W, W), cI(a.text))]
    ctx.check(bool(exact), rule, 'split:exact-word-test', f_split.loc(), 'a marker on its own is recognised by comparing the whole word')


def run(ctx):
    repo = ctx.repo
    ex = exceptions(repo)
    ctx.decided = ['C19.1 split shapes', 'C19.2 argparse sees only our half', 'C19.3 forwarded words reach the program / GDB unmodified', 'C19.4 matcher errors are reported',
                   'C19.5 exactly one mode', 'C19.6 our words survive the re-quoting into the GDB python command']
    ctx.undecided = ["GDB's own command-line parsing"]
    f_split = repo.func('arguments._split_command')
    f_pa = repo.func('arguments.parse_args')
    check_split(ctx, 'C19.1')
    # ---- C19.2 / C19.3 -----------------------------------------------------------------------------------------
    calls = [n for n in f_pa.body_nodes() if isinstance(n, ast.Call) and norm(n.func) == '_split_command']
    ctx.floor('C19.2', len(calls), 1, '_split_command call in parse_args')
    unpack = [n for n in f_pa.body_nodes() if isinstance(n, ast.Assign) and isinstance(n.value, ast.Call) and norm(n.value.func) == '_split_command']
    names = None
    if unpack and isinstance(unpack[0].targets[0], ast.Tuple) and len(unpack[0].targets[0].elts) == 3:
        names = [norm(e) for e in unpack[0].targets[0].elts]
    if names is None:
        raise AnalysisError('C19: parse_args no longer unpacks _split_command into three names')
    ours, cid, theirs = names
    ctx.check(norm(unpack[0].value.args[0]) == 'argv', 'C19.2', 'split:of-argv', f_pa.loc(unpack[0]), 'the split is applied to the argument vector itself')
    cmds = arg_by_name(unpack[0].value, f_split, 'commands')
    if isinstance(cmds, ast.Name):
        r_ = repo.lookup(f_pa.module, cmds.id)
        if r_ and r_[0] == 'var' and r_[1] is not None and not any(isinstance(x, ast.Name) and x.id == cmds.id and isinstance(x.ctx, ast.Store) for x in f_pa.body_nodes()):
            cmds = r_[1]    # a module-level table
    flat = sorted(e.value for l in getattr(cmds, 'elts', []) for e in getattr(l, 'elts', []) if isinstance(e, ast.Constant))
    ctx.check(flat == sorted(['-g', '--gdb', '-r', '--run']), 'C19.1', 'split:marker-spellings', f_pa.loc(unpack[0]), 'the markers are -g/--gdb and -r/--run', 'markers are %s' % flat)
    pcalls = [n for n in f_pa.body_nodes() if isinstance(n, ast.Call) and isinstance(n.func, ast.Attribute) and n.func.attr in ('parse_args', 'parse_known_args', 'parse_intermixed_args')]
    ctx.floor('C19.2', len(pcalls), 1, 'argparse call')
    for c in pcalls:
        a = c.args[0] if c.args else None
        for kw in c.keywords:
            if kw.arg == 'args':
                a = kw.value
        ctx.check(a is not None and norm(a) == '%s[1:]' % ours and c.func.attr == 'parse_args', 'C19.2', 'argparse:our-half-only', f_pa.loc(c),
                  'argparse is given exactly our half (without the program name)', 'argparse is given %s' % norm(a))
    args_cls = repo.cls('frontends.tui.arguments.Arguments')
    a_init = args_cls.find_method('__init__')
    n = 0
    for f, s in ctor_sites(repo, args_cls):
        if f is not f_pa:
            continue
        n += 1
        ctx.check(norm(arg_by_name(s.node, a_init, 'command_args')) == theirs and norm(arg_by_name(s.node, a_init, 'wayland_debug_args')) == ours, 'C19.3', 'Arguments:halves', f.loc(s.node),
                  'Arguments carries our half and the forwarded half unmodified', 'Arguments gets command_args=%s wayland_debug_args=%s' % (norm(arg_by_name(s.node, a_init, 'command_args')), norm(arg_by_name(s.node, a_init, 'wayland_debug_args'))))
    ctx.floor('C19.3', n, 1, 'Arguments construction in parse_args')
    for attr in ('command_args', 'wayland_debug_args'):
        check_writers(ctx, 'C19.3', args_cls.qual, attr, [('Arguments.__init__', lambda w, attr=attr: w.fresh and norm(w.stmt.value) == attr)], floor=1)
    # names rebinding between split and use
    for nm in (ours, theirs):
        rebinds = [x for x in f_pa.body_nodes() if isinstance(x, (ast.Assign, ast.AugAssign)) and x is not unpack[0] and any(isinstance(t, ast.Name) and t.id == nm for t in ast.walk(x.targets[0] if isinstance(x, ast.Assign) else x.target))]
        muts = [x for x in f_pa.body_nodes() if isinstance(x, ast.Call) and isinstance(x.func, ast.Attribute) and norm(x.func.value) == nm and x.func.attr in ('append', 'insert', 'pop', 'remove', 'extend', 'sort', 'reverse', 'clear')]
        ctx.check(not rebinds and not muts, 'C19.3', 'parse_args:%s-untouched' % nm, f_pa.loc(), '%s is not modified between the split and Arguments' % nm, '%s is modified: %s' % (nm, [norm(x)[:50] for x in rebinds + muts]))
    f_gdb = repo.func('gdb_plugin.runner.run_gdb')
    gpaths = paths_of(repo, f_gdb, unroll=1)
    starts = {}
    for p in gpaths:
        for e in p.events:
            if e.kind == 'call' and e.ftext in ('subprocess.Popen', 'subprocess.run', 'subprocess.call', 'subprocess.check_call', 'os.execvp', 'os.system') and e.args:
                starts.setdefault(norm(e.args[0]) + '|' + ','.join(sorted(e.kwargs)), e)
    ctx.floor('C19.3', len(starts), 1, 'GDB start')
    from .common import cparams as _cparams2
    pa = _cparams2(f_gdb)[0]

    def flat(b, parts):
        if isinstance(b, ast.BinOp) and isinstance(b.op, ast.Add):
            flat(b.left, parts)
            flat(b.right, parts)
        elif isinstance(b, ast.JoinedStr):
            for v_ in b.values:
                parts.append(v_.value if isinstance(v_, ast.FormattedValue) and v_.conversion == -1 and v_.format_spec is None else v_)
        else:
            parts.append(b)
    for key, e in sorted(starts.items()):
        v = e.args[0]
        loc = f_gdb.loc(e.node) if getattr(e, 'node', None) is not None else f_gdb.loc()
        shape = isinstance(v, ast.BinOp) and isinstance(v.op, ast.Add) and isinstance(v.left, ast.List) and len(v.left.elts) == 3 \
            and [getattr(x, 'value', None) for x in v.left.elts[:2]] == ['gdb', '-ex'] and norm(v.right) == pa + '.command_args'
        ctx.check(shape and 'shell' not in e.kwargs and e.ftext in ('subprocess.Popen', 'subprocess.run'), 'C19.3', 'gdb:argv', loc,
                  'GDB is started as gdb -ex <our command> followed by the forwarded words, unmodified and in order', 'GDB argv is %s' % norm(v)[:160])
        if not shape:
            continue
        # ---- C19.6: the generated python command -------------------------------------------------------------------
        from ..sim import concat_parts, deep_ast
        parts = concat_parts(deep_ast(v.left.elts[2]))

        def simp(x_):
            # str(s) of something that is a string already, and [f(w) for w in L][k] = f(L[k])
            while isinstance(x_, ast.Call) and isinstance(x_.func, ast.Name) and x_.func.id == 'str' and len(x_.args) == 1 and not x_.keywords \
                    and isinstance(x_.args[0], (ast.Call, ast.Subscript)):
                inner_ = simp(x_.args[0])
                if isinstance(inner_, ast.Call) and norm(inner_.func) in ('repr', 'json.dumps', 'str'):
                    x_ = inner_
                else:
                    break
            if isinstance(x_, ast.Subscript) and isinstance(x_.slice, ast.Constant) and isinstance(x_.slice.value, int) and isinstance(x_.value, (ast.ListComp, ast.GeneratorExp)) \
                    and len(x_.value.generators) == 1 and not x_.value.generators[0].ifs and isinstance(x_.value.generators[0].target, ast.Name) and x_.slice.value >= 0:
                g_ = x_.value.generators[0]
                tgt_ = g_.target.id
                elem_ = ast.Subscript(value=g_.iter, slice=x_.slice, ctx=ast.Load())

                class _Sub(ast.NodeTransformer):
                    def visit_Name(self, n_):
                        return elem_ if n_.id == tgt_ else n_
                import copy as _copy
                x_ = _Sub().visit(_copy.deepcopy(x_.value.elt))
            return x_
        parts = [x_ if isinstance(x_, ast.Constant) else simp(x_) for x_ in parts]
        njoin = 0
        whole = False
        for x in parts:
            if isinstance(x, ast.Constant):
                continue
            t = norm(x)
            if isinstance(x, ast.Call) and isinstance(x.func, ast.Attribute) and x.func.attr == 'join' and len(x.args) == 1 and isinstance(x.args[0], ast.Call) \
                    and norm(x.args[0].func) == 'map' and len(x.args[0].args) == 2 and isinstance(x.args[0].args[0], (ast.Name, ast.Attribute)):
                # sep.join(map(f, words)) is sep.join(f(w) for w in words)
                mp_ = x.args[0]
                gen_ = ast.GeneratorExp(elt=ast.Call(func=mp_.args[0], args=[ast.Name(id='w', ctx=ast.Load())], keywords=[]),
                                        generators=[ast.comprehension(target=ast.Name(id='w', ctx=ast.Store()), iter=mp_.args[1], ifs=[], is_async=0)])
                x = ast.Call(func=x.func, args=[gen_], keywords=[])
            if isinstance(x, ast.Call) and isinstance(x.func, ast.Attribute) and x.func.attr == 'join' and x.args and isinstance(x.args[0], (ast.GeneratorExp, ast.ListComp)) \
                    and norm(x.args[0].generators[0].iter) == pa + '.wayland_debug_args':
                njoin += 1
                g = x.args[0]
                ok, why = _quoting_ok(g.elt, norm(g.generators[0].target))
                ctx.check(ok and not g.generators[0].ifs and isinstance(x.func.value, ast.Constant) and x.func.value.value.strip() == ',', 'C19.6', 'requote:words', loc,
                          'each of our words is embedded through a total quoting function (%s)' % why, 'our words are re-quoted unsoundly for the instance inside GDB: %s' % why)
                continue
            if isinstance(x, ast.Call) and norm(x.func) == 'repr' and len(x.args) == 1 and not x.keywords \
                    and norm(x.args[0]) in (pa + '.wayland_debug_args', 'list(%s.wayland_debug_args)' % pa):
                # the list as a whole through repr(): a list display of quoted literals, brackets included
                njoin += 1
                whole = True
                ctx.check(True, 'C19.6', 'requote:words', loc, 'our words are embedded as the repr() of the list of words (a total quoting of every word)')
                continue
            ok = isinstance(x, ast.Call) and norm(x.func) in ('repr', 'json.dumps') and len(x.args) == 1
            ctx.check(ok, 'C19.6', 'requote:embedded:%s' % t[:40], loc, 'dynamic text %s enters the generated command through a total quoting function' % t[:40],
                      '%s is pasted unquoted into the generated python command: a program path containing a quote or backslash breaks it' % t[:60])
        ctx.check(njoin == 1, 'C19.6', 'requote:words-embedded', loc, 'our words are embedded once, as a comma-separated list of quoted literals', 'the generated command embeds our words %d times' % njoin)
        fixed = ''.join(x.value if isinstance(x, ast.Constant) else '\0' for x in parts)
        frame_re = r'^python import sys; sys\.argv = \0; exec\(open\(\0\)\.read\(\)\)$' if whole else r'^python import sys; sys\.argv = \[\0\]; exec\(open\(\0\)\.read\(\)\)$'
        ctx.check(re.match(frame_re, fixed) is not None, 'C19.6', 'requote:frame', loc,
                  'the generated command sets sys.argv to our words and runs the same script', 'the generated command is %r' % fixed.replace('\0', '<..>'))
        scr = [x for x in parts if not isinstance(x, ast.Constant)][-1:] 
        ctx.check(bool(scr) and isinstance(scr[0], ast.Call) and scr[0].args and norm(scr[0].args[0]) == pa + '.wayland_debug_args[0]', 'C19.6', 'requote:script-path', loc,
                  'the script run inside GDB is our own first word (the program path)')
    # ---- C19.4 -----------------------------------------------------------------------------------------------------
    nm_ = 0
    for g_, x in scope_nodes(repo, f_pa):
        if isinstance(x, ast.Call) and norm(x.func) == 'matcher.parse':
            nm_ += 1
            tr = x
            while tr is not None and not isinstance(tr, ast.Try):
                tr = getattr(tr, '_parent', None)
            ok = False
            if tr is not None:
                for h in tr.handlers:
                    if h.type is not None and norm(h.type) == 'RuntimeError':
                        ok = any(isinstance(s, ast.Raise) for s in h.body)
            else:
                ok = True   # uncaught: propagates
            ctx.check(ok, 'C19.4', 'matcher-error:%s' % norm(x.args[0]), g_.loc(x), 'a malformed %s matcher propagates as RuntimeError' % norm(x.args[0]),
                      'a malformed matcher given as %s is swallowed' % norm(x.args[0]))
    ctx.floor('C19.4', nm_, 1, 'matcher.parse calls in parse_args')
    nret = 0
    nparsed = set()
    for p in paths_of(repo, f_pa, asserts='ignore'):
        if p.outcome[0] != 'return':
            continue
        exits = [e for e in p.events if e.kind == 'call' and e.ftext == 'exit']
        if exits:
            continue
        nret += 1
        for opt in ('args.f', 'args.b'):
            suf = re.compile(r'\.parse_args\(.*\)\.%s$' % opt.split('.')[1])
            # "given" in any spelling: truthiness, `is None`, comparison with '' (an option given as the empty text counts as not given)
            given = [v for a, v in p.decisions if suf.search(a.text) and not a.text.startswith("'' == ")] + [not v for a, v in p.decisions if a.text.endswith(' is None') and suf.search(a.text[:-8])] \
                + [not v for a, v in p.decisions if a.text.startswith("'' == ") and suf.search(a.text)]
            given = [all(given)] if given else []
            parsed = any(e.calls('matcher.parse') and suf.search(e.argtext(0) or '') for e in p.events)
            if parsed:
                nparsed.add(opt)
            ctx.check(bool(given) and parsed == given[0], 'C19.4', 'matcher-option-parsed:%s' % opt, f_pa.loc(),
                      'on every path that returns Arguments, %s is parsed as a matcher exactly when it was given' % opt,
                      'parse_args can return without parsing %s (given=%s parsed=%s): a malformed matcher is ignored in that mode; path %s' % (opt, given, parsed, p.describe()[:160]))
    ctx.floor('C19.4', nret, 4, 'returning paths of parse_args')
    ctx.floor('C19.4', len(nparsed), 2, 'matcher options parsed on some returning path of parse_args')
    mm = repo.modules['main']
    ok = False
    for st in mm.tree.body:
        if isinstance(st, ast.If) and norm(st.test).startswith('__name__'):
            for t_ in st.body:
                if isinstance(t_, ast.Try) and any(isinstance(x, ast.Call) and norm(x.func) == 'parse_args' for s in t_.body for x in ast.walk(s)):
                    for h in t_.handlers:
                        if h.type is not None and norm(h.type) == 'RuntimeError':
                            body = '\n'.join(norm(s) for s in h.body)
                            ok = bool(re.search(r'logging\.error\(%s\)|print\(.*%s' % (h.name, h.name), body)) and bool(re.search(r'exit\((?!0\))', body))
    ctx.check(ok, 'C19.4', 'main:reports-and-exits-nonzero', 'main.py __main__', 'main reports the error text and exits with a non-zero status', 'main does not report the RuntimeError / exits 0')
    # ---- C19.5 -----------------------------------------------------------------------------------------------------
    f_sel = repo.func('arguments._select_mode')
    selp = paths_of(repo, f_sel, asserts='ignore')
    # Decided against the documented request table, independently of how the function collects the requests (appends, a filtered
    # comprehension, a count): for each marker the split can return ('' / 'g' / 'r', folded into the paths, so an if-chain and a lookup
    # table are the same) and every combination of {inside GDB, load path given (not None: an empty value is still a request), pipe flag}
    # a mode is returned iff exactly one request is made, and it is that request's mode.
    import itertools
    from ..peval import fold, Unfoldable, module_resolver
    from ..sim import deep_ast
    res_ = module_resolver(repo, f_sel.module)

    def m_mode(a):
        t = a.text
        if t == 'check_gdb()':
            return ('in_gdb', True)
        if t in ('args.path is None', 'None is args.path'):
            return ('path', False)
        if t == 'args.pipe':
            return ('pipe', True)
        return None
    MODES = {'GDB_RUNNER': 'g', 'RUN': 'r', 'GDB_PLUGIN': 'in_gdb', 'LOAD_FROM_FILE': 'path', 'PIPE': 'pipe'}
    WHY = {'g': 'the marker was -g', 'r': 'the marker was -r', 'in_gdb': 'we run inside GDB', 'path': 'a load path was given (not None)', 'pipe': 'the pipe flag is set'}
    selp2 = [p for p in selp if not (p.outcome and p.outcome[0] == 'raise') and not p.truncated]
    nreq = 0
    nsel = 0
    seen_modes = set()
    for marker in ('', 'g', 'r'):
        ps_ = paths_for_input(selp2, {'command_id': marker}, None, res_)
        nreq += len(ps_)
        covered = set()
        for p in ps_:
            facts = {}
            clash = False
            for a_, v_ in p.decisions:
                m_ = m_mode(a_)
                if m_ is not None:
                    val = v_ if m_[1] else (not v_)
                    clash = clash or facts.get(m_[0], val) != val
                    facts[m_[0]] = val
            if clash:
                continue
            rv = p.outcome[1] if p.outcome[0] == 'return' else None
            gives = rv is not None and norm(rv) != 'None'
            got_mode = None
            if gives:
                try:
                    v = fold(deep_ast(rv), {'command_id': marker}, None, res_)
                    got_mode = v[1].split('.')[-1] if isinstance(v, tuple) and len(v) == 2 and v[0] == 'sym' else repr(v)
                except Unfoldable as ex:
                    got_mode = 'not evaluable (%s)' % ex
            missing = [u for u in ('in_gdb', 'path', 'pipe') if u not in facts]
            for combo in itertools.product([True, False], repeat=len(missing)):
                F = dict(facts)
                F.update(zip(missing, combo))
                covered.add((F['in_gdb'], F['path'], F['pipe']))
                req = [m for m, atom in sorted(MODES.items()) if ((marker == atom) if atom in ('g', 'r') else F[atom])]
                nsel += 1
                ctx.check(gives == (len(req) == 1), 'C19.5', 'select_mode:%d-requested' % min(len(req), 2), f_sel.loc(), 'a mode is returned iff exactly one was requested',
                          'with marker %r and %s the requests are %s but _select_mode returns %s' % (marker, F, req, norm(rv)[:60] if rv is not None else p.outcome[0]))
                if gives and len(req) == 1:
                    seen_modes.add(req[0])
                    ctx.check(got_mode == req[0], 'C19.5', 'select_mode:requested:%s' % req[0], f_sel.loc(),
                              'mode %s is selected exactly when %s and nothing else is requested' % (req[0], WHY[MODES[req[0]]]),
                              'with marker %r and %s the only request is %s but the mode returned is %s' % (marker, F, req[0], got_mode))
        ctx.check(len(covered) == 8, 'C19.5', 'select_mode:all-combinations:%s' % (marker or 'none'), f_sel.loc(), 'every combination of the three mode options is decided for this marker',
                  'with marker %r only the combinations %s of (inside GDB, path, pipe) have a path' % (marker, sorted(covered)))
    ctx.check(seen_modes == set(MODES), 'C19.5', 'select_mode:known-modes', f_sel.loc(), 'each of the five modes is selected by its own request', 'modes selected: %s' % sorted(seen_modes))
    ctx.floor('C19.5', nreq, 6, 'paths of _select_mode consistent with a marker')
    ctx.floor('C19.5', nsel, 24, 'request combinations of _select_mode')
    pap = None
    nonec = [x for x in f_pa.body_nodes() if isinstance(x, ast.If) and norm(x.test) in ('mode is None', 'not mode', 'None is mode')]
    ok = False
    for x in nonec:
        body = '\n'.join(norm(s) for s in x.body)
        ok = 'print_help()' in body and 'exit(' in body
    ctx.check(ok, 'C19.5', 'parse_args:no-mode-prints-usage-and-stops', f_pa.loc(nonec[0] if nonec else None), 'without exactly one mode, usage is printed and the program terminates before anything runs',
              'the no-mode case does not print usage and terminate')
    # run mode: the forwarded half is the program's argv, as it stands - how the child is started is C13.3 (argv verbatim, only stderr / env /
    # bufsize set); its findings about the child's command line are findings here
    from . import common as _cm19, c13 as _c13
    _cm19.lift(ctx, 'C19.3', 'program-started-with-the-forwarded-words', _c13, 'C13', ('C13.3',), 'the words after -r must reach the program unmodified',
               key_filter=lambda k: k.startswith('child:') or 'child:' in k, floor=1, soft=True)

    return ('path enumeration of _split_command (return shapes) and _select_mode, identity chains of the two halves into argparse / Arguments / subprocess / GDB, '
            'quoting-function check of the GDB re-quoting. Decided: %s. Undecided: %s' % ('; '.join(ctx.decided), '; '.join(ctx.undecided)))
