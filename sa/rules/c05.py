"""C05 - a matcher selects exactly the messages its documented meaning says.

Decided here are the *structural* clauses only (see DESIGN.md section 7/12): the truth tables of the combinators, which part of a
message each matcher is applied to, and which piece of the matcher text becomes which matcher.  What `matches()` returns for a
concrete expression and message - the property as a whole - is not decided."""
import ast
import re

from ..core import AnalysisError, norm
from ..sim import check_reach
from .common import paths_of, arg_by_name, named_call_sites, scope_nodes

M = 'core.matcher.'


def _k3_exists(vals, exact):
    """Kleene 'exists' over known values (True/False/None) of the elements seen; exact: no further elements exist"""
    if any(v is True for v in vals):
        return True
    if exact and all(v is False for v in vals):
        return False
    return None


def _k3_forall(vals, exact):
    if any(v is False for v in vals):
        return False
    if exact and all(v is True for v in vals):
        return True
    return None


def run(ctx):
    repo = ctx.repo
    ctx.decided = ['C05.1 a comma list matches iff some alternative does and no exclusion does (C12.5) and simplify() rewrites lists only by simplifying members, dropping never-constants or collapsing to * (C12.6); a pattern selects messages on / creating / destroying its object, '
                   'the bare form adds messages mentioning it (C14.4); a pair needs both components (C14.2)',
                   'C05.2 every item of an argument list must be satisfied by some argument, no excluded item by any',
                   'C05.3 * matches everything, ! nothing', 'C05.4 which part of an argument / object / connection each value matcher is applied to',
                   'C05.5 a word containing * becomes an anchored wildcard pattern, any other word is compared for equality',
                   'C05.6 which piece of the matcher text becomes which matcher (role tables of the parser; brackets recurse into the same sub-parser)']
    ctx.undecided = ['what matches() returns for a given expression and message (the property as a whole)', 'soundness of simplify() beyond C12.6',
                     'the bracket / quote aware splitter _split_on on arbitrary nesting', 'semantics of the regular expression built for a wildcard']
    ctx.assumptions = ['list lengths and argument counts up to the unrolling bound (2; thorough: 3)']
    depth = 3 if ctx.tier == 'thorough' else 2

    # ---- C05.1 lifted --------------------------------------------------------------------------------------------------
    from ..report import Ctx as _Ctx
    from . import c12 as _c12, c14 as _c14
    nl = 0
    for mod_, prop_, pred in ((_c12, 'C12', lambda r, k: r in ('C12.5', 'C12.6')), (_c14, 'C14', lambda r, k: r == 'C14.4' or (r == 'C14.2' and k.startswith('pair:')))):
        sub = _Ctx(prop_, repo, tier=ctx.tier, quiet=True)
        mod_.run(sub)
        nl += len([o for o in sub.obligations if pred(o['rule'], o.get('key', ''))])
        for v in sub.violations:
            if pred(v['rule'], v['key']):
                ctx.violation('C05.1', '%s:%s' % (v['rule'], v['key']), v['site'], v['msg'], v['witness'])
    ctx.check(True, 'C05.1', 'combinators:evaluated', 'MatcherList.matches / MessagePattern.matches / PairMatcher.matches', 'truth tables of the list, pattern and pair combinators evaluated (C12.5, C14.4, C14.2: %d obligations)' % nl)
    ctx.floor('C05.1', nl, 4, 'combinator obligations lifted from C12.5 / C14.4 / C14.2')

    # ---- C05.2 argument lists ---------------------------------------------------------------------------------------------
    f_al = repo.func('ArgsMatcherList.matches')
    from ..sim import _canon_params
    argp = (_canon_params(f_al) or f_al.params())[1]       # terms are written with the parameter names of the pinned tree
    apaths = paths_of(repo, f_al, unroll=depth, bool_returns=True)
    n_al = 0
    bad = None
    for p in apaths:
        if p.truncated or p.outcome[0] != 'return':
            continue
        rv = p.outcome[1]
        if not (isinstance(rv, ast.Constant) and isinstance(rv.value, bool)):
            ctx.violation('C05.2', 'args:not-boolean', f_al.loc(), 'ArgsMatcherList.matches does not return a truth value: %s' % norm(rv)[:80])
            continue
        known = {}
        other = []
        for a, v in p.decisions:
            m = re.match(r'^<elem(\d+) of self\.(positive|negative)>\.matches\(<elem(\d+) of %s>\)$' % re.escape(argp), a.text)
            if m:
                known[(m.group(2), int(m.group(1)), int(m.group(3)))] = v
            elif not re.match(r'^(not )?\w+$', a.text):        # flag variables of the loop form are substituted constants; anything else is foreign
                other.append(a.text)
        seen = {'positive': 0, 'negative': 0, argp: 0}
        exact = {'positive': False, 'negative': False, argp: False}
        exits = {'positive': set(), 'negative': set(), argp: set()}
        for e in p.events:
            if e.kind == 'loop-iter' and e.value is not None:
                t = norm(e.value)
                key = 'positive' if t == 'self.positive' else 'negative' if t == 'self.negative' else argp if t == argp else None
                if key:
                    seen[key] = max(seen[key], e.extra + 1)
            if e.kind == 'loop-exit' and e.node is not None and hasattr(e.node, 'iter'):
                t = norm(e.value) if getattr(e, 'value', None) is not None else norm(e.node.iter)
                key = 'positive' if t == 'self.positive' else 'negative' if t == 'self.negative' else argp if t == argp else None
                if key:
                    exact[key] = True
                    exits[key].add(e.extra)
                    seen[key] = max(seen[key], e.extra)
        if any(len(v) > 1 or (v and min(v) < seen[k]) for k, v in exits.items()):
            continue        # infeasible: one and the same list cannot end after different numbers of elements
        nA = seen[argp]
        pos = _k3_forall([_k3_exists([known.get(('positive', i, j)) for j in range(nA)], exact[argp]) for i in range(seen['positive'])], exact['positive'])
        neg = _k3_exists([_k3_exists([known.get(('negative', k, j)) for j in range(nA)], exact[argp]) for k in range(seen['negative'])], exact['negative'])
        if pos is False or neg is True:
            want = False
        elif pos is True and neg is False:
            want = True
        else:
            want = None
        n_al += 1
        if (want is None or want != rv.value or other) and bad is None:
            bad = (p, want, rv.value, known, other)
    ctx.check(bad is None, 'C05.2', 'args:every-item-some-argument', f_al.loc(),
              'an argument list matches iff every item is satisfied by some argument and no excluded item by any (lists / arguments up to %d)' % depth,
              ('ArgsMatcherList.matches returns %s where the documented meaning is %s (verdicts %s%s); path %s'
               % (bad[2], 'undetermined by what was consulted' if bad[1] is None else bad[1], {('%s%d/arg%d' % (k[0][:3], k[1], k[2])): v for k, v in sorted(bad[3].items())},
                  ', foreign conditions %s' % bad[4] if bad[4] else '', bad[0].describe()[:160])) if bad else '')
    ctx.floor('C05.2', n_al, 20, 'returning paths of ArgsMatcherList.matches')

    # ---- C05.3 constants -------------------------------------------------------------------------------------------------------
    f_am = repo.func('AlwaysMatcher.matches')
    for p in paths_of(repo, f_am):
        ctx.check(p.outcome[0] == 'return' and norm(p.outcome[1]) == 'self.result', 'C05.3', 'always:returns-its-constant', f_am.loc(), 'a constant matcher answers with its constant, whatever the message')
    from .common import check_writers
    check_writers(ctx, 'C05.3', M + 'AlwaysMatcher', 'result', [('AlwaysMatcher.__init__', lambda w: w.fresh and norm(w.stmt.value) == 'result')], floor=1)
    mm = repo.modules['core.matcher']
    for nm, want in (('always', True), ('never', False)):
        r = repo.lookup(mm, nm)
        v = r[1] if r and r[0] == 'var' else None
        ctx.check(isinstance(v, ast.Call) and norm(v.func) == 'AlwaysMatcher' and len(v.args) == 1 and isinstance(v.args[0], ast.Constant) and v.args[0].value is want, 'C05.3', 'constant:%s' % nm,
                  'core/matcher.py', '`matcher.%s` is AlwaysMatcher(%s)' % (nm, want), '`matcher.%s` is %s' % (nm, norm(v) if v is not None else None))

    # ---- C05.4 what each value matcher looks at ---------------------------------------------------------------------------------
    # (class, [(type tests that must hold, term handed to the wrapped matcher)])  - the projection table confirmed on the pinned tree
    ARG = r'(?:wl\.)?Arg\.'
    WRAP = {
        'IntArgValueMatcher': [({'Int|Float|Fd'}, 'int(arg.value)'), ({'Object'}, 'arg.obj.id')],
        'LabelIntArgValueMatcher': [({'Int'}, '<elem of arg.labels>'), ({'Object'}, 'arg.obj.type'), ({'Null'}, 'arg.type')],
        'FloatArgValueMatcher': [({'Float'}, 'arg.value')],
        'StringArgValueMatcher': [({'String'}, 'arg.value')],
        'ObjectArgValueMatcher': [({'Object'}, 'arg.obj'), ({'Null'}, 'MOCK')],
        'ArgMatcher': [(set(), 'NAMEPAIR')],
        'ObjectIdMatcher': [(set(), 'IDPAIR')],
        'ObjectNameMatcher': [(set(), 'obj.type')],
        'ConnectionMatcher': [(set(), "conn.name()"), (set(), "'unknown'")],
    }
    # conditions (besides the argument kind) under which a value matcher may decline WITHOUT consulting the matcher it wraps
    GUARDS = {
        'IntArgValueMatcher': [r'^arg\.value == int\(arg\.value\)$', r'^int\(arg\.value\) == arg\.value$'],
        'LabelIntArgValueMatcher': [r"^hasattr\(arg, 'labels'\)$", r'^isinstance\(arg\.obj\.type, str\)$', r'^isinstance\(arg\.type, str\)$', r'^<elem\d+ of arg\.labels>'],
        'ObjectNameMatcher': [r'^obj\.type is None$', r'^obj\.type$'],
        'ConnectionMatcher': [r'^conn is None$', r'^conn$'],
        'ArgMatcher': [r'^arg\.name is None$', r'^arg\.name$'],
        'ObjectIdMatcher': [r'^obj\.generation is None$'],
    }
    nw = 0
    for cname, table in sorted(WRAP.items()):
        c = repo.cls(M + cname)
        f = c.methods.get('matches')
        if f is None:
            raise AnalysisError('C05.4: %s.matches not found' % cname)
        par = f.params()[1]
        got = set()
        for p in paths_of(repo, f, unroll=1, bool_returns=True):
            if p.outcome[0] != 'return':
                continue
            calls = [e for e in p.events if e.kind == 'call' and e.ftext == 'self.wrapped.matches' and e.args]
            ret_true = isinstance(p.outcome[1], ast.Constant) and p.outcome[1].value is True
            if ret_true:
                nw += 1
                ctx.check(bool(calls), 'C05.4', '%s:consults-wrapped' % cname, f.loc(), '%s cannot match without consulting the matcher it wraps' % cname,
                          '%s.matches returns True without consulting self.wrapped on path %s' % (cname, p.describe()[:160]))
            if not calls:
                # declined without consulting: only the argument kind and the documented guards may be the reason
                role = 'arg' if cname.endswith('ArgValueMatcher') or cname == 'ArgMatcher' else ('obj' if cname.startswith('Object') else 'conn')
                pk = set()
                foreign = []
                for a, v in p.decisions:
                    t_ = re.sub(r'\b%s\b' % re.escape(par), role, a.text)
                    mk = re.match(r'^isinstance\(%s, %s(\w+)\)$' % (role, ARG), t_)
                    if mk:
                        if v:
                            pk.add(mk.group(1))
                        continue
                    if not any(re.match(g_, t_) for g_ in GUARDS.get(cname, [])):
                        foreign.append(a.text)
                documented_kinds = set()
                for ks, tt in table:
                    for k in ks:
                        documented_kinds |= set(k.split('|'))
                if foreign and len(pk) <= 1 and (pk & documented_kinds or not documented_kinds):
                    ctx.violation('C05.4', '%s:declines-only-for-documented-reasons' % cname, f.loc(),
                                  '%s declines an argument of a kind it handles (%s) because of `%s`, without consulting the matcher it wraps: values of that kind are silently never matched'
                                  % (cname, sorted(pk) or 'any', foreign[0]))
            for e in calls:
                t = norm(e.args[0]).replace(par, {'arg': 'arg', 'obj': 'obj', 'conn': 'conn'}.get(par, par))
                t = re.sub(r'\b%s\b' % re.escape(par), 'arg' if cname.endswith('ArgValueMatcher') or cname == 'ArgMatcher' else ('obj' if cname.startswith('Object') else 'conn'), norm(e.args[0]))
                t = re.sub(r'<elem\d+ of (\w+\.labels)>', r'<elem of \1>', t)
                if re.match(r'^(?:wl\.)?(?:object\.)?MockObject\((?:id=)?0, (?:type=)?arg\.type\)$', t):
                    t = 'MOCK'
                if re.match(r"^\((?:arg\.name if arg\.name is not None else ''|arg\.name or ''|arg\.name|''), arg\)$", t):
                    nm_none = [v for a, v in p.decisions if a.text == '%s.name is None' % par] + [not v for a, v in p.decisions if a.text == '%s.name' % par]
                    first = t[1:].split(',')[0]
                    t = 'NAMEPAIR' if (first in ("arg.name or ''", "arg.name if arg.name is not None else ''") or (nm_none and ((first == "''") == nm_none[0]))) else t
                if re.match(r'^\(obj\.id, (?:obj\.generation if obj\.generation is not None else 0|obj\.generation|0)\)$', t):
                    g_none = [v for a, v in p.decisions if a.text == '%s.generation is None' % par]
                    second = t[:-1].split(', ', 1)[1]
                    t = 'IDPAIR' if (second == 'obj.generation if obj.generation is not None else 0' or (g_none and ((second == '0') == g_none[0]))) else t
                kinds = set()
                for a, v in p.decisions:
                    mk = re.match(r'^isinstance\(%s, %s(\w+)\)$' % (re.escape(par), ARG), a.text)
                    if mk and v:
                        kinds.add(mk.group(1))
                if len(kinds) > 1:
                    continue        # infeasible: the argument classes are disjoint
                got.add((frozenset(kinds), t))
        want_terms = {t for _, t in table}
        got_terms = {t for _, t in got}
        ctx.check(got_terms == want_terms, 'C05.4', '%s:projection' % cname, f.loc(), '%s hands its wrapped matcher %s' % (cname, sorted(want_terms)),
                  '%s hands its wrapped matcher %s; the documented parts are %s' % (cname, sorted(got_terms), sorted(want_terms)))
        for ks, tt in table:
            for k in ks:
                need = set(k.split('|'))
                have = set()
                for kinds, t in got:
                    if t == tt:
                        have |= set(kinds)
                ctx.check(need <= have, 'C05.4', '%s:kinds-covered:%s' % (cname, tt), f.loc(), '%s looks at %s for every argument kind of %s' % (cname, tt, sorted(need)),
                          '%s looks at %s only for argument kinds %s; %s never match(es) although the value is of the matched type' % (cname, tt, sorted(have), sorted(need - have)))
        for kinds, t in sorted(got, key=lambda x: (sorted(x[0]), x[1])):
            allowed = [set(k.split('|')) if k else set() for ks, tt in table if tt == t for k in (ks or {''})]
            if not allowed:
                continue
            ctx.check(any((not al and True) or (kinds and kinds <= al) for al in allowed), 'C05.4', '%s:kind-of:%s' % (cname, t), f.loc(),
                      '%s applies its matcher to %s only for the argument kinds %s' % (cname, t, [sorted(a) for a in allowed]),
                      '%s applies its matcher to %s for argument kinds %s (documented: %s)' % (cname, t, sorted(kinds), [sorted(a) for a in allowed]))
    ctx.floor('C05.4', nw, 10, 'matching paths of the value matchers')
    f_eq = repo.func('EqMatcher.matches')
    for p in paths_of(repo, f_eq, bool_returns=True):
        facts = {a.text: v for a, v in p.decisions}
        eq = [v for t, v in facts.items() if t in ('self.expected == value', 'value == self.expected')]
        ctx.check(bool(eq) and p.outcome[0] == 'return' and isinstance(p.outcome[1], ast.Constant) and p.outcome[1].value is eq[0], 'C05.4', 'eq:equality', f_eq.loc(), 'a plain word / number matches by equality')

    # ---- C05.5 words with * ---------------------------------------------------------------------------------------------------------
    f_sm = repo.func('matcher.str_matcher')
    seen_kinds = {}
    for p in paths_of(repo, f_sm):
        if p.outcome[0] != 'return':
            continue
        star = [v for a, v in p.decisions if a.text in ("'*' == pattern", "pattern == '*'")]
        has = [v for a, v in p.decisions if a.text == "'*' in pattern"]
        t = norm(p.outcome[1])
        if star and star[0]:
            want = 'AlwaysMatcher(True)'
        elif has and has[0]:
            want = 'WildcardMatcher(pattern)'
        elif has:
            want = 'EqMatcher(pattern)'
        else:
            want = None
        seen_kinds[want] = t
        ctx.check(want is not None and t == want, 'C05.5', 'word:%s' % (want or 'undetermined'), f_sm.loc(), 'a word that is * matches anything, a word containing * is a wildcard pattern, any other word is compared for equality',
                  'str_matcher returns %s where %s is documented (conditions %s)' % (t, want, [(a.text, v) for a, v in p.decisions]))
    ctx.check(set(seen_kinds) >= {'AlwaysMatcher(True)', 'WildcardMatcher(pattern)', 'EqMatcher(pattern)'}, 'C05.5', 'word:three-kinds', f_sm.loc(), 'the three kinds of word exist')
    wc = repo.cls(M + 'WildcardMatcher')
    f_wi = wc.methods['__init__']
    f_wm = wc.methods['matches']
    from ..sim import deep_norm
    compiled = None
    for p in paths_of(repo, f_wi):
        for e in p.events:
            if e.kind == 'call' and e.ftext == 're.compile' and e.args:
                compiled = deep_norm(e.args[0], concat=True)
    from ..peval import fold_text, Unfoldable
    ok_shape = False
    how = ''
    if compiled is not None:
        # the pattern is built from the word by escaping it and then turning each (escaped) star into `.*`: fold the construction for words
        # with regex metacharacters; the result must be the anchored, escaped word with `.*` for each star
        import re as _re
        samples = ['xdg_*', 'a.b*', '*_v[1]', 'wl_*_v?', 'a+b*(c)', '**']
        try:
            ok_shape = True
            for w in samples:
                env = {'pattern': w}
                texts = {'re.escape(pattern)': _re.escape(w)}
                got = fold_text(compiled, env, texts)
                core_ = ''.join('.*' if ch == '*' else _re.escape(ch) for ch in w)
                if got not in ('^' + core_ + '$', '\\A' + core_ + '\\Z', core_):
                    ok_shape = False
                    how = 'for the word %r the pattern compiled is %r, not the anchored escaped word %r' % (w, got, '^' + core_ + '$')
                    break
                anchored = got != core_
        except Unfoldable as ex_:
            raise AnalysisError('C05.5: cannot fold the wildcard construction %s: %s' % (compiled[:80], ex_))
    ctx.check(ok_shape, 'C05.5', 'wildcard:escaped-then-starred', f_wi.loc(), 'a wildcard word is compiled to its escaped text with .* for every *', how or 'no re.compile in WildcardMatcher.__init__')
    how_m = None
    for p in paths_of(repo, f_wm, bool_returns=True):
        for e in p.events:
            if e.kind == 'call' and e.ftext in ('self.regex.findall', 'self.regex.match', 'self.regex.fullmatch', 'self.regex.search') and e.args:
                how_m = (e.ftext.split('.')[-1], norm(e.args[0]))
    full = how_m is not None and how_m[1] == f_wm.params()[1] and (how_m[0] == 'fullmatch' or (ok_shape and compiled is not None and anchored))
    ctx.check(full, 'C05.5', 'wildcard:whole-word', f_wm.loc(), 'the pattern must cover the whole word (anchored at both ends, or fullmatch)', 'wildcard is applied as %s' % (how_m,))

    # ---- C05.6 parser role tables ------------------------------------------------------------------------------------------------------
    # brackets: [..] re-enters the list parser with the SAME sub-parser
    from . import common as _cm0
    nb = 0
    nb_by = {}
    f_pml0 = repo.func('matcher._parse_matcher_list')
    for pname in ('_parse_arg_matcher', '_parse_arg_value_matcher', '_parse_text_matcher', '_parse_obj_matcher'):
        f = repo.func('matcher.' + pname)
        par = _cm0.cparams(f)[0]
        nb_by[pname] = 0
        for p in paths_of(repo, f, unroll=1):
            facts = {a_.text: v_ for a_, v_ in p.decisions}
            opens, closes = facts.get("%s.startswith('[')" % par), facts.get("%s.endswith(']')" % par)
            calls = [e for e in p.events if e.kind == 'call' and e.ftext == '_parse_matcher_list']
            if opens is True and closes is True:
                nb += 1
                nb_by[pname] += 1
                ctx.check(len(calls) == 1, 'C05.6', 'brackets:parsed-as-list:%s' % pname, f.loc(), 'text in brackets is parsed as a list', '%s parses bracketed text with %d list parses' % (pname, len(calls)))
            elif calls:
                ctx.check(False, 'C05.6', 'brackets:only-when-bracketed:%s' % pname, f.loc(calls[0].node), '', '%s treats text as a bracketed list although it %s' % (pname, 'does not start with [' if opens is False else 'does not end with ]'))
            for e in calls:
                sub = arg_by_name(e, f_pml0, 'sub_parser')
                txt = arg_by_name(e, f_pml0, 'text')
                ctx.check(sub is not None and norm(sub) == pname, 'C05.6', 'brackets:same-sub-parser:%s' % pname, f.loc(e.node),
                          'a bracketed list inside %s is a list of the same kind of thing' % pname, 'brackets inside %s are parsed with %s' % (pname, norm(sub) if sub is not None else '?'))
                ctx.check(txt is not None and norm(txt) == '%s[1:-1]' % par, 'C05.6', 'brackets:strip-one-pair:%s' % pname, f.loc(e.node), 'exactly the outer pair of brackets is removed',
                          '%s hands %s to the list parser' % (pname, norm(txt)[:60] if txt is not None else '?'))
    # each of the four sub-parsers reads `[..]` itself: where the others still do and one no longer has a bracketed path, bracketed text of
    # that kind is read as one word (redundant brackets change what is selected) - a violation, not a lost anchor
    if nb >= 1:
        for pname, k_ in sorted(nb_by.items()):
            ctx.check(k_ >= 1, 'C05.6', 'brackets:recognised:%s' % pname, repo.func('matcher.' + pname).loc(), '%s reads a bracketed list' % pname,
                      '%s no longer tests for `[..]`: bracketed text handed to it is read as a single word' % pname)
    ctx.floor('C05.6', nb, 1, 'bracket recursions of the sub-parsers')
    f_pml = repo.func('matcher._parse_matcher_list')
    n_pml = 0
    from ..sim import deep_norm as _dn
    for p in paths_of(repo, f_pml, unroll=1):
        if p.outcome[0] != 'return':
            continue
        t = _dn(p.outcome[1])
        bang = [v for a, v in p.decisions if a.text == "_split_pair(text, '!') is None"] + [not v for a, v in p.decisions if a.text == "_split_pair(text, '!')"]
        if bang and not bang[0]:
            n_pml += 1
            ok = re.match(r"^MatcherList\(\[sub_parser\((\w+)\) for \1 in _split_on\(_split_pair\(text, '!'\)\[0\], ','\)\], \[sub_parser\((\w+)\) for \2 in _split_on\(_split_pair\(text, '!'\)\[1\], ','\)\]\)$", t) is not None
            ctx.check(ok, 'C05.6', 'list:alternatives-before-bang-exclusions-after', f_pml.loc(), 'what stands before ! are the alternatives, what stands after it the exclusions, each split at commas',
                      'a list with ! is parsed as %s' % t[:200])
        elif bang:
            n_pml += 1
            many = [v for a, v in p.decisions if re.match(r'^1 < len\(', a.text)] + [not v for a, v in p.decisions if re.match(r'^len\(.*\) < 2$', a.text)]
            if many and many[0]:
                ok = re.match(r"^MatcherList\(\[sub_parser\((\w+)\) for \1 in _split_on\(text, ','\)\], \[\]\)$", t) is not None
                ctx.check(ok, 'C05.6', 'list:commas-are-alternatives', f_pml.loc(), 'a comma list without ! is a list of alternatives with no exclusions', 'a comma list is parsed as %s' % t[:200])
            elif many:
                ok = re.match(r"^\[sub_parser\((\w+)\) for \1 in _split_on\(text, ','\)\]\[0\]$", t) is not None
                ctx.check(ok, 'C05.6', 'list:single-item-is-itself', f_pml.loc(), 'a single item (also inside redundant brackets) is the item itself', 'a single item is parsed as %s' % t[:200])
    ctx.floor('C05.6', n_pml, 3, 'returning paths of _parse_matcher_list')
    # argument lists: what stands before ! are the items every one of which must be satisfied, what stands after it the excluded items;
    # an EMPTY side is no items at all (`( ! 7)` only excludes, `(7 ! )` only requires) - unlike the generic list, where an empty
    # alternative is the match-anything word.  Both halves of the rule: the parser asks the splitter for "empty text = no items" on
    # every side, and the splitter gives () for blank text exactly when asked.
    f_pal = repo.func('matcher._parse_args_list')
    f_spl = repo.func('matcher._split_on')
    n_pal = 0
    SIDE = r"\[_parse_arg_matcher\((\w+)\) for \%d in _split_on\(%s, ',', True\)\]"
    for p in paths_of(repo, f_pal, unroll=1):
        if p.outcome[0] != 'return':
            continue
        t = _dn(p.outcome[1])
        if not t.startswith('ArgsMatcherList('):
            continue
        n_pal += 1
        bang = [v for a, v in p.decisions if a.text == "_split_pair(text, '!') is None"] + [not v for a, v in p.decisions if a.text == "_split_pair(text, '!')"]
        if bang and not bang[0]:
            ok = re.match(r"^ArgsMatcherList\(%s, %s\)$" % (SIDE % (1, r"_split_pair\(text, '!'\)\[0\]"), SIDE % (2, r"_split_pair\(text, '!'\)\[1\]")), t) is not None
            ctx.check(ok, 'C05.6', 'args-list:required-before-bang-excluded-after', f_pal.loc(),
                      'in an argument list what stands before ! are the required items, what stands after it the excluded ones; an empty side is no items',
                      'an argument list with ! is parsed as %s' % t[:260])
        elif bang:
            ok = re.match(r"^ArgsMatcherList\(%s, (\[\]|\(\)|\[_parse_arg_matcher\((\w+)\) for \3 in \(\)\])\)$" % (SIDE % (1, 'text')), t) is not None
            ctx.check(ok, 'C05.6', 'args-list:commas-are-required-items', f_pal.loc(), 'an argument list without ! is a list of required items with no exclusions; blank text is no items',
                      'an argument list is parsed as %s' % t[:260])
    ctx.floor('C05.6', n_pal, 3, 'list-building paths of _parse_args_list')
    from . import common as _cm
    sp_par = _cm.cparams(f_spl)
    n_spl = 0
    for p in paths_of(repo, f_spl, unroll=0):
        d = {a.text: v for a, v in p.decisions}
        blank = d.get("'' == %s.strip()" % sp_par[0])
        if blank is None:
            blank = d.get("not %s.strip()" % sp_par[0])
        if blank is True and d.get(sp_par[2]) is True:
            n_spl += 1
            ctx.check(p.outcome[0] == 'return' and _dn(p.outcome[1]) in ('()', '[]', 'tuple()', 'tuple([])'), 'C05.6', 'split:blank-text-is-no-items-when-asked', f_spl.loc(),
                      'blank text gives no items when the caller asked for that', 'blank text with allow_empty_list gives %s' % (_dn(p.outcome[1])[:60] if p.outcome[0] == 'return' else p.outcome[0]))
    ctx.floor('C05.6', n_spl, 1, 'path of _split_on for blank text with allow_empty_list')
    # number words: every word Python reads as an integer (sign included) is an integer value, every word it reads as a float a float value,
    # everything else is refused with RuntimeError (so that the next kind of value is tried) - decided by folding the parser's paths on sample
    # words, with the conversion builtin's own verdict on the sample taken from Python (a total builtin applied to a constant)
    from ..peval import fold as _foldv, Unfoldable as _Unfv
    from . import common as _cm
    for fname, conv, samples in (('_parse_int_matcher', int, ('5', '-5', '0', '+7', '007', '-0', '4294967295', '12345678901234567890', ' 5', 'abc', '1.5', '5a', '-', '0x10', 'nil', '"5"', '--5')),
                                 ('_parse_float_matcher', float, ('1.5', '-1.5', '5', '-5', '1e3', '.5', '5.', '-0.0', 'abc', '1,5', '"1.5"', '1.5.5', '-'))):
        f_num = repo.func('matcher.' + fname)
        par = _cm.cparams(f_num)[0]
        raises_conv = lambda e, cn=conv.__name__: ['ValueError'] if (e.ftext or '') == cn else ()
        num_paths = paths_of(repo, f_num, may_raise=raises_conv)
        nnum = 0
        for word in samples:
            try:
                want = conv(word)
                ok_word = True
            except ValueError:
                ok_word = False
            got = set()
            for p in _cm.paths_for_input(num_paths, {par: word}):
                conv_failed = any(e.kind == 'raised-by-call' for e in p.events)
                conv_called = any(e.kind == 'call' and e.ftext == conv.__name__ for e in p.events)
                if conv_called and conv_failed == ok_word:
                    continue            # the conversion's outcome on this path is not the one Python gives for this word
                nnum += 1
                if p.outcome[0] == 'raise':
                    got.add('refused (%s)' % (p.outcome[1] if isinstance(p.outcome[1], str) else 'error'))
                elif p.outcome[0] == 'return':
                    rv = p.outcome[1]
                    if isinstance(rv, ast.Call) and norm(rv.func) == 'EqMatcher' and rv.args:
                        try:
                            got.add('= %r' % (_foldv(rv.args[0], {par: word}),))
                        except _Unfv:
                            got.add('= ?')
                    else:
                        got.add(norm(rv)[:40])
            if word in ('', '*'):
                continue
            if ok_word:
                good = got == {'= %r' % (want,)}
            else:
                good = bool(got) and all(g.startswith('refused (RuntimeError') for g in got)
            ctx.check(good, 'C05.6', 'number-word:%s:%s' % (fname, word), f_num.loc(),
                      '%r %s' % (word, ('is the number %r' % (want,)) if ok_word else 'is refused with RuntimeError, so the next kind of value is tried'),
                      '%s(%r) gives %s; %s' % (fname, word, sorted(got), ('Python reads the word as %r' % (want,)) if ok_word else 'it is not a number'))
        ctx.floor('C05.6', nnum, 8, 'sample evaluations of ' + fname)
    # object words: `type@id` / `type#id` split at the sign; `nil` and a word that starts with a digit are an id (with optional
    # incarnation letters); any other word is a type name; the empty word is no restriction - decided by folding the paths of
    # _parse_obj_matcher on sample words (every first character class, every digit, both signs)
    f_pom = repo.func('matcher._parse_obj_matcher')
    par_o = _cm.cparams(f_pom)[0]
    pom_paths = paths_of(repo, f_pom, unroll=1)
    nobj = 0
    for word in ('0', '1', '5', '8', '9', '90', '97', '9b', '12a', '007', 'nil', 'wl_surface', 'x9', 'a', 'nil2', '_9', 'wl_*', 'wl_surface@5', 'wl_surface#5b', '@9', '#9a', ''):
        if '@' in word or '#' in word:
            sign = '#' if '#' in word else '@'
            want_name, want_id = word.split(sign, 1)
        elif word == 'nil' or (word[:1].isdigit() and word[:1].isascii()):
            want_name, want_id = '', word
        else:
            want_name, want_id = word, ''
        texts_sp = {"_split_pair(%s, '#')" % par_o: (tuple(word.split('#', 1)) if '#' in word else None),
                    "_split_pair(%s, '@')" % par_o: (tuple(word.split('@', 1)) if '@' in word else None)}
        got = set()
        for p in _cm.paths_for_input(pom_paths, {par_o: word}, texts_sp):
            if p.outcome[0] != 'return':
                got.add(p.outcome[0])
                continue
            nobj += 1
            parts = {}
            for e in p.events:
                if e.kind == 'call' and e.ftext in ('_parse_text_matcher', '_parse_obj_id_matcher') and e.args:
                    try:
                        parts[e.ftext] = _foldv(e.args[0], {par_o: word}, texts_sp)
                    except _Unfv as ex:
                        parts[e.ftext] = 'not evaluable: %s' % ex
            got.add((parts.get('_parse_text_matcher', ''), parts.get('_parse_obj_id_matcher', '')))
        both = bool(want_name and want_id)      # a word that names a type AND an id is refused (the displayed label is pasted as its id part)
        ctx.check(got == ({'raise'} if both else {(want_name, want_id)}), 'C05.6', 'object-word:%s' % (word or '<empty>'), f_pom.loc(),
                  'the object word %r is %s' % (word, 'refused (type and id at once)' if both else 'read as type %r / id %r' % (want_name, want_id)),
                  'the object word %r is read as %s (type, id); the documented reading is %s' % (word, sorted(got, key=str), 'a refusal (type and id at once)' if both else 'type %r / id %r' % (want_name, want_id)))
    ctx.floor('C05.6', nobj, 20, 'sample evaluations of _parse_obj_matcher')
    # conn: obj.name(args)
    f_pmp = repo.func('matcher._parse_message_pattern')
    mp_init = repo.cls(M + 'MessagePattern').methods['__init__']
    n_mp = 0
    for p in paths_of(repo, f_pmp, asserts='ignore'):
        rv = p.outcome[1] if p.outcome[0] == 'return' else None
        if not (isinstance(rv, ast.Call) and norm(rv.func) == 'MessagePattern'):
            continue
        n_mp += 1
        got = {k: norm(arg_by_name(rv, mp_init, k)) for k in ('conn_matcher', 'obj_matcher', 'name_matcher', 'args_matcher')}
        colon = "_split_pair(text, ':')"
        facts = {a.text: v for a, v in p.decisions}
        has_colon = facts.get(colon + ' is None') is False or facts.get(colon) is True
        msg = colon + '[1]' if has_colon else 'text'
        conn = colon + '[0]' if has_colon else "'*'"
        dot = "_split_pair(%s, '.')" % msg
        has_dot = facts.get(dot + ' is None') is False or facts.get(dot) is True
        if has_dot:
            rest = dot + '[1]'
            per = '_split_peren_at_end(%s)' % rest
            has_per = facts.get(per + ' is None') is False or facts.get(per) is True
            want = {'conn_matcher': 'ConnectionMatcher(_parse_text_matcher(%s))' % conn, 'obj_matcher': '_parse_obj_matcher(%s[0])' % dot,
                    'name_matcher': '_parse_text_matcher(%s)' % (per + '[0]' if has_per else rest), 'args_matcher': '_parse_args_list(%s)' % (per + '[1]' if has_per else "''")}
        else:
            per = '_split_peren_at_end(%s)' % msg
            want = {'conn_matcher': 'ConnectionMatcher(_parse_text_matcher(%s))' % conn, 'obj_matcher': '_parse_obj_matcher(%s[0])' % per,
                    'name_matcher': "_parse_text_matcher('')", 'args_matcher': '_parse_args_list(%s[1])' % per}
        ctx.check(got == want, 'C05.6', 'pattern:roles:%s%s' % ('conn:' if has_colon else '', 'obj.name' if has_dot else 'obj(args)'), f_pmp.loc(),
                  'in `conn: obj.name(args)` the text before : is the connection, before . the object, then the message name, and the argument list in parentheses',
                  'pattern parts are wired as %s; documented %s' % ({k: v[:70] for k, v in got.items() if want.get(k) != v}, {k: v[:70] for k, v in want.items() if got.get(k) != v}))
    ctx.floor('C05.6', n_mp, 4, 'MessagePattern paths of _parse_message_pattern')
    # .. and there is no other way through the pattern parser: a returning path gives a MessagePattern (above), the bare-object pair
    # (on the object / mentioning it as an argument - same connection and object text in both), or * for the empty text.  A branch that takes
    # some texts out of this table (a new spelling tried before the documented ones) changes what documented matchers select.
    n_forms = 0
    for p in paths_of(repo, f_pmp, asserts='ignore'):
        if p.outcome[0] != 'return':
            continue
        rv = p.outcome[1]
        if isinstance(rv, ast.Call) and norm(rv.func) == 'MessagePattern':
            continue
        n_forms += 1
        t = _dn(rv)
        facts = {a.text: v for a, v in p.decisions}
        colon = "_split_pair(text, ':')"
        has_colon = facts.get(colon + ' is None') is False or facts.get(colon) is True
        msg = colon + '[1]' if has_colon else 'text'
        conn = 'ConnectionMatcher(_parse_text_matcher(%s))' % (colon + '[0]' if has_colon else "'*'")
        bare = ('MatcherList([MessagePattern(%s, _parse_obj_matcher(%s), AlwaysMatcher(True), AlwaysMatcher(True)), MessagePattern(%s, AlwaysMatcher(True), AlwaysMatcher(True), '
                'ArgsMatcherList([ArgMatcher(AlwaysMatcher(True), ObjectArgValueMatcher(_parse_obj_matcher(%s)))], []))], [])' % (conn, msg, conn, msg))
        empty = [v for a, v in p.decisions if a.text in ('text', "'' == text", "text == ''")]
        ok = t == bare or (t == 'AlwaysMatcher(True)' and bool(empty))
        ctx.check(ok, 'C05.6', 'pattern:form:%s' % ('bare-object' if t.startswith('MatcherList(') else ('empty' if t == 'AlwaysMatcher(True)' else 'other')), f_pmp.loc(),
                  'a pattern without name and arguments selects messages on the object or mentioning it; the empty pattern selects everything',
                  'a pattern can also be parsed as %s - a form the documented grammar does not have (path: %s)' % (t[:160], [a.text[:40] for a, v in p.decisions if v][:4]))
    ctx.floor('C05.6', n_forms, 3, 'other returning paths of _parse_message_pattern')
    # name=value
    f_pam = repo.func('matcher._parse_arg_matcher')
    n_am = 0
    for p in paths_of(repo, f_pam):
        rv = p.outcome[1] if p.outcome[0] == 'return' else None
        if not (isinstance(rv, ast.Call) and norm(rv.func) == 'ArgMatcher' and len(rv.args) == 2):
            continue
        n_am += 1
        eq = "_split_pair(text, '=')"
        facts = {a.text: v for a, v in p.decisions}
        has_eq = facts.get(eq + ' is None') is False or facts.get(eq) is True
        want = ('_parse_text_matcher(%s[0])' % eq, '_parse_arg_value_matcher(%s[1])' % eq) if has_eq else ('AlwaysMatcher(True)', '_parse_arg_value_matcher(text)')
        ctx.check((norm(rv.args[0]), norm(rv.args[1])) == want, 'C05.6', 'argument:name=value:%s' % has_eq, f_pam.loc(), 'in `name=value` the name is what stands before =, an item without = constrains the value only',
                  'argument item is parsed as ArgMatcher(%s, %s)' % (norm(rv.args[0])[:60], norm(rv.args[1])[:60]))
    ctx.floor('C05.6', n_am, 2, 'ArgMatcher paths of _parse_arg_matcher')
    # the whole text: colour and surrounding blanks removed, then a list of patterns
    f_parse = repo.func('matcher.parse')
    for p in paths_of(repo, f_parse):
        if p.outcome[0] == 'return':
            ctx.check(norm(p.outcome[1]) == '_parse_matcher_list(no_color(text).strip(), _parse_message_pattern)', 'C05.6', 'parse:list-of-patterns', f_parse.loc(),
                      'a matcher is a list of message patterns; colour and surrounding blanks are removed first', 'parse returns %s' % norm(p.outcome[1])[:120])
    # every piece cut out by the splitter is stripped of surrounding blanks (added whitespace does not change what is selected)
    f_so = repo.func('matcher._split_on')
    apps = [e for p in paths_of(repo, f_so, while_unroll=1, asserts='ignore') for e in p.events if e.kind == 'call' and e.ftext and e.ftext.endswith('.append') and e.args]
    if not apps:
        # the pieces are not collected with append (a comprehension, a generator): the elements of what is returned are judged instead
        elems = []
        for p in paths_of(repo, f_so, while_unroll=1, asserts='ignore'):
            if p.outcome[0] != 'return':
                continue
            for x in ast.walk(p.outcome[1]):
                if isinstance(x, (ast.GeneratorExp, ast.ListComp)):
                    elems.append(x.elt)
        if not elems:
            raise AnalysisError('C05.6: cannot see how _split_on builds its pieces')
        ctx.check(all(norm(x).endswith('.strip()') for x in elems), 'C05.6', 'split:pieces-stripped', f_so.loc(), 'every piece of a split matcher text is stripped of surrounding blanks',
                  'pieces are built as %s' % [norm(x)[:50] for x in elems][:3])
    else:
        ctx.check(all(norm(e.args[0]).endswith('.strip()') for e in apps), 'C05.6', 'split:pieces-stripped', f_so.loc(), 'every piece of a split matcher text is stripped of surrounding blanks')
    return ('truth tables of the list / argument-list / pair / pattern combinators by path enumeration with three-valued evaluation of what each path consulted; projection '
            'table of the value matchers; folding of the wildcard construction; role tables of the parser. Decided: %s. Undecided: %s'
            % ('; '.join(ctx.decided), '; '.join(ctx.undecided)))
