"""C10 - GDB halts the program at a message iff it matches the breakpoint matcher."""
import ast
import re

from ..core import AnalysisError, norm
from ..sim import check_reach
from .common import (effects, paths_of, check_writers, check_callers, arg_by_name, named_call_sites, ctor_sites)
from .c06 import selection_mapper

PUS = 'core.persistent_ui_state.PersistentUIState'


def command_registry(repo):
    """name -> FuncInfo of the handler, from the Command(...) constructor sites in Controller.__init__."""
    cmd = repo.cls('frontends.tui.controller.Command')
    init = cmd.find_method('__init__')
    ctrl = repo.cls('frontends.tui.controller.Controller')
    out = {}
    for f, s in ctor_sites(repo, cmd):
        name = arg_by_name(s.node, init, 'name')
        fn = arg_by_name(s.node, init, 'func')
        if not (isinstance(name, ast.Constant) and isinstance(fn, ast.Attribute) and isinstance(fn.value, ast.Name) and fn.value.id == 'self'):
            raise AnalysisError('C10.5: command registration %s is not of the form Command(<literal>, ..., self.<method>, ...)' % norm(s.node)[:80])
        m = f.cls.find_method(fn.attr) if f.cls else None
        if m is None:
            raise AnalysisError('C10.5: handler %s not found' % fn.attr)
        out[name.value] = m
    return out


def check_prompt_turns(ctx, rule):
    """each turn of the prompt loop reads one line and hands exactly that line - whole and as typed - to the command dispatcher (which is where
    pasted colour is stripped, C17.5: anything done to the text before that sees the escape sequences)"""
    repo = ctx.repo
    f_run = repo.func('TerminalUI.run_until_stopped')
    n = 0
    for p in paths_of(repo, f_run, while_unroll=1):
        pr = [(i, e) for i, e in enumerate(p.events) if e.kind == 'call' and e.ftext == 'self.input_func']
        pc = [(i, e) for i, e in enumerate(p.events) if e.kind == 'call' and e.ftext == 'self.command_sink.process_command']
        n += len(pc)
        ctx.check(len(pr) == len(pc) and all(a[0] < b[0] and norm(b[1].args[0]).startswith('self.input_func(') for a, b in zip(pr, pc)),
                  rule, 'prompt-loop:one-prompt-one-command', f_run.loc(), 'each turn reads one line and processes exactly that line',
                  'turn structure is %s' % [e.text[:40] for _, e in pr + pc])
    ctx.floor(rule, n, 1, 'command dispatch in the prompt loop')


def run(ctx):
    repo = ctx.repo
    cg = repo.callgraph()
    ef = effects(repo)
    ctx.decided = ['C10.1 stop() returns the pause flag after processing', 'C10.2 flag cleared before forwarding', 'C10.3 pause iff breakpoint matches',
                   'C10.4 invoke_command: quit / continue / stay halted', 'C10.5 only resume resumes, only quit quits',
                   'C10.6 writers of the flags', 'C10.7 prompt loop of file/run mode', 'C10.8 a typed command reaches its handler (C18.5, C17.5 lifted)']
    ctx.undecided = ['what matches() returns (C05)', "GDB's own handling of continue/quit and of a True/False return from Breakpoint.stop"]
    ctx.assumptions = ['gdb.Breakpoint.stop() returning True halts the inferior, False lets it run (GDB Python API, frozen)']

    # ---- C10.1 -----------------------------------------------------------------------------------------------------
    f_stop = repo.func('WlClosureCallBreakpoint.stop')
    for p in paths_of(repo, f_stop):
        pm = [e for e in p.events if e.kind == 'call' and e.ftext == 'self.plugin.process_message']
        ex = [e for e in p.events if e.kind == 'call' and e.ftext == 'self.message_extractor']
        good = len(pm) == 1 and len(ex) == 1 and p.outcome[0] == 'return' and norm(p.outcome[1]) == 'self.plugin.paused()' \
            and getattr(p.outcome[1], '_ep', -1) >= pm[0].ep \
            and [norm(a) for a in pm[0].args] == ['self.message_extractor()[0]', 'self.message_extractor()[1]']
        ctx.check(good, 'C10.1', 'stop:returns-paused-after-processing', f_stop.loc(),
                  'stop() extracts one message, processes it, then returns exactly the pause flag',
                  'stop() is %s / returns %s' % ([e.text[:60] for e in pm], p.outcome_text()[:80]))
    f_ppaused = repo.func('Plugin.paused')
    for p in paths_of(repo, f_ppaused):
        ctx.check(p.outcome[0] == 'return' and norm(p.outcome[1]) == 'self.state.paused()', 'C10.1', 'Plugin.paused:is-state', f_ppaused.loc(), 'Plugin.paused() is the persistent flag')
    f_d = repo.try_func('WlConnectionDestroyBreakpoint.stop')
    if f_d is not None:
        for p in paths_of(repo, f_d):
            if p.outcome[0] == 'return':
                ctx.check(norm(p.outcome[1]) == 'False', 'C10.1', 'destroy-breakpoint:never-halts', f_d.loc(), 'the connection-destroy breakpoint never halts the program')

    # ---- C10.2 -----------------------------------------------------------------------------------------------------
    f_pm = repo.func('Plugin.process_message')
    npm = 0
    for p in paths_of(repo, f_pm):
        if p.outcome[0] == 'raise':
            continue
        fw = [i for i, e in enumerate(p.events) if e.kind == 'call' and e.ftext == 'self.connection_id_sink.message']
        if not fw:
            continue
        npm += 1
        paused = [v for a, v in p.decisions if a.text == 'self.state.paused()']
        res = [i for i, e in enumerate(p.events) if e.kind == 'call' and e.ftext == 'self.state.resume_requested']
        late = [e for e in p.events[fw[0] + 1:] if e.kind == 'call' and e.ftext and e.ftext.startswith('self.state.') and
                e.ftext.split('.')[-1] in ('resume_requested', 'pause_requested', 'quit_requested')]
        cleared = (paused and not paused[0]) or (res and res[0] < fw[0])
        ctx.check(bool(cleared) and not late, 'C10.2', 'process_message:flag-clear-before-forward', f_pm.loc(),
                  'the pause flag is clear when the message is forwarded and nothing touches it afterwards (so stop() reports this message\'s verdict)',
                  'on path %s the flag is not cleared before forwarding / is touched afterwards' % p.describe()[:160])
    ctx.floor('C10.2', npm, 2, 'forwarding paths of process_message')

    # ---- C10.3 -----------------------------------------------------------------------------------------------------
    f_new = repo.func('Controller.connection_got_new_message')
    npaths = paths_of(repo, f_new)

    def extra(a):
        if a.text == 'self.stop_matcher.matches(message)':
            return ('stop', True)
        return None
    for nm, pred in (('pause_requested', lambda e: e.kind == 'call' and e.ftext == 'self.ui_state_listener.pause_requested'),
                     ('Stopped-at notice', lambda e: e.kind == 'call' and e.ftext == 'self.out.show' and 'Stopped at' in e.text)):
        probs = check_reach(npaths, pred, selection_mapper('connection', extra), lambda F: (F['none'] or F['this']) and F['stop'],
                            universe=['none', 'this', 'stop'])
        ctx.check(not probs, 'C10.3', 'breakpoint:%s-iff' % nm, f_new.loc(),
                  '%s is reached iff (no connection selected or this one) and the breakpoint matcher matches this message' % nm,
                  '%s reached=%s in scenario %s' % ((nm, probs[0][2], probs[0][1]) if probs else ('', '', '')))
    from .c06 import check_selection
    check_selection(ctx, 'C10.3')
    nst = 0
    for p in npaths:
        for e in p.events:
            if e.kind == 'call' and e.ftext == 'self.out.show' and 'Stopped at' in e.text:
                nst += 1
                ctx.check('str(message)' in e.text, 'C10.3', 'breakpoint:notice-names-message', f_new.loc(e.node), 'the notice names the message')
    ctx.floor('C10.3', nst, 1, 'Stopped-at notice')
    check_callers(ctx, 'C10.3', 'pause_requested', {'Controller.connection_got_new_message', 'TerminalUI.run_until_stopped', 'Plugin.invoke_command'}, floor=3)
    check_callers(ctx, 'C10.5', 'resume_requested', {'Controller.resume_command', 'Plugin.process_message'}, floor=2)
    check_callers(ctx, 'C10.5', 'quit_requested', {'Controller.quit_command'}, floor=1)

    # ---- C10.4 -----------------------------------------------------------------------------------------------------
    f_inv = repo.func('Plugin.invoke_command')
    ipaths = paths_of(repo, f_inv)

    def m_inv(a):
        if a.text == 'self.state.should_quit()':
            return ('quit', True)
        if a.text == 'self.state.paused()':
            return ('paused', True)
        return None
    gdbexec = lambda what: (lambda e: e.kind == 'call' and e.ftext == 'gdb.execute' and e.argtext(0) == repr(what))
    probs = check_reach(ipaths, gdbexec('quit'), m_inv, lambda F: F['quit'], universe=['quit', 'paused'])
    ctx.check(not probs, 'C10.4', 'invoke:quit-iff', f_inv.loc(), "gdb 'quit' is executed iff quit was requested",
              'quit reached=%s in %s' % ((probs[0][2], probs[0][1]) if probs else ('', '')))
    probs = check_reach(ipaths, gdbexec('continue'), m_inv, lambda F: (not F['quit']) and not F['paused'], universe=['quit', 'paused'])
    ctx.check(not probs, 'C10.4', 'invoke:continue-iff', f_inv.loc(), "gdb 'continue' is executed iff neither quit nor still paused",
              'continue reached=%s in %s' % ((probs[0][2], probs[0][1]) if probs else ('', '')))
    for p in ipaths:
        pa = [i for i, e in enumerate(p.events) if e.kind == 'call' and e.ftext == 'self.state.pause_requested']
        pc = [i for i, e in enumerate(p.events) if e.kind == 'call' and e.ftext == 'self.command_sink.process_command']
        ex = [i for i, e in enumerate(p.events) if e.kind == 'call' and e.ftext == 'gdb.execute']
        ctx.check(len(pa) == 1 and len(pc) == 1 and pa[0] < pc[0] and all(i > pc[0] for i in ex) and p.events[pc[0]].argtext(0) == 'command',
                  'C10.4', 'invoke:pause-then-command-then-decide', f_inv.loc(), 'a command starts from the halted state, runs once, and GDB is steered afterwards')
        others = [e for e in p.events if e.kind == 'call' and e.ftext == 'gdb.execute' and e.argtext(0) not in ("'quit'", "'continue'")]
        ctx.check(not others, 'C10.4', 'invoke:no-other-gdb-command', f_inv.loc(), 'no other GDB command is issued')

    for q, want in (('WlCommand.invoke', 'arg'), ('WlSubcommand.invoke', "self.command + ' ' + arg")):
        f = repo.try_func(q)
        if f is None:
            continue
        for p in paths_of(repo, f):
            c = [e for e in p.events if e.kind == 'call' and e.ftext == 'self.plugin.invoke_command']
            ctx.check(len(c) == 1 and c[0].argtext(0) == want, 'C10.4', 'gdb-command:%s' % q, f.loc(), '%s hands the typed text to invoke_command once' % q, '%s does %s' % (q, [e.text[:60] for e in c]))
    f_pinit = repo.try_func('Plugin.__init__')
    if f_pinit is not None:
        subs = [n for n in f_pinit.body_nodes() if isinstance(n, ast.Call) and norm(n.func) == 'WlSubcommand']
        ok = any(isinstance(getattr(n, '_parent', None), ast.Expr) and isinstance(n._parent._parent, ast.For) and norm(n._parent._parent.iter) == 'command_sink.toplevel_commands()' and norm(n.args[1]) == norm(n._parent._parent.target) for n in subs)
        ctx.check(ok, 'C10.4', 'gdb-command:subcommands-registered', f_pinit.loc(), 'a wl<command> GDB command is registered for every toplevel command')
        f_tl = repo.func('Controller.toplevel_commands')
        for p in paths_of(repo, f_tl):
            ctx.check(p.outcome[0] == 'return' and norm(p.outcome[1]) == '[command.name for command in self.commands]', 'C10.4', 'toplevel-commands:all', f_tl.loc(), 'toplevel_commands lists every registered command')
    # ---- C10.5 command registry ------------------------------------------------------------------------------------
    reg = command_registry(repo)
    ctx.floor('C10.5', len(reg), 8, 'registered commands')
    pus = repo.cls(PUS)
    f_res = pus.methods['resume_requested']
    f_quit = pus.methods['quit_requested']
    f_pause = pus.methods['pause_requested']
    for name, fn in sorted(reg.items()):
        cl = cg.closure([fn])
        ctx.check((f_res in cl) == (name == 'resume'), 'C10.5', 'command:%s:resume' % name, fn.loc(),
                  "command '%s' %s resume" % (name, 'requests' if name == 'resume' else 'cannot request'),
                  "command '%s' %s reach resume_requested" % (name, 'does not' if name == 'resume' else 'can'))
        ctx.check((f_quit in cl) == (name == 'quit'), 'C10.5', 'command:%s:quit' % name, fn.loc(),
                  "command '%s' %s quit" % (name, 'requests' if name == 'quit' else 'cannot request'),
                  "command '%s' %s reach quit_requested" % (name, 'does not' if name == 'quit' else 'can'))
        ctx.check(f_pause not in cl, 'C10.5', 'command:%s:pause' % name, fn.loc(), "command '%s' does not re-request a pause" % name)
        ws = [w for w in ef.closure_writes([fn]) if w.attr in ('_paused', '_should_quit')]
        direct = [w for w in ws if w.func.cls is not pus]
        ctx.check(not direct, 'C10.5', 'command:%s:no-direct-flag-write' % name, fn.loc(), "command '%s' writes the flags only through the listener interface" % name)
    for nm in ('resume', 'quit'):
        if nm not in reg:
            ctx.violation('C10.5', 'command:%s:missing' % nm, repo.func('Controller.__init__').loc(), "no '%s' command is registered" % nm)
    for nm, ff, call in (('resume', 'Controller.resume_command', 'self.ui_state_listener.resume_requested'), ('quit', 'Controller.quit_command', 'self.ui_state_listener.quit_requested')):
        f = repo.func(ff)
        for p in paths_of(repo, f):
            ctx.check(any(e.kind == 'call' and e.ftext == call for e in p.events), 'C10.5', '%s:always-requests' % nm, f.loc(), '%s_command requests %s on every path' % (nm, nm))
    # dispatch: process_command calls the handler of the command it found, with the argument text
    f_pc = repo.func('Controller.process_command')
    for p in paths_of(repo, f_pc, asserts='ignore'):
        for e in p.events:
            if e.kind == 'call' and e.ftext and e.ftext.endswith('.func'):
                ctx.check(norm(e.recv).startswith('self._get_command('), 'C10.5', 'dispatch:handler-of-found-command', f_pc.loc(e.node),
                          'the handler invoked is the one of the command that was looked up')
    f_gc = repo.func('Controller._get_command')
    for p in paths_of(repo, f_gc):
        if p.outcome[0] == 'return' and norm(p.outcome[1]) != 'None':
            one = [v for a, v in p.decisions if a.text in ('1 == len(found)',)]
            from ..sim import deep_ast
            rv_ = deep_ast(p.outcome[1])
            # the list of matching commands is known element by element on the path: exactly one collected, and that one returned
            coll = [e for e in p.events if e.kind == 'call' and e.ftext and (e.ftext.endswith('.append') and 'listcomp' not in e.ftext or e.ftext == '<listcomp>.append') and e.args]
            folded = len(coll) == 1 and isinstance(rv_, ast.Subscript) and isinstance(rv_.value, (ast.List, ast.Tuple)) and len(rv_.value.elts) == 1 and norm(rv_.slice) in ('0', '-1')
            ctx.check((bool(one) and one[0] and norm(p.outcome[1]) == 'found[0]') or folded or (len(coll) == 1 and norm(p.outcome[1]) == norm(coll[0].args[0])), 'C10.5', 'dispatch:unique-prefix', f_gc.loc(),
                      'a command is returned only when exactly one name matches the typed prefix', 'returns %s with %s' % (norm(p.outcome[1]), p.describe()[:100]))

    # ---- C10.6 writers -------------------------------------------------------------------------------------------------
    def cst(v):
        return lambda w: isinstance(w.stmt, ast.Assign) and isinstance(w.stmt.value, ast.Constant) and w.stmt.value.value is v
    check_writers(ctx, 'C10.6', PUS, '_paused', [('PersistentUIState.__init__', lambda w: w.fresh and cst(False)(w)),
                                                 ('PersistentUIState.pause_requested', cst(True)), ('PersistentUIState.resume_requested', cst(False))], floor=3)
    check_writers(ctx, 'C10.6', PUS, '_should_quit', [('PersistentUIState.__init__', lambda w: w.fresh and cst(False)(w)),
                                                      ('PersistentUIState.quit_requested', cst(True))], floor=2)
    for nm, attr in (('paused', 'self._paused'), ('should_quit', 'self._should_quit')):
        f = pus.methods[nm]
        for p in paths_of(repo, f):
            ctx.check(p.outcome[0] == 'return' and norm(p.outcome[1]) == attr, 'C10.6', '%s:returns-flag' % nm, f.loc(), '%s() returns the flag' % nm)
    f_pinit = pus.methods['__init__']
    for p in paths_of(repo, f_pinit):
        ctx.check(any(e.kind == 'call' and e.ftext == 'state.add_ui_state_listener' and e.argtext(0) == 'self' for e in p.events), 'C10.6',
                  'state:subscribes', f_pinit.loc(), 'the persistent state subscribes to the UI state it is given')
    f_addl = repo.func('Controller.add_ui_state_listener')
    for p in paths_of(repo, f_addl):
        ctx.check(any(e.kind == 'call' and e.ftext == 'self.ui_state_listener.add_listener' and e.argtext(0) == 'listener' for e in p.events), 'C10.6',
                  'controller:adds-listener', f_addl.loc(), 'the controller adds the listener to the disseminator its commands notify')

    # ---- C10.7 prompt loop ----------------------------------------------------------------------------------------------
    f_run = repo.func('TerminalUI.run_until_stopped')
    rpaths = paths_of(repo, f_run, while_unroll=1)

    def m_loop(a):
        if a.text == 'self.state.paused()':
            return ('paused', True)
        if a.text == 'self.state.should_quit()':
            return ('quit', True)
        return None
    first_prompt = lambda e: e.kind == 'call' and e.ftext == 'self.input_func' and e.loops and e.loops[-1][1] == 0
    probs = check_reach(rpaths, first_prompt, m_loop, lambda F: F['paused'] and not F['quit'], universe=['paused', 'quit'], first_only=True)
    ctx.check(not probs, 'C10.7', 'prompt-loop:condition', f_run.loc(), 'the prompt is shown iff paused and not quitting',
              'prompt reached=%s in %s' % ((probs[0][2], probs[0][1]) if probs else ('', '')))
    for p in rpaths:
        pa = [i for i, e in enumerate(p.events) if e.kind == 'call' and e.ftext == 'self.state.pause_requested']
        pr = [(i, e) for i, e in enumerate(p.events) if e.kind == 'call' and e.ftext == 'self.input_func']
        pc = [(i, e) for i, e in enumerate(p.events) if e.kind == 'call' and e.ftext == 'self.command_sink.process_command']
        ctx.check(len(pa) == 1 and not p.events[pa[0]].loops and all(pa[0] < i for i, _ in pr), 'C10.7', 'prompt-loop:pause-first', f_run.loc(),
                  'the loop starts from the paused state')
    check_prompt_turns(ctx, 'C10.7')
    # ---- C10.8 a typed command reaches its handler ---------------------------------------------------------------------
    # `resume` continues and `quit` quits only if the command line gets from the prompt to the handler: the findings of the command
    # dispatcher's own rules (nothing escapes process_command - C18.5; pasted colour is stripped before tokenising - C17.5) are findings here
    from ..report import Ctx as _Ctx
    from . import c17 as _c17, c18 as _c18
    nlift = 0
    for mod_, prop_, rules_ in ((_c18, 'C18', ('C18.5',)), (_c17, 'C17', ('C17.5',))):
        sub = _Ctx(prop_, repo, tier=ctx.tier, quiet=True)
        mod_.run(sub)
        nlift += len([o for o in sub.obligations if o['rule'] in rules_])
        for v in sub.violations:
            if v['rule'] in rules_:
                ctx.violation('C10.8', 'command-dispatch:%s:%s' % (v['rule'], v['key']), v['site'],
                              'a command typed while halted must reach its handler (%s): %s' % (v['rule'], v['msg']), v['witness'])
    ctx.check(True, 'C10.8', 'command-dispatch:evaluated', 'Controller.process_command', 'dispatcher rules C18.5 / C17.5 evaluated (%d obligations)' % nlift)
    ctx.floor('C10.8', nlift, 5, 'dispatcher obligations lifted from C18.5 / C17.5')
    return ('scenario evaluation of the breakpoint guard, of invoke_command and of the prompt loop; who-calls tables and call-graph '
            'closures over the command registry; writer enumeration of the two flags. Decided: %s. Undecided: %s'
            % ('; '.join(ctx.decided), '; '.join(ctx.undecided)))
