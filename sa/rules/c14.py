"""C14 - displayed object and connection labels are unambiguous and work as matchers (structural part)."""
import ast
import re

from ..core import AnalysisError, norm
from .common import (check_zero_is_a_value, effects, paths_of, check_writers, arg_by_name, named_call_sites)
from ..sim import check_reach


def _eval(e, env):
    """Tiny evaluator for constant character arithmetic: ints, ord('x'), names from env, + - * // %, comparisons, and/or/not."""
    if isinstance(e, ast.Constant):
        return e.value
    if isinstance(e, ast.Name):
        return env[e.id]
    if isinstance(e, ast.Call) and isinstance(e.func, ast.Name) and e.func.id == 'ord' and len(e.args) == 1:
        v = _eval(e.args[0], env)
        return ord(v)
    if isinstance(e, ast.BinOp):
        a, b = _eval(e.left, env), _eval(e.right, env)
        return {ast.Add: a + b, ast.Sub: a - b, ast.Mult: a * b}.get(type(e.op)) if type(e.op) in (ast.Add, ast.Sub, ast.Mult) else \
            (a // b if isinstance(e.op, ast.FloorDiv) else a % b)
    if isinstance(e, ast.BoolOp):
        vals = [_eval(v, env) for v in e.values]
        return all(vals) if isinstance(e.op, ast.And) else any(vals)
    if isinstance(e, ast.UnaryOp) and isinstance(e.op, ast.Not):
        return not _eval(e.operand, env)
    if isinstance(e, ast.Compare):
        left = _eval(e.left, env)
        for op, r in zip(e.ops, e.comparators):
            right = _eval(r, env)
            ok = {ast.Lt: left < right, ast.LtE: left <= right, ast.Gt: left > right, ast.GtE: left >= right, ast.Eq: left == right, ast.NotEq: left != right}[type(op)]
            if not ok:
                return False
            left = right
        return True
    if isinstance(e, ast.IfExp):
        return _eval(e.body, env) if _eval(e.test, env) else _eval(e.orelse, env)
    if isinstance(e, ast.Call) and isinstance(e.func, ast.Attribute) and not e.args and e.func.attr in ('isalpha', 'isdigit', 'isalnum', 'islower', 'isupper', 'lower', 'upper', 'isascii'):
        v = _eval(e.func.value, env)
        if isinstance(v, str):
            return getattr(v, e.func.attr)()
    raise KeyError(norm(e))


def letter_cut(repo):
    """How _parse_obj_id_matcher separates the id digits from the incarnation letters.
    -> {'accepted': code points (< 0x250) taken for letters, 'maximal': the cut is before the maximal run of trailing letters,
        'form': 'loop' | 'rstrip', 'site': location, 'why': text}.  AnalysisError when neither form is recognised."""
    import string as _string
    from .common import scope_nodes
    from ..peval import fold, Unfoldable
    f_poi = repo.func('matcher._parse_obj_id_matcher')
    STR = {'string.ascii_letters': _string.ascii_letters, 'string.ascii_lowercase': _string.ascii_lowercase, 'string.ascii_uppercase': _string.ascii_uppercase,
           'string.digits': _string.digits}
    # form B: text.rstrip(<letters>)
    for g_, n in scope_nodes(repo, f_poi):
        if isinstance(n, ast.Call) and isinstance(n.func, ast.Attribute) and n.func.attr == 'rstrip' and len(n.args) == 1 and norm(n.func.value) == f_poi.params()[0]:
            env_ = {}
            if isinstance(n.args[0], ast.Name):
                r_ = repo.lookup(g_.module, n.args[0].id)        # `from string import ascii_letters`
                if r_ and r_[0] == 'ext' and str(r_[1]) in STR:
                    env_[n.args[0].id] = STR[str(r_[1])]
            try:
                letters = fold(n.args[0], env_, STR)
            except Unfoldable as ex_:
                raise AnalysisError('C14.1: cannot fold the letter set of %s: %s' % (norm(n), ex_))
            if not isinstance(letters, str):
                raise AnalysisError('C14.1: rstrip argument is not a string constant')
            return {'accepted': {ord(c) for c in letters if ord(c) < 0x250} | {ord(c) for c in letters}, 'maximal': True, 'form': 'rstrip', 'site': g_.loc(n),
                    'why': 'str.rstrip removes the maximal run of trailing characters of its set', 'rstrip': norm(n)}
    # form C: a regular expression with two groups - the id and the trailing letters
    for g_, n in scope_nodes(repo, f_poi):
        if isinstance(n, ast.Call) and isinstance(n.func, ast.Attribute) and n.func.attr in ('match', 'fullmatch') and n.args and norm(n.args[-1]) == f_poi.params()[0]:
            pat = None
            if norm(n.func.value) == 're' and len(n.args) == 2 and isinstance(n.args[0], ast.Constant):
                pat = n.args[0].value
            elif isinstance(n.func.value, ast.Name) and len(n.args) == 1:
                r_ = repo.lookup(g_.module, n.func.value.id)
                v_ = r_[1] if r_ and r_[0] == 'var' else None
                if isinstance(v_, ast.Call) and norm(v_.func) == 're.compile' and len(v_.args) == 1 and not v_.keywords and isinstance(v_.args[0], ast.Constant):
                    pat = v_.args[0].value
            if not isinstance(pat, str):
                continue
            import re._parser as _rp
            import re._constants as _rc
            try:
                tree = list(_rp.parse(pat))
            except Exception as ex_:
                raise AnalysisError('C14.1: cannot parse the label pattern %r: %s' % (pat, ex_))
            ops = [t for t in tree if t[0] is not _rc.AT or t[1] not in (_rc.AT_BEGINNING, _rc.AT_BEGINNING_STRING)]
            end_anchor = bool(ops) and ops[-1][0] is _rc.AT and ops[-1][1] in (_rc.AT_END, _rc.AT_END_STRING)
            if end_anchor:
                ops = ops[:-1]
            if len(ops) != 2 or any(o[0] is not _rc.SUBPATTERN for o in ops):
                raise AnalysisError('C14.1: the label pattern %r is not (id)(letters)' % pat)
            g2 = list(ops[1][1][3])
            if len(g2) != 1 or g2[0][0] not in (_rc.MAX_REPEAT,) or g2[0][1][1] is not _rc.MAXREPEAT or len(list(g2[0][1][2])) != 1 or list(g2[0][1][2])[0][0] is not _rc.IN:
                raise AnalysisError('C14.1: the letters group of %r is not a greedy repetition of one character class' % pat)
            cls = list(g2[0][1][2])[0][1]
            accepted = set()
            neg = any(it[0] is _rc.NEGATE for it in cls)
            if neg:
                raise AnalysisError('C14.1: negated letter class in %r' % pat)
            for it in cls:
                if it[0] is _rc.LITERAL:
                    accepted.add(it[1])
                elif it[0] is _rc.RANGE:
                    accepted.update(range(it[1][0], it[1][1] + 1))
                else:
                    raise AnalysisError('C14.1: letter class of %r uses %s' % (pat, it[0]))
            # the id group must not be able to end in a letter of the class, and the pattern must cover the whole label
            def chars_of(items):
                out = set()
                for it in items:
                    if it[0] is _rc.LITERAL:
                        out.add(it[1])
                    elif it[0] is _rc.RANGE:
                        out.update(range(it[1][0], it[1][1] + 1))
                    elif it[0] is _rc.IN:
                        out |= chars_of(it[1])
                    elif it[0] is _rc.CATEGORY:
                        out |= set(range(ord('0'), ord('9') + 1)) if it[1] is _rc.CATEGORY_DIGIT else set(range(0, 0x250))
                    elif it[0] in (_rc.MAX_REPEAT, _rc.MIN_REPEAT):
                        out |= chars_of(list(it[1][2]))
                    elif it[0] is _rc.SUBPATTERN:
                        out |= chars_of(list(it[1][3]))
                    elif it[0] is _rc.BRANCH:
                        for br in it[1][1]:
                            out |= chars_of(list(br))
                    elif it[0] is _rc.ANY:
                        out |= set(range(0, 0x250))
                return out
            g1chars = chars_of(list(ops[0][1][3]))
            whole = end_anchor or n.func.attr == 'fullmatch'
            maximal = whole and not (g1chars & accepted)
            why = 'the label pattern is %r applied with %s' % (pat, n.func.attr)
            if not whole:
                why += ': it need not cover the whole label, so characters after the letters it knows are silently ignored'
            elif g1chars & accepted:
                why += ': the id part can itself end in a letter'
            return {'accepted': accepted, 'maximal': maximal, 'form': 'regex', 'site': g_.loc(n), 'why': why, 'match': norm(n)}
    # form A: a loop stepping back over the text while a letter test holds
    loops = [(g_, n) for g_, n in scope_nodes(repo, f_poi) if isinstance(n, ast.While)]
    if len(loops) != 1:
        raise AnalysisError('C14.1: the id/letters cut of _parse_obj_id_matcher is neither an rstrip() nor one backwards loop')
    g_, lp = loops[0]
    lm = re.search(r'(\w+)\(text\[(\w+) - 1\]\)', norm(lp.test))
    if not lm:
        # the letter test written in place: `while i > 0 and <test on text[i - 1]>` - folded for every character
        m2 = re.match(r'^(\w+) > 0 and (.+)$', norm(lp.test))
        cur2 = m2.group(1) if m2 else None
        if m2 and ('text[%s - 1]' % cur2) in m2.group(2) and isinstance(lp.test, ast.BoolOp) and len(lp.test.values) == 2:
            from ..peval import module_resolver as _mres0
            res0 = _mres0(repo, g_.module)
            acc0 = set()
            try:
                for ch in range(0, 0x250):
                    if fold(lp.test.values[1], {}, {'text[%s - 1]' % cur2: chr(ch)}, res0):
                        acc0.add(ch)
            except Unfoldable as ex_:
                raise AnalysisError('C14.1: cannot evaluate the letter test of the cut loop: %s' % ex_)
            maximal0 = len(lp.body) == 1 and norm(lp.body[0]) in ('%s -= 1' % cur2, '%s = %s - 1' % (cur2, cur2))
            return {'accepted': acc0, 'maximal': maximal0, 'form': 'loop', 'site': g_.loc(lp), 'why': 'the cut loop is `while %s`' % norm(lp.test), 'cursor': cur2}
        raise AnalysisError('C14.1: the cut loop does not test the character before the cursor: %s' % norm(lp.test))
    r_ = repo.lookup(g_.module, lm.group(1))
    if not (r_ and r_[0] == 'func'):
        raise AnalysisError('C14.1: letter test %s is not a function of the repository' % lm.group(1))
    f_isl = r_[1]
    rets = [n for n in f_isl.body_nodes() if isinstance(n, ast.Return)]
    vdef = {n.targets[0].id: n.value for n in f_isl.body_nodes() if isinstance(n, ast.Assign) and isinstance(n.targets[0], ast.Name)}
    if len(rets) != 1:
        raise AnalysisError('C14.1: %s is no longer a single return expression' % f_isl.name)
    from ..peval import module_resolver as _mres
    _res_isl = _mres(repo, f_isl.module)
    accepted = set()
    import string as _string_mod
    env_names = {nm: getattr(_string_mod, b[2]) for nm, b in repo.module_scope(f_isl.module).items()
                 if b[0] == 'from' and b[1] == 'string' and isinstance(getattr(_string_mod, b[2], None), str)}     # from string import ascii_letters
    for ch in range(0, 0x250):
        env = dict(env_names)
        env[f_isl.params()[0]] = chr(ch)
        try:
            for k, v in vdef.items():
                env[k] = fold(v, env, STR, _res_isl)
            if fold(rets[0].value, env, STR, _res_isl):
                accepted.add(ch)
        except Unfoldable as ex_:
            raise AnalysisError('C14.1: cannot evaluate %s: %s' % (f_isl.name, ex_))
    cur = lm.group(2)
    maximal = re.match(r'^%s > 0 and %s\(' % (cur, lm.group(1)), norm(lp.test)) is not None and len(lp.body) == 1 and norm(lp.body[0]) in ('%s -= 1' % cur, '%s = %s - 1' % (cur, cur))
    return {'accepted': accepted, 'maximal': maximal, 'form': 'loop', 'site': f_isl.loc(), 'why': 'the cut loop is `while %s`' % norm(lp.test), 'cursor': cur}


def run(ctx):
    repo = ctx.repo
    ctx.decided = ['C14.1 lexing agreement between displayed letters and the matcher\'s letter test', 'C14.2 same (id, generation) pair on both sides; encoder and decoder are the bijective base-26 numeration and its inverse for every label of up to K letters (folded)',
                   'C14.3 connection names: displayed name is the name matched, names are never reused',
                   'C14.4 a pattern selects exactly the messages on / creating / destroying the object; the bare form adds messages mentioning it']
    ctx.undecided = ['the base-26 conversion for labels longer than %d letters (decided by folding up to that length; beyond it needs induction)' % (3 if ctx.tier == 'thorough' else 2),
                     'selection semantics of the bare-object matcher (C05)']
    f_enc = repo.func('letter_id_generator.number_to_letter_id')
    f_dec = repo.func('letter_id_generator.letter_id_to_number')
    # ---- C14.1 ------------------------------------------------------------------------------------------
    check_zero_is_a_value(ctx, 'C14.1', 'incarnation 0 (letter a), position 0', lambda f: f.module.name in ('core.letter_id_generator', 'core.wl.object', 'core.matcher'), floor=20)
    # letters the encoder can produce: chr(R + base) with R a remainder modulo M (x % M or divmod(x, M)[1]) and
    # base = ord('A') if caps else ord('a'); read from the substituted terms of the paths (so temporaries, divmod and
    # hoisted constants are looked through)
    produced = {}
    nchr = 0
    for p in paths_of(repo, f_enc, while_unroll=1, asserts='ignore'):
        caps_dec = [v for a, v in p.decisions if a.text == 'caps']
        for e in p.events:
            if e.kind == 'call' and e.ftext == 'chr' and e.args:
                nchr += 1
                a = e.args[0]
                mod = base = None
                if isinstance(a, ast.BinOp) and isinstance(a.op, ast.Add):
                    for x, y in ((a.left, a.right), (a.right, a.left)):
                        if isinstance(x, ast.BinOp) and isinstance(x.op, ast.Mod) and isinstance(x.right, ast.Constant):
                            mod, base = x.right.value, y
                        if isinstance(x, ast.Subscript) and isinstance(x.value, ast.Call) and norm(x.value.func) == 'divmod' and len(x.value.args) == 2 \
                                and isinstance(x.value.args[1], ast.Constant) and isinstance(x.slice, ast.Constant) and x.slice.value == 1:
                            mod, base = x.value.args[1].value, y
                if mod is None or not caps_dec:
                    raise AnalysisError('C14.1: letters are no longer produced as chr(<remainder mod M> + base): %s' % e.text[:80])
                try:
                    b = _eval(base, {})
                except Exception:
                    raise AnalysisError('C14.1: cannot evaluate alphabet base %s' % norm(base)[:60])
                produced.setdefault(caps_dec[0], set()).update(range(b, b + mod))
    if nchr == 0:
        raise AnalysisError('C14.1: the encoder no longer builds its letters with chr(): the alphabet it can produce cannot be read off')
    for caps, want in ((True, set(range(ord('A'), ord('Z') + 1))), (False, set(range(ord('a'), ord('z') + 1)))):
        got = produced.get(caps, set())
        ctx.check(got == want, 'C14.1', 'encoder:alphabet:%s' % ('caps' if caps else 'lower'), f_enc.loc(), 'the encoder produces exactly the 26 letters %s..%s' % (chr(min(want)), chr(max(want))),
                  'the encoder can produce characters %s..%s (%d of them)' % (chr(min(got)) if got else '?', chr(max(got)) if got else '?', len(got)))
    # letters the matcher's lexer accepts
    cut = letter_cut(repo)
    accepted = cut['accepted']
    site_isl = cut['site']
    lower = produced.get(False, set())
    ctx.check(lower <= accepted and produced.get(True, set()) <= accepted, 'C14.1', 'lexer:accepts-produced-letters', site_isl, 'every letter a label can contain is accepted by the matcher\'s letter test',
              'letters %s appear in labels but are not accepted by _is_letter' % sorted(chr(c) for c in (lower | produced.get(True, set())) - accepted)[:5])
    digits = set(range(ord('0'), ord('9') + 1))
    ctx.check(not (digits & accepted), 'C14.1', 'lexer:digits-are-not-letters', site_isl, 'digits of the id are never taken for incarnation letters',
              'digits %s are accepted as letters: the id part of a label would be swallowed' % sorted(chr(c) for c in digits & accepted))
    f_poi = repo.func('matcher._parse_obj_id_matcher')
    pp = paths_of(repo, f_poi, while_unroll=1)
    # the rule speaks about labels (digits followed by letters): a path that no label can take - by the decisions that fold on sample labels -
    # belongs to some other spelling of an object id and is not judged here
    from .common import paths_for_input as _pfi14, cparams as _cp14
    par14 = _cp14(f_poi)[0]
    feas14 = set()
    for sample in ('7', '7a', '12bc', '340zz'):
        feas14 |= {id(p_) for p_ in _pfi14(pp, {par14: sample})}
    pp = [p_ for p_ in pp if id(p_) in feas14]
    nsplit = 0
    for p in pp:
        if p.outcome[0] != 'return':
            continue
        rv = p.outcome[1]
        if isinstance(rv, ast.Call) and norm(rv.func) == 'PairMatcher' and len(rv.args) == 3:
            a0, a2 = norm(rv.args[0]), norm(rv.args[2])
            m0 = re.match(r'^_parse_int_matcher\(text(\[:(.+)\])?\)$', a0)
            m2 = re.match(r'^_parse_generation_matcher\(text\[(.+):\]\)$', a2)
            if cut['form'] == 'regex':
                mt = re.escape(cut['match'])
                grp = r'(?:%s\.group\((\d)\)|%s\.groups\(\)\[(\d)\])' % (mt, mt)
                m0 = re.match(r'^_parse_int_matcher\(%s\)$' % grp, a0)
                m2r = re.match(r'^_parse_generation_matcher\(%s\)$' % grp, a2)
                if m2r:
                    nsplit += 1
                    i0 = m0 and (int(m0.group(1)) if m0.group(1) else int(m0.group(2)) + 1)
                    i2 = int(m2r.group(1)) if m2r.group(1) else int(m2r.group(2)) + 1
                    ctx.check(bool(m0) and i0 == 1 and i2 == 2, 'C14.1', 'split:same-cut', f_poi.loc(), 'the label is cut at one position into id digits and incarnation letters',
                              'label is cut as %s / %s' % (a0, a2))
                continue
            if cut['form'] == 'rstrip':
                # id = text.rstrip(L), letters = text[len(text.rstrip(L)):]
                rs = re.escape(cut['rstrip'])
                m0 = re.match(r'^_parse_int_matcher\((%s)\)$' % rs, a0)
                if m2:
                    nsplit += 1
                    ctx.check(bool(m0) and m2.group(1) == 'len(%s)' % cut['rstrip'], 'C14.1', 'split:same-cut', f_poi.loc(), 'the label is cut at one position into id digits and incarnation letters',
                              'label is cut as %s / %s' % (a0, a2))
                continue
            if m0 and m2 and m0.group(2) is None:
                m0 = None
            if m2:
                nsplit += 1
                ctx.check(bool(m0) and m0.group(2) == m2.group(1), 'C14.1', 'split:same-cut', f_poi.loc(), 'the label is cut at one position into id digits and incarnation letters',
                          'label is cut as %s / %s' % (a0, a2))
    ctx.floor('C14.1', nsplit, 1, 'id+letters split')
    ctx.check(cut['maximal'], 'C14.1', 'split:trailing-letters', f_poi.loc(), 'the cut is placed before the maximal run of trailing letters (%s)' % cut['why'], 'the cut is not maximal: %s' % cut['why'])

    # ---- C14.2 ------------------------------------------------------------------------------------------
    from .common import scope_nodes
    # The arithmetic of both directions is decided by folding the terms their paths return (nothing of the repository is executed: the
    # path interpreter produces the term, sa/peval interprets it on constants): the encoder for every index whose label has up to K letters,
    # the decoder for every label of up to K letters, both against the bijective base-26 numeration a, b, .. z, aa, ab, ..  So the two agree
    # with each other, distinct indices get distinct labels, and a typed label names the incarnation that displays it - for K = 2 (thorough: 3).
    from ..peval import fold as _fold, Unfoldable as _Unf, module_resolver as _mres2
    from ..sim import deep_ast as _deep_ast
    from .common import paths_for_input as _pfi
    K = 3 if ctx.tier == 'thorough' else 2
    res_lig = _mres2(repo, f_enc.module)

    def spec_label(n, caps):
        out, n = '', n + 1
        while n > 0:
            n -= 1
            out = chr(n % 26 + (65 if caps else 97)) + out
            n //= 26
        return out
    limit = sum(26 ** j for j in range(1, K + 1))
    enc_paths = paths_of(repo, f_enc, while_unroll=K + 1, asserts='ignore')
    from ..sim import _canon_params as _cpar
    pv, pc = (_cpar(f_enc) or f_enc.params())[:2]
    bad_enc = None
    n_enc = 0
    samples = range(limit) if limit <= 800 else list(range(0, 800)) + list(range(limit - 60, limit)) + list(range(800, limit, 97))
    for n in samples:
        for caps in (True, False):
            env = {pv: n, pc: caps}
            outs = set()
            for p in _pfi(enc_paths, env, None, res_lig):
                if p.outcome[0] != 'return':
                    outs.add(p.outcome[0])
                    continue
                try:
                    outs.add(_fold(_deep_ast(p.outcome[1]), env, None, res_lig))
                except _Unf as ex_:
                    outs.add('not evaluable: %s' % ex_)
            n_enc += 1
            if outs != {spec_label(n, caps)} and bad_enc is None:
                bad_enc = (n, caps, sorted(map(str, outs)), spec_label(n, caps))
    ctx.check(bad_enc is None, 'C14.2', 'letters:encoder-is-bijective-base-26', f_enc.loc(),
              'index n is displayed as the n-th word of a, b, .., z, aa, ab, .. (capitals for connections) for every n below %d' % limit,
              'number_to_letter_id(%s, caps=%s) gives %s, the numeration says %r' % (bad_enc if bad_enc else ('', '', '', '')))
    ctx.floor('C14.2', n_enc, 2 * min(limit, 700), 'encoder evaluations')
    dec_paths = [p for p in paths_of(repo, f_dec, unroll=K, asserts='ignore') if p.outcome[0] == 'return']
    bad_dec = None
    n_dec = 0
    import itertools as _it
    pt = (_cpar(f_dec) or f_dec.params())[0]
    for p in dec_paths:
        term = _deep_ast(p.outcome[1])
        elems = sorted(set(re.findall(r'<elem(\d+) of ([^<>]+)>', norm(term))))
        k = len(elems)
        if k == 0:
            continue        # the empty label (guarded by an assertion / by the caller: C18 triage)
        srcs = {s_ for _, s_ in elems}
        if not srcs <= {pt, pt + '.lower()'} or [int(i_) for i_, _ in elems] != list(range(k)):
            bad_dec = bad_dec or ('?', 'the label is not read letter by letter, first to last: %s' % sorted(srcs), '')
            continue
        lower_only = srcs == {pt + '.lower()'}
        alphabet = 'abcdefghijklmnopqrstuvwxyz' + ('' if lower_only else 'ABCDEFGHIJKLMNOPQRSTUVWXYZ')
        if not lower_only and k > 1:
            alphabet = 'abcxyzABXZ' if k > 2 else alphabet
        for word in _it.product(alphabet, repeat=k):
            n_dec += 1
            texts = {'<elem%s of %s>' % (i_, s_): word[int(i_)] for i_, s_ in elems}
            want = None
            w = ''.join(word).lower()
            acc_ = 0
            for ch in w:
                acc_ = acc_ * 26 + (ord(ch) - 96)
            want = acc_ - 1
            try:
                got = _fold(term, {}, texts, res_lig)
            except _Unf as ex_:
                got = 'not evaluable: %s' % ex_
            if got != want and bad_dec is None:
                bad_dec = (''.join(word), got, want)
    ctx.check(bad_dec is None, 'C14.2', 'letters:decoder-is-its-inverse', f_dec.loc(),
              'a typed label of up to %d letters (either case) names the index that is displayed with it' % K,
              'letter_id_to_number(%r) gives %s, the numeration says %s' % (bad_dec if bad_dec else ('', '', '')))
    ctx.floor('C14.2', n_dec, 26 + 100, 'decoder evaluations')
    f_oim = repo.func('ObjectIdMatcher.matches')
    for p in paths_of(repo, f_oim):
        if p.outcome[0] != 'return':
            continue
        none = [v for a, v in p.decisions if a.text == 'obj.generation is None']
        want = 'self.wrapped.matches((obj.id, %s))' % ('0' if (none and none[0]) else 'obj.generation')
        ctx.check(norm(p.outcome[1]) == want and bool(none), 'C14.2', 'matcher:pair:%s' % (none[0] if none else '?'), f_oim.loc(),
                  'the matcher sees the pair (id, generation) unmodified (generation 0 when unset)', 'the matcher sees %s' % norm(p.outcome[1]))
    f_pg = repo.func('matcher._parse_generation_matcher')
    # (judged on the paths a run of letters can take: decisions that fold on the samples select the paths; a path that hangs on a decision which
    # does not fold - a test by a function the tree gained - and does not conform leaves the clause undecided)
    from ..peval import fold_text as _ft14, Unfoldable as _Unf14
    par_g = _cp14(f_pg)[0]
    n_gen = 0
    for p in paths_of(repo, f_pg):
        feasible = False
        hangs = False
        for sample in ('a', 'b', 'ab', 'zz'):
            okp = True
            for a_, v_ in p.decisions:
                try:
                    fv = _ft14(a_.text, {par_g: sample}, None, None)
                    if isinstance(fv, tuple) and len(fv) == 2 and fv[0] == 'sym':
                        hangs = True
                        continue
                    if bool(fv) != v_:
                        okp = False
                        break
                except _Unf14:
                    hangs = True
            feasible = feasible or okp
        if not feasible:
            continue
        conforms = p.outcome[0] == 'return' and norm(p.outcome[1]) == 'EqMatcher(letter_id_to_number(%s), %s)' % (par_g, par_g)
        if not conforms and hangs:
            raise AnalysisError('C14.2: cannot decide which path of _parse_generation_matcher a run of letters takes (%s)' % [a_.text[:40] for a_, v_ in p.decisions][:3])
        n_gen += 1
        ctx.check(conforms, 'C14.2', 'matcher:generation-from-letters', f_pg.loc(),
                  'the generation matched is letter_id_to_number(letters), without offset', 'generation matcher is %s' % p.outcome_text()[:100])
    ctx.floor('C14.2', n_gen, 1, 'path of _parse_generation_matcher for a run of letters')
    f_pm_ = repo.func('PairMatcher.matches')
    for p in paths_of(repo, f_pm_):
        if p.outcome[0] == 'return' and norm(p.outcome[1]) not in ('False',):
            ctx.check('self.a.matches(pair[0])' in norm(p.outcome[1]) or any(a.text == 'self.a.matches(pair[0])' for a, v in p.decisions), 'C14.2', 'pair:first-with-first', f_pm_.loc(), 'PairMatcher applies its first matcher to the first component')
            ctx.check('self.b.matches(pair[1])' in norm(p.outcome[1]), 'C14.2', 'pair:second-with-second', f_pm_.loc(), 'PairMatcher applies its second matcher to the second component')
    f_ids = repo.func('ObjectBase.id_str')
    for p in paths_of(repo, f_ids):
        none = [v for a, v in p.decisions if a.text == 'self.generation is None']
        if none and not none[0] and p.outcome[0] == 'return':
            from .common import dtext
            t = dtext(p.outcome[1])
            ctx.check("'@' + str(self.id) + number_to_letter_id(self.generation, False)" in t.replace('caps=False', 'False'), 'C14.2', 'label:id-then-letters', f_ids.loc(), 'the label is id digits followed by number_to_letter_id(generation)', 'label is %s' % t[:120])
    imp = repo.lookup(repo.modules['core.matcher'], 'letter_id_to_number')
    imp2 = repo.lookup(repo.modules['core.wl.object'], 'number_to_letter_id')
    ctx.check(imp and imp2 and imp[0] == 'func' and imp2[0] == 'func' and imp[1].module is imp2[1].module, 'C14.2', 'same-module', f_enc.loc(), 'label side and matcher side use the two converters of one module')

    # distinct objects of one id get distinct letters only if the object table invariant (C02) and the liveness discipline that
    # lets an id be reused (C03) hold: their findings are findings against label uniqueness as well
    from ..report import Ctx as _Ctx
    from . import c02 as _c02, c03 as _c03
    nlift = 0
    for mod, pid in ((_c02, 'C02'), (_c03, 'C03')):
        sub = _Ctx(pid, repo, tier=ctx.tier, quiet=True)
        mod.run(sub)
        nlift += len(sub.obligations)
        for v in sub.violations:
            ctx.violation('C14.2', 'label-uniqueness:%s:%s' % (v['rule'], v['key']), v['site'], 'label uniqueness rests on %s: %s' % (v['rule'], v['msg']), v['witness'])
    ctx.ok('C14.2', f_enc.loc(), 'label-uniqueness:object-table-invariant', 'the %d obligations of C02 (db[k][g].generation == g, append-only) and C03 (reuse only after destruction) were evaluated for label uniqueness' % nlift)
    # ---- C14.3 ------------------------------------------------------------------------------------------
    from .c04 import check_naming
    check_naming(ctx, 'C14.3')
    f_cm = repo.func('ConnectionMatcher.matches')
    for p in paths_of(repo, f_cm):
        if p.outcome[0] != 'return':
            continue
        none = [v for a, v in p.decisions if a.text == 'conn is None']
        want = "self.wrapped.matches(%s)" % ("'unknown'" if (none and none[0]) else 'conn.name()')
        ctx.check(norm(p.outcome[1]) == want, 'C14.3', 'connection-matcher:name:%s' % (none[0] if none else '?'), f_cm.loc(), 'a connection matcher is applied to the connection\'s displayed name',
                  'connection matcher is applied to %s' % norm(p.outcome[1]))
    f_ms = repo.func('message.Message.show')
    for p in paths_of(repo, f_ms):
        for e in p.events:
            if e.kind == 'call' and e.ftext == 'out.show':
                none = [v for a, v in p.decisions if a.text == 'self.obj.connection is None']
                if none and not none[0]:
                    from .common import dtext as _dt
                    ctx.check("self.obj.connection.name() + ': '" in (_dt(e.args[0]) if e.args else ''), 'C14.3', 'show:connection-name', f_ms.loc(e.node), 'the displayed prefix is the connection\'s name followed by a colon', 'displayed prefix in %s' % e.text[:140])
    f_mp = repo.func('MessagePattern.matches')
    ctx.check(any(a.text == 'self.conn_matcher.matches(message.obj.connection)' for p in paths_of(repo, f_mp, unroll=1) for a, v in p.decisions), 'C14.3', 'pattern:conn-of-target', f_mp.loc(),
              'a message pattern tests the connection of the message\'s target object')
    # ---- C14.4 a label matcher selects the messages on / creating / destroying / mentioning the object ---------------------
    f_mp = repo.func('MessagePattern.matches')
    mpaths = paths_of(repo, f_mp, unroll=1, bool_returns=True)

    def m_mp(a):
        t = a.text
        table = {'self.conn_matcher.matches(message.obj.connection)': 'conn', 'self.match_new': 'mnew', 'self.match_destroyed': 'mdest',
                 'self.obj_matcher.matches(message.destroyed_obj)': 'objdest', 'self.obj_matcher.matches(message.obj)': 'objself',
                 'self.name_matcher.matches(message.name)': 'name', 'self.args_matcher.matches(message.args)': 'args'}
        if t in table:
            return (table[t], True)
        if t == 'message.destroyed_obj is None':
            return ('dnone', True)
        if t == 'message.destroyed_obj':
            return ('dnone', False)
        if re.match(r'^isinstance\(<elem0 of message\.args>, wl\.Arg\.Object\)$', t):
            return ('arg_isobj', True)
        if t == '<elem0 of message.args>.is_new':
            return ('arg_isnew', True)
        if t == 'self.obj_matcher.matches(<elem0 of message.args>.obj)':
            return ('arg_obj', True)
        return None
    uni = ['conn', 'mnew', 'mdest', 'objdest', 'objself', 'name', 'args', 'dnone', 'arg_isobj', 'arg_isnew', 'arg_obj']

    def expected(has_arg):
        def ex(F):
            created = has_arg and F['mnew'] and F['arg_isobj'] and F['arg_isnew'] and F['arg_obj']
            destroyed = F['mdest'] and (not F['dnone']) and F['objdest']
            on = F['objself'] and F['name'] and F['args']
            return F['conn'] and (created or destroyed or on)
        return ex
    nmp = 0
    for p in mpaths:
        for a_, v_ in p.decisions:
            if m_mp(a_) is None:
                # a decision the scenario table has no column for (the function was rewritten around other tests): what it returns cannot be
                # compared with the table - undecided, not a violation
                raise AnalysisError('C14.4: MessagePattern.matches decides on `%s`, which the scenario table does not know' % a_.text[:100])
    for has_arg in (False, True):
        sel = []
        for p in mpaths:
            iters = sum(1 for e in p.events if e.kind == 'loop-iter')
            entered = any(e.kind in ('loop-iter', 'loop-exit', 'loop-break') for e in p.events)
            if p.outcome[0] != 'return' or not isinstance(p.outcome[1], ast.Constant):
                ctx.violation('C14.4', 'pattern:not-boolean', f_mp.loc(), 'MessagePattern.matches does not return a truth value on path %s' % p.describe()[:120])
                continue
            if has_arg == (iters >= 1) or not entered:
                sel.append(p)
        probs = check_reach(sel, lambda e: e.kind == 'return' and isinstance(e.value, ast.Constant) and e.value.value is True, m_mp, expected(has_arg), universe=uni)
        nmp += len(sel)
        ctx.check(not probs, 'C14.4', 'pattern:on-or-creates-or-destroys:%s' % ('with-argument' if has_arg else 'no-arguments'), f_mp.loc(),
                  'a pattern selects a message iff the connection matches and the message is on the object (with name and arguments), creates it (.new) or destroys it (.destroyed)',
                  'MessagePattern.matches returns %s in scenario %s' % ((probs[0][2], {k: v for k, v in probs[0][1].items()}) if probs else ('', '')))
    ctx.floor('C14.4', nmp, 8, 'paths of MessagePattern.matches')
    f_mpi = repo.func('MessagePattern.__init__')
    for p in paths_of(repo, f_mpi):
        st = {e.target: norm(e.value) for e in p.events if e.kind == 'store'}
        ctx.check(st.get('self.match_new') == "self.name_matcher.matches('new') and self.args_matcher.matches(())" and
                  st.get('self.match_destroyed') == "self.name_matcher.matches('destroyed') and self.args_matcher.matches(())", 'C14.4', 'pattern:new-destroyed-flags', f_mpi.loc(),
                  '.new / .destroyed are recognised when the name part accepts that word and the argument part accepts no arguments', 'flags are %s' % {k: v for k, v in st.items() if 'match_' in k})
    # the bare-object form: on the object, or mentioning it as an argument
    f_pmp = repo.func('matcher._parse_message_pattern')
    bare = [p for p in paths_of(repo, f_pmp, asserts='ignore') if p.outcome[0] == 'return' and norm(p.outcome[1]).startswith('MatcherList([MessagePattern(')]
    ctx.floor('C14.4', len(bare), 1, 'bare-object path of _parse_message_pattern')
    for p in bare:
        t = norm(p.outcome[1])
        want = ("MatcherList([MessagePattern(ConnectionMatcher(_parse_text_matcher(CONN)), _parse_obj_matcher(OBJ), AlwaysMatcher(True), AlwaysMatcher(True)), "
                "MessagePattern(ConnectionMatcher(_parse_text_matcher(CONN)), AlwaysMatcher(True), AlwaysMatcher(True), ArgsMatcherList([ArgMatcher(AlwaysMatcher(True), ObjectArgValueMatcher(_parse_obj_matcher(OBJ)))], []))], [])")
        m = re.match(r"^MatcherList\(\[MessagePattern\(ConnectionMatcher\(_parse_text_matcher\((.+?)\)\), _parse_obj_matcher\((.+?)\), ", t)
        ok = bool(m) and t == want.replace('CONN', m.group(1)).replace('OBJ', m.group(2))
        ctx.check(ok, 'C14.4', 'bare-object:self-or-argument', f_pmp.loc(), 'a bare object matcher is (messages on the object) or (messages with the object as an argument), both restricted to the connection',
                  'bare object matcher is built as %s' % t[:300])
    return ('finite-domain evaluation of the character classes (encoder alphabet vs lexer), shared radix/alphabet constants of encoder and decoder, '
            'identity chains of the (id, generation) pair and of the connection name. Decided: %s. Undecided: %s' % ('; '.join(ctx.decided), '; '.join(ctx.undecided)))
