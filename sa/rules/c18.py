"""C18 - no input makes the tool fail with an unhandled error (structural part)."""
import ast
import re

from ..core import AnalysisError, norm
from ..flow import is_abstract_marker, handler_stack, first_catcher
from .. import keysafe
from . import common
from .common import (effects, exceptions, paths_of, check_writers, arg_by_name, named_call_sites, call_sites_of)
from .c17 import sanitiser_first
from .c14 import _eval as c14_eval

LENIENT = {'replace', 'backslashreplace', 'surrogateescape', 'ignore', 'namereplace', 'xmlcharrefreplace'}
OPENERS = {'open', 'io.open', 'os.fdopen', 'codecs.open', 'io.TextIOWrapper'}

# (raise function, exception) -> (reason, optional condition tag checked below)
TRIAGE = {
    ('core.letter_id_generator.letter_id_to_number', 'AssertionError'):
        ('the only caller (_parse_generation_matcher via _parse_obj_id_matcher) passes a non-empty suffix of ASCII letters selected by _is_letter', 'c14'),
    ('core.matcher._parse_generation_matcher', 'AssertionError'):
        ('the only caller passes text[i:] under i < len(text) after the backwards _is_letter loop: a non-empty run of characters the letter test accepts', 'c14gen'),
    ('core.letter_id_generator.number_to_letter_id', 'AssertionError'):
        ('value >= 0: generations are list indices (C02.2), connection ordinals start at 0 and only grow (C04.3)', None),
    ('core.matcher._find_closing_brace', 'KeyError'):
        ('the only caller _split_on calls it under `c in _brace_pairs` with that very character', 'brace'),
    ('core.wl.object.ObjectBase.__init__', 'AssertionError'):
        ('obj_id > 0: MockObject passes the constant 1; UnresolvedObject ids come from decoded digits and a 0 id lands in parse_all\'s internal-error handler, not in a command', 'mockobj'),
    ('frontends.tui.controller.Controller.process_command', 'AssertionError'):
        ('`assert args`: re.split returns at least one element; `assert not second`: an empty first token implies empty input because colour is removed and the line stripped first (C17.5)', 'c17'),
    ('core.matcher.help_text', 'AssertionError'):
        ('matchers.md is a static asset: every table row carries a back-quoted matcher (checked on the shipped file)', 'helptext'),
}


def run(ctx):
    repo = ctx.repo
    cg = repo.callgraph()
    ex = exceptions(repo)
    ctx.decided = ['C18.1 lenient decoding of every text stream that is parsed', 'C18.2 raise/catch agreement around matcher parsing', 'C18.3 matcher evaluation / printing is total, abstract methods implemented',
                   'C18.4 parser loop cannot be left by an exception, cleanup follows', 'C18.5 commands: escape set is within the triage table, unknown commands are reported', 'C18.6 key safety (C15.1)']
    ctx.undecided = ['implicit failure modes outside the modelled table (recursion depth, memory, arbitrary TypeError/IndexError/AttributeError)', 'OS errors other than FileNotFoundError when opening the file',
                     'EOF on the interactive prompt']
    ctx.assumptions = ['exception model: explicit raise, assert, int()/float() conversions, dict subscripts (flow.Exceptions); call graph is an over-approximation (RTA + CHA)']
    # ---- C18.1 ----------------------------------------------------------------------------------------------
    f_pa = repo.func('Parser.parse_all')
    covered_globally = False
    for n in f_pa.body_nodes():
        if isinstance(n, ast.Call) and isinstance(n.func, ast.Attribute) and n.func.attr == 'readline':
            h = first_catcher(handler_stack(f_pa, n), 'UnicodeDecodeError')
            if h is not None:
                body = '\n'.join(norm(s) for s in h.body)
                covered_globally = 'break' not in body and 'return' not in body
    sites = call_sites_of(repo, lambda t: t.qual.endswith('parse.into_sink'))
    entries = []
    for f, s in sites:
        for g in common.effective_funcs(repo, f):       # a freshly extracted helper stands for its callers
            if g not in entries:
                entries.append(g)
    ctx.floor('C18.1', len(entries), 3, 'callers of into_sink')
    for f in entries:
        # what the stream argument holds when the parser is entered, read on the paths of the entry function (through locals, `with .. as`
        # and freshly extracted helpers)
        seen_why = set()
        n_enter = 0
        for p in paths_of(repo, f, asserts='ignore'):
            for i, e in enumerate(p.events):
                if not e.calls('parse.into_sink') or not e.args:
                    continue
                n_enter += 1
                src = e.args[0]
                ok = False
                why = 'stream %s' % norm(src)[:60]
                if isinstance(src, ast.Call) and norm(src.func) in OPENERS:
                    er = [common.static_const(repo, f.module, k.value) for k in src.keywords if k.arg == 'errors']
                    ok = bool(er) and isinstance(er[0], ast.Constant) and er[0].value in LENIENT
                    mode = [k.value for k in src.keywords if k.arg == 'mode'] + (list(src.args[1:2]))
                    if any(isinstance(m, ast.Constant) and isinstance(m.value, str) and 'b' in m.value for m in mode):
                        ok = False
                    why = '%s(... errors=%s)' % (norm(src.func), norm(er[0]) if er else 'strict (default)')
                elif norm(src) == 'sys.stdin':
                    rec = [x for x in p.events[:i] if x.kind == 'call' and x.ftext == 'sys.stdin.reconfigure'
                           and any(k_ == 'errors' and isinstance(common.static_const(repo, f.module, v_), ast.Constant)
                                   and common.static_const(repo, f.module, v_).value in LENIENT for k_, v_ in x.kwargs.items())]
                    ok = bool(rec)
                    why = 'sys.stdin %s' % ('reconfigured with a lenient handler' if ok else 'with the locale\'s strict decoder')
                if why in seen_why:
                    continue
                seen_why.add(why)
                ctx.check(ok or covered_globally, 'C18.1', 'decode:%s' % f.qual, f.loc(e.node), 'input of %s is decoded leniently (%s)' % (f.name, why),
                          'undecodable bytes in the input of %s raise UnicodeDecodeError out of readline() and abort the program (%s)' % (f.name, why), stmt=e.text[:100])
        ctx.floor('C18.1', n_enter, 1, 'path of %s that enters the parser' % f.short)

    # ---- triage conditions -------------------------------------------------------------------------------------
    cond = {}
    # c14: letters reach letter_id_to_number only via _parse_generation_matcher(text[i:]) under i < len(text) after the _is_letter loop
    from .common import effective_funcs, scope_nodes
    callers = sorted({g.short for f, n in named_call_sites(repo, 'letter_id_to_number') for g in effective_funcs(repo, f)})
    f_poi = repo.func('matcher._parse_obj_id_matcher')
    gen_calls = sorted({g.short for f, n in named_call_sites(repo, '_parse_generation_matcher') for g in effective_funcs(repo, f)})
    ok14 = callers == ['_parse_generation_matcher'] and gen_calls == ['_parse_obj_id_matcher']
    shape14 = ok14      # the call structure the condition is stated over; when it is gone the clause is undecided, not violated
    if ok14:
        seen14 = []
        for p in paths_of(repo, f_poi, while_unroll=1):
            for e in p.events:
                if e.kind == 'call' and e.ftext == '_parse_generation_matcher':
                    a0 = e.argtext(0) or ''
                    lt = [v for a, v in p.decisions if re.match(r'^.+ < len\(text\)$', a.text)]
                    nonempty = [v for a, v in p.decisions if a.text == a0]          # `if suffix:` on the very slice passed
                    seen14.append(bool(((bool(lt) and lt[-1]) or (bool(nonempty) and nonempty[-1])) and bool(re.match(r'^text\[.+:\]$|^.*\.(match|fullmatch)\(.*text\)\.(group\(2\)|groups\(\)\[1\])$', a0))))
        ok14 = bool(seen14) and all(seen14)
        if seen14 and not all(seen14) and any(seen14):
            shape14 = False     # the letters also reach the decoder in a way the condition does not speak about (a new spelling): undecided, not refuted
    if ok14:
        # the cut is placed before the maximal run of trailing letters, and only ASCII letters count as letters
        from .c14 import letter_cut
        # (a cut written in a form that cannot be decided makes this clause undecided - AnalysisError propagates -, not false)
        cut = letter_cut(repo)
        ok14 = all(chr(ch).isascii() and chr(ch).isalpha() for ch in cut['accepted'])      # whatever is cut off as letters consists of ASCII letters
    cond['c14'] = ok14 if shape14 else None
    # c14gen: an assertion inside _parse_generation_matcher that only re-states what c14 establishes about its argument - non-empty, and
    # every character accepted by the letter test of the cut (hence an ASCII letter)
    f_pgm = repo.try_func('matcher._parse_generation_matcher')
    cond['c14gen'] = None
    if f_pgm is not None and cond['c14'] is not None:
        par_g = f_pgm.params()[0] if f_pgm.params() else None
        asserts_g = [n for n in f_pgm.body_nodes() if isinstance(n, ast.Assert)]

        def restates(e):
            if isinstance(e, ast.BoolOp) and isinstance(e.op, ast.And):
                return all(restates(v) for v in e.values)
            t = norm(e)
            if common.str_given(t, par_g) is True or t in ('%s.isalpha()' % par_g, '%s.isascii()' % par_g, "%s != ''" % par_g, 'isinstance(%s, str)' % par_g):
                return True
            m = re.match(r'^all\(\(?(\w+)\((\w+)\) for \2 in %s\)?\)$' % re.escape(par_g), t)
            if m:
                r_ = repo.lookup(f_pgm.module, m.group(1))
                return bool(r_) and r_[0] == 'func' and r_[1].name == '_is_letter'
            return False
        rebinds = [n for n in f_pgm.body_nodes() if isinstance(n, ast.Name) and n.id == par_g and isinstance(n.ctx, ast.Store)]
        if par_g and asserts_g and not rebinds and all(restates(a.test) for a in asserts_g):
            cond['c14gen'] = cond['c14']
    f_so = repo.func('matcher._split_on')
    # decided on the paths of _split_on (two characters deep): every call of _find_closing_brace(T, K) happens after the decision
    # `T[K] in _brace_pairs` was taken as true on that path - with that very text and position
    from .common import effective_funcs as _eff_b
    okb = True
    brace_keys = None
    r_bp = repo.lookup(f_so.module, '_brace_pairs')
    if r_bp and r_bp[0] == 'var' and isinstance(r_bp[1], ast.Dict) and all(isinstance(k_, ast.Constant) for k_ in r_bp[1].keys):
        brace_keys = {k_.value for k_ in r_bp[1].keys}
    for f_b, n_b in named_call_sites(repo, '_find_closing_brace'):
        if all(g.short == '_split_on' for g in _eff_b(repo, f_b)):
            continue
        # a call from elsewhere: safe when the position is where the text was just found to have one of the opening characters -
        # K = T.index('<c>') with <c> a key of the table; anything else the condition does not speak about (undecided)
        safe_b = False
        if isinstance(n_b, ast.Call) and len(n_b.args) >= 2 and isinstance(n_b.args[1], ast.Name) and brace_keys:
            defs_b = [x for x in f_b.body_nodes() if isinstance(x, ast.Assign) and len(x.targets) == 1 and isinstance(x.targets[0], ast.Name) and x.targets[0].id == n_b.args[1].id]
            stores_b = [x for x in f_b.body_nodes() if isinstance(x, ast.Name) and x.id == n_b.args[1].id and isinstance(x.ctx, ast.Store)]
            if len(defs_b) == 1 and len(stores_b) == 1:
                v_b = defs_b[0].value
                safe_b = isinstance(v_b, ast.Call) and isinstance(v_b.func, ast.Attribute) and v_b.func.attr == 'index' and norm(v_b.func.value) == norm(n_b.args[0]) \
                    and len(v_b.args) == 1 and isinstance(v_b.args[0], ast.Constant) and v_b.args[0].value in brace_keys
        if not safe_b:
            okb = None
    if okb:
        ncall_b = 0
        from .common import paths_for_input as _pfi
        from ..peval import module_resolver as _mres_b
        # (paths that decide a constant membership such as `'' in _brace_pairs` against the table itself are infeasible and dropped)
        for p in _pfi(paths_of(repo, f_so, while_unroll=2), {}, None, _mres_b(repo, f_so.module)):
            for i_, e in enumerate(p.events):
                if e.kind == 'call' and e.ftext == '_find_closing_brace' and len(e.args) >= 2:
                    ncall_b += 1
                    want = '%s[%s] in _brace_pairs' % (norm(e.args[0]), norm(e.args[1]))
                    before = {d.extra.text: None for d in p.events[:i_] if d.kind == 'decide' and d.extra is not None}
                    taken = {a.text: v for a, v in p.decisions}
                    if not (want in before and taken.get(want) is True):
                        okb = False
        if okb and ncall_b == 0:
            okb = None      # _split_on no longer calls it on its own paths (the scan moved into a helper written differently): undecided
        okb = okb and ncall_b > 0 if okb is not None else None
    cond['brace'] = okb
    mock = repo.cls('core.wl.object.MockObject')
    mi = mock.methods.get('__init__')
    sup = [n for n in (mi.body_nodes() if mi else []) if isinstance(n, ast.Call) and norm(n.func) == 'super().__init__']
    cond['mockobj'] = bool(sup) and all(len(n.args) == 1 and isinstance(n.args[0], ast.Constant) and isinstance(n.args[0].value, int) and n.args[0].value > 0 for n in sup)
    f_pc = repo.func('Controller.process_command')
    nops, bad = sanitiser_first(repo, f_pc)
    split_ok = any(isinstance(n, ast.Call) and norm(n.func) == 're.split' for n in f_pc.body_nodes())
    cond['c17'] = (not bad and nops > 0) if split_ok else (False if bad else None)    # tokenised some other way than re.split: the reason does not apply as written - undecided (refuted only when colour is not stripped first)
    # matchers.md rows
    try:
        md = repo.read_text('matchers.md')
        rows = [l for l in md.splitlines() if re.match(r'^\|.*\|$', l) and not re.match(r'^\| Matcher\s*\| Description \|$', l) and not re.match(r'^\| ---\s*\| --- \|$', l)]
        cond['helptext'] = bool(rows) and all(re.match(r'^\|\s*`(.*)`\s*\|(.*)\|$', l) for l in rows)
    except OSError:
        cond['helptext'] = False

    def triage(rs, rule, root):
        from .common import effective_funcs as _eff
        effs = _eff(repo, rs.func)      # a raise inside a freshly extracted helper belongs to the function it was extracted from
        k = ((effs[0].qual if len(effs) == 1 else rs.func.qual), rs.exc)
        if k in TRIAGE:
            reason, tag = TRIAGE[k]
            if tag is None or cond.get(tag):
                ctx.ok(rule, rs.func.loc(rs.node), 'triaged:%s:%s' % (rs.func.qual, rs.exc), 'accepted: ' + reason)
                return
            if tag in cond and cond[tag] is None:
                raise AnalysisError('%s: cannot decide whether %s (%s) can escape %s: the code the accepted reason speaks about is written differently now (%s)'
                                    % (rule, rs.exc, rs.text[:40], root.short, reason[:80]))
            ctx.violation(rule, 'escape:%s:%s' % (rs.func.qual, rs.exc), rs.func.loc(rs.node),
                          '%s (%s) can escape %s; its triage condition no longer holds: %s' % (rs.exc, rs.text[:60], root.short, reason))
            return
        if rs.kind == 'assert':
            why_ = common.assert_cannot_fail_on_paths(repo, rs.func, rs.node)
            if why_ is not None:
                ctx.ok(rule, rs.func.loc(rs.node), 'assert-holds:%s:%s' % (rs.func.qual, rs.text[:60]), 'the assertion cannot fail: ' + why_)
                return
            # an assertion the tables do not know and whose truth is not visible in its own function (flow.locally_discharged).  When it speaks
            # about nothing but the parameters of a function the pinned tree already had, it narrows what that function accepts while every
            # caller still passes what it passed before (for the command handlers: whatever the user typed) - reported.  When it speaks about
            # values computed inside the function, the author states an invariant the analysis can neither confirm nor refute - undecided
            # (reported once the run found no violation elsewhere).
            from ..sim import is_new_function as _isnew
            names_ = {x.id for x in ast.walk(rs.node.test) if isinstance(x, ast.Name)}
            attrs_ = [x for x in ast.walk(rs.node.test) if isinstance(x, ast.Attribute)]
            params_ = set(rs.func.params())
            bound_ = {x.id for x in rs.func.body_nodes() if isinstance(x, ast.Name) and isinstance(x.ctx, ast.Store)}
            if not _isnew(rs.func) and names_ & params_ and not (names_ & bound_) and not any(isinstance(a_.value, ast.Name) and a_.value.id in ('self', 'cls') for a_ in attrs_):
                ctx.violation(rule, 'escape:%s:%s' % (rs.func.qual, rs.exc), rs.func.loc(rs.node),
                              'the new assertion `%s` narrows what %s accepts, nothing shows that its callers respect it: AssertionError can escape %s unhandled'
                              % (rs.text[:60], rs.func.short, root.short))
                return
            common.unproved_assert(ctx, rule, rs, root)
            return
        ch = ex.chain(root, rs)
        ctx.violation(rule, 'escape:%s:%s' % (rs.func.qual, rs.exc), rs.func.loc(rs.node),
                      '%s raised by `%s` in %s can escape %s unhandled' % (rs.exc, rs.text[:60], rs.func.short, root.short), {'chain': [g.short for g in ch] if ch else None})

    for f_, n_, e_, why_ in ex.discharged:
        ctx.ok('C18.6' if e_ == 'KeyError' else 'C18.5', f_.loc(n_), 'locally-safe:%s:%s' % (f_.qual, norm(n_)[:60]), '%s cannot be raised here: %s' % (e_, why_))
    # ---- C18.2 --------------------------------------------------------------------------------------------------
    f_parse = repo.func('matcher.parse')
    seen = set()
    nexp = 0
    for rs in sorted(ex.escapes(f_parse), key=lambda r: r.key()):
        if rs.func.qual.startswith('core.matcher.') and rs.kind == 'explicit':
            nexp += 1
            ctx.check(rs.exc == 'RuntimeError', 'C18.2', 'parse-raise:%s' % rs.key()[:100], rs.func.loc(rs.node), 'a rejected matcher is signalled with RuntimeError',
                      'the matcher parser raises %s (`%s`): callers only handle RuntimeError' % (rs.exc, rs.text[:60]))
        elif (rs.func.qual, rs.exc) not in seen:
            seen.add((rs.func.qual, rs.exc))
            triage(rs, 'C18.2', f_parse)
    ctx.floor('C18.2', nexp, 8, 'explicit raise sites of the matcher parser')
    psites = call_sites_of(repo, lambda t: t is f_parse)
    for f, s in psites:
        h = first_catcher(handler_stack(f, s.node), 'RuntimeError')
        ok = h is not None
        why = ''
        if ok:
            body = '\n'.join(norm(x) for x in h.body)
            # a freshly extracted reporting helper called from the handler counts with its body
            for x in [y for b_ in h.body for y in ast.walk(b_)]:
                if isinstance(x, ast.Call):
                    cs_ = cg.site_of(f, x)
                    for g_ in (cs_.targets if cs_ is not None else ()):
                        from ..sim import is_new_function
                        if is_new_function(g_):
                            body += '\n' + '\n'.join(norm(b_) for b_ in g_.node.body)
            ok = ('.error(' in body) or any(isinstance(x, ast.Raise) for x in h.body)
            why = 'reports or re-raises'
        ctx.check(ok, 'C18.2', 'parse-caller:%s' % f.qual, f.loc(s.node), 'the caller of matcher.parse handles RuntimeError and %s' % why,
                  '%s calls matcher.parse without reporting a RuntimeError' % f.short)
    ctx.floor('C18.2', len(psites), 2, 'callers of matcher.parse')
    f_list = repo.func('Controller.list_command')
    for n in f_list.body_nodes():
        if isinstance(n, ast.Call) and isinstance(n.func, ast.Name) and n.func.id in ('int', 'float'):
            ctx.check(first_catcher(handler_stack(f_list, n), 'ValueError') is not None, 'C18.2', 'list:int-guarded', f_list.loc(n), 'the count after ~ is converted under a ValueError handler',
                      'list converts %s without handling ValueError' % norm(n))

    # ---- C18.3 --------------------------------------------------------------------------------------------------
    mbase = repo.cls('core.matcher.Matcher')
    seen = set()
    nm = 0
    for c in [mbase] + repo.subclasses(mbase):
        for mn in ('matches', 'simplify', '__str__', '__repr__', 'always'):
            m = c.methods.get(mn)
            if m is None or is_abstract_marker(m):
                continue
            nm += 1
            esc = ex.escapes(m)
            if not esc:
                ctx.ok('C18.3', m.loc(), 'total:%s' % m.qual, '%s.%s cannot raise (modelled exceptions)' % (c.name, mn))
            for rs in esc:
                if (m.qual, rs.func.qual, rs.exc) in seen:
                    continue
                seen.add((m.qual, rs.func.qual, rs.exc))
                triage(rs, 'C18.3', m)
    ctx.floor('C18.3', nm, 40, 'matcher methods')
    # abstract-method completeness
    nabs = 0
    for c in sorted(cg.instantiated, key=lambda c: c.qual):
        for base in c.mro():
            for mn, m in base.methods.items():
                if is_abstract_marker(m):
                    impl = c.find_method(mn)
                    nabs += 1
                    ctx.check(impl is not None and not is_abstract_marker(impl), 'C18.3', 'abstract:%s.%s' % (c.qual, mn), '%s:%s %s' % (c.module.relpath, c.node.lineno, c.name),
                              '%s implements %s' % (c.name, mn), '%s is instantiated but inherits the abstract marker %s.%s (NotImplementedError at run time)' % (c.name, base.name, mn))
    ctx.floor('C18.3', nabs, 60, 'abstract methods of instantiated classes')

    # ---- C18.4 --------------------------------------------------------------------------------------------------
    for rs in ex.escapes(f_pa):
        triage(rs, 'C18.4', f_pa)
    if not ex.escapes(f_pa):
        ctx.ok('C18.4', f_pa.loc(), 'parse_all:escape-set', 'nothing escapes parse_all')
    from .c08 import check_loop_exits, parse_all_paths
    check_loop_exits(ctx, 'C18.4', parse_all_paths(ctx))
    from .common import scope_nodes as _sn
    hs = [n for g__, n in _sn(repo, f_pa) if isinstance(n, ast.ExceptHandler)]
    ctx.check(any(h.type is not None and norm(h.type) == 'Exception' for h in hs), 'C18.4', 'parse_all:catch-all', f_pa.loc(), 'the decode step is under a handler for Exception')
    f_into = repo.func('parse.into_sink')
    for p in paths_of(repo, f_into):
        names = [e.ftext.split('.')[-1] for e in p.events if e.kind == 'call' and e.ftext and e.ftext.split('.')[-1] in ('parse_all', 'cleanup')]
        ctx.check(names == ['parse_all', 'cleanup'], 'C18.4', 'into_sink:cleanup-follows', f_into.loc(), 'every opened connection is closed after the input ends')
    safe = {id(r['node']) for r in keysafe.analyse(repo, repo.func('ConnectionManager.close_connection'), {'self.open_connections'}) if r['safe']}
    for rs in ex.escapes(repo.func('Parser.cleanup')):
        par = getattr(rs.node, '_parent', None)
        if rs.kind == 'implicit' and (id(rs.node) in safe or (isinstance(par, ast.Delete) and id(par) in safe)):
            ctx.ok('C18.6', rs.func.loc(rs.node), 'keysafe:%s' % rs.text, 'key shown present (C15.1)')
            continue
        triage(rs, 'C18.4', repo.func('Parser.cleanup'))

    # "every connection that was opened [is] reported closed": the open / remember / close-at-end discipline of the log back end is C04.6;
    # its findings are findings here (a connection opened but not remembered is never closed)
    from ..report import Ctx as _Ctx
    from . import c04 as _c04
    sub = _Ctx('C04', repo, tier=ctx.tier, quiet=True)
    _c04.run(sub)
    nl4 = len([o for o in sub.obligations if o['rule'] == 'C04.6'])
    for v in sub.violations:
        if v['rule'] == 'C04.6':
            ctx.violation('C18.4', 'opened-then-closed:%s' % v['key'], v['site'], 'every opened connection must be reported closed when input ends (C04.6): %s' % v['msg'], v['witness'])
    ctx.check(True, 'C18.4', 'opened-then-closed:evaluated', 'Parser.handle_message / Parser.cleanup', 'open / remember / close-at-end discipline evaluated (C04.6, %d obligations)' % nl4)
    ctx.floor('C18.4', nl4, 6, 'C04.6 obligations lifted')
    # ---- C18.5 --------------------------------------------------------------------------------------------------
    seen = set()
    for rs in sorted(ex.escapes(f_pc), key=lambda r: r.key()):
        if (rs.func.qual, rs.exc) in seen:
            continue
        seen.add((rs.func.qual, rs.exc))
        triage(rs, 'C18.5', f_pc)
    f_gc = repo.func('Controller._get_command')
    for p in paths_of(repo, f_gc, unroll=1):
        if p.outcome[0] == 'return' and norm(p.outcome[1]) == 'None':
            ctx.check(any(e.kind == 'call' and e.ftext == 'self.out.error' for e in p.events), 'C18.5', 'command:unknown-reported', f_gc.loc(), 'an unknown or ambiguous command name produces an error line',
                      'a command name that is not found is silently ignored on path %s' % p.describe()[:100])
    for p in paths_of(repo, f_pc, asserts='ignore'):
        got = any(e.kind == 'call' and e.ftext == 'self._get_command' for e in p.events)
        rec = any(e.kind == 'call' and e.ftext == 'self.process_command' for e in p.events)
        ctx.check(got or rec or p.outcome[0] == 'raise', 'C18.5', 'command:always-dispatched', f_pc.loc(), 'every command line is looked up (or re-dispatched without its wl prefix)',
                  'some command lines produce nothing: %s' % p.describe()[:120])
    # ---- C18.6 --------------------------------------------------------------------------------------------------
    for fq, d in (('ConnectionManager.close_connection', {'self.open_connections'}), ('ConnectionImpl.create_object', {'self.db'}), ('ConnectionImpl.retrieve_object', {'self.db'})):
        keysafe.check(ctx, 'C18.6', repo.func(fq), d)
    pl = repo.try_func('Plugin.close_connection')
    if pl is not None:
        keysafe.check(ctx, 'C18.6', pl, {'self.connections'})
    return ('exception-flow closures over the RTA call graph for the matcher parser, matcher evaluation/printing, the parser loop and the command '
            'dispatcher, with a conditional triage table; decoder configuration of the three input streams; abstract-method completeness. '
            'Decided: %s. Undecided: %s' % ('; '.join(ctx.decided), '; '.join(ctx.undecided)))
