"""C07 - argument names, nil types and enum labels come from the protocol descriptions."""
import ast
import re

from ..core import AnalysisError, norm
from ..sim import check_reach
from ..xmlr import corpus
from . import common
from .common import (effects, paths_of, check_writers, arg_by_name, named_call_sites, ctor_sites)

TRUSTED = ['CPython ast / xml.etree', 'engine /verif/sa', 'the shipped corpus resources/protocols/**/*.xml read as data']
P = 'core.wl.protocol'


def _chains(f_load_all):
    """(interface, message, arg, enum text, node) for every hand-applied enum tag in load_all."""
    out = []
    created = {}
    for n in f_load_all.body_nodes():
        if isinstance(n, ast.Assign) and len(n.targets) == 1:
            t = n.targets[0]
            m = re.match(r"^interfaces\['(\w+)'\]\.messages\['(\w+)'\]\.args\['(\w+)'\]\.enum$", norm(t))
            if m and isinstance(n.value, ast.Constant) and isinstance(n.value.value, str):
                out.append((m.group(1), m.group(2), m.group(3), n.value.value, n))
            m2 = re.match(r"^interfaces\['(\w+)'\]$", norm(t))
            if m2 and isinstance(n.value, ast.Call) and norm(n.value.func) == 'Interface':
                enums = set()
                for x in ast.walk(n.value):
                    if isinstance(x, ast.Call) and norm(x.func) == 'Enum' and x.args and isinstance(x.args[0], ast.Constant):
                        enums.add(x.args[0].value)
                created[m2.group(1)] = enums
    return out, created


def run(ctx):
    repo = ctx.repo
    ctx.decided = ['C07.1 hand-applied enum tags resolve', 'C07.2 reader/XML vocabulary', 'C07.3 highest version wins', 'C07.4 positional lookup',
                   'C07.5 overrides call super', 'C07.6 enum decode table', 'C07.7 unknown interface undecorated, not dropped', 'C07.8 description field mapping', 'C07.9 names, labels and nil types are displayed']
    ctx.undecided = ['the per-entry facts (~260 interfaces x entries x values) as an enumeration (they follow from C07.4/6 + the XML)', 'parse_enum_value arithmetic']
    ctx.assumptions = ['only the shipped corpus is analysed; system protocol directories (/usr/share/wayland*) are outside the tree',
                       'observation (not raised): interfaces with equal-version duplicates exist; the property speaks of the highest version']
    cp = corpus(repo.root)
    f_load_all = repo.func('protocol.load_all')
    f_load = repo.func('protocol.load')

    # ---- C07.1 ------------------------------------------------------------------------------------------------
    chains, created = _chains(f_load_all)
    ctx.floor('C07.1', len(chains), 17, 'hand-applied enum tags')
    for iface, msg, arg, enum, node in chains:
        key = 'tag:%s.%s.%s=%s' % (iface, msg, arg, enum)
        site = f_load_all.loc(node)
        ws = cp.winners(iface)
        if not ws:
            ctx.violation('C07.1', key, site, 'interface %s is in no shipped description: the KeyError aborts this and every later enum tag' % iface)
            continue
        bad = None
        for d in ws:
            if msg not in d['messages']:
                bad = '%s has no message %s in %s' % (iface, msg, d['file'])
            elif arg not in [a.get('name') for a in d['messages'][msg]['args']]:
                bad = '%s.%s has no argument %s in %s' % (iface, msg, arg, d['file'])
        if bad is None:
            parts = enum.split('.')
            if len(parts) == 1:
                for d in ws:
                    if enum not in d['enums']:
                        bad = 'enum %s is not declared by %s in %s' % (enum, iface, d['file'])
            else:
                ei, en = parts[-2], parts[-1]
                if ei in created:
                    if en not in created[ei]:
                        bad = 'synthetic interface %s has no enum %s' % (ei, en)
                else:
                    ews = cp.winners(ei)
                    if not ews:
                        bad = 'enum interface %s is not shipped' % ei
                    for d in ews:
                        if en not in d['enums']:
                            bad = 'enum %s.%s missing in %s' % (ei, en, d['file'])
        ctx.check(bad is None, 'C07.1', key, site, 'tag resolves against every description of %s that can win' % iface,
                  'hand-applied enum tag does not resolve: %s (a KeyError here silently drops all later tags)' % bad, stmt=norm(node)[:120])
    # the chain block is guarded so that a failure only warns
    # ---- C07.2 vocabulary ---------------------------------------------------------------------------------------
    readers = {}
    for fn in ('parse_arg', 'parse_message', 'parse_enum_entry', 'parse_enum', 'parse_interface', 'parse_protocol'):
        readers[fn] = repo.func('protocol.' + fn)
    # tags each reader is applied to, from the dispatching comparisons of its caller
    applied = {'parse_protocol': {'protocol'}}
    tag_tests = []
    for fn, f in readers.items():
        for p in paths_of(repo, f, unroll=1, asserts='fork'):
            true_tags = [re.match(r"^'(\w+)' == (.+)\.tag$", a.text) for a, v in p.decisions if v]
            true_tags = [m for m in true_tags if m]
            for a, v in p.decisions:
                m = re.match(r"^'(\w+)' == (.+)\.tag$", a.text)
                if m:
                    tag_tests.append((fn, m.group(1), a.node))
            for e in p.events:
                if e.kind == 'call' and e.targets and any(t.name in readers for t in e.targets):
                    callee = [t.name for t in e.targets if t.name in readers][0]
                    argt = e.argtext(0)
                    for m in true_tags:
                        if m.group(2) == argt:
                            applied.setdefault(callee, set()).add(m.group(1))
    seen = set()
    for fn, tag, node in tag_tests:
        if (fn, tag) in seen:
            continue
        seen.add((fn, tag))
        ctx.check(cp.tag_count.get(tag, 0) > 0, 'C07.2', 'tag:%s:%s' % (fn, tag), readers[fn].loc(node), 'element <%s> occurs in the shipped corpus (%d)' % (tag, cp.tag_count.get(tag, 0)),
                  'the reader dispatches on element <%s>, which never occurs in the shipped XML: those nodes are silently skipped' % tag)
    ctx.floor('C07.2', len(seen), 7, 'element tags compared by the XML reader')
    for want in ('arg', 'entry', 'enum', 'interface', 'request', 'event'):
        ctx.check(any(t == want for _, t in seen), 'C07.2', 'tag-handled:%s' % want, readers['parse_interface'].loc(), 'element <%s> of the protocol schema is handled by the reader' % want,
                  'no reader handles element <%s> any more: everything below it is dropped' % want)
    nattr = 0
    for fn, f in readers.items():
        tags = applied.get(fn)
        if not tags:
            raise AnalysisError('C07.2: cannot determine which XML element %s is applied to' % fn)
        pname = common.cparams(f)[0]
        seen_attr = {}
        for p in paths_of(repo, f, unroll=1, asserts='fork'):
            for e in p.events:
                if e.func is not f and not common.is_new_function(e.func):
                    continue
                m = None
                if e.kind == 'load-sub' and e.text:
                    m = re.match(r"^%s\.attrib\['(\w+)'\]$" % re.escape(pname), e.text)
                elif e.kind == 'call' and e.ftext == pname + '.attrib.get' and e.args and isinstance(e.args[0], ast.Constant):
                    m = re.match(r'^(.*)$', str(e.args[0].value))
                if m and m.group(1) not in seen_attr:
                    seen_attr[m.group(1)] = e.node
        for attr, n in sorted(seen_attr.items()):
            nattr += 1
            cnt = sum(cp.elem_attrs.get(t, {}).get(attr, 0) for t in tags)
            ctx.check(cnt > 0, 'C07.2', 'attr:%s:%s' % (fn, attr), f.loc(n), 'attribute %r occurs on <%s> (%d times)' % (attr, '/'.join(sorted(tags)), cnt),
                      'the reader asks <%s> for attribute %r, which the shipped XML never carries' % ('/'.join(sorted(tags)), attr))
    ctx.floor('C07.2', nattr, 11, 'attribute reads in the XML reader')
    # bitfield values accepted: decided by folding the paths of parse_enum for each value the corpus carries (and for an absent attribute)
    f_pe = readers['parse_enum']
    from ..peval import fold as _fold, Unfoldable as _Unf, module_resolver as _mres
    res_pe = _mres(repo, f_pe.module)
    pe_paths = paths_of(repo, f_pe, unroll=1, asserts='ignore')
    reads = {}
    for p in pe_paths:
        for e in p.events:
            if e.kind == 'call' and e.ftext and e.ftext.endswith('.attrib.get') and e.args and isinstance(e.args[0], ast.Constant) and e.args[0].value == 'bitfield':
                reads[e.text] = e.args[1].value if len(e.args) > 1 and isinstance(e.args[1], ast.Constant) else None
            if e.kind == 'load-sub' and e.text and e.text.endswith(".attrib['bitfield']"):
                reads[e.text] = KeyError
    ctx.check(len(reads) == 1, 'C07.2', 'bitfield-read', f_pe.loc(), 'parse_enum reads the bitfield attribute in one way', 'bitfield attribute reads: %s' % sorted(reads))
    init_enum = repo.cls(P + '.Enum').find_method('__init__')
    if len(reads) == 1:
        rtext, dflt = list(reads.items())[0]
        cases = [(v, v) for v in sorted(cp.bitfield_values)] + ([('<absent>', dflt)] if dflt is not KeyError else [])
        for label, v in cases:
            texts = {rtext: v}
            ps_ = [p for p in common.paths_for_input(pe_paths, {}, texts, res_pe)]
            got = set()
            for p in ps_:
                if p.outcome[0] != 'return':
                    got.add('raises')
                    continue
                rv = p.outcome[1]
                a_ = arg_by_name(rv, init_enum, 'bitfield') if isinstance(rv, ast.Call) else None
                try:
                    got.add(repr(_fold(a_, {}, texts, res_pe)) if a_ is not None else '?')
                except _Unf as ex:
                    got.add('not evaluable: %s' % ex)
            want = repr(v == 'true')
            ctx.check(got == {want}, 'C07.2', 'bitfield-values:%s' % label, f_pe.loc(), 'bitfield=%s gives an enum with bitfield=%s' % (label, want),
                      'for bitfield=%s (a value the shipped XML carries) parse_enum gives %s' % (label, sorted(got)))
    # enum value syntax accepted (patterns taken from the source, applied to the corpus data)
    pm = repo.modules[P]
    pats = {}
    for st in pm.tree.body:
        if isinstance(st, ast.Assign) and isinstance(st.value, ast.Call) and norm(st.value.func) == 're.compile' and st.value.args \
                and isinstance(st.value.args[0], ast.Constant):
            pats[st.targets[0].id] = st.value.args[0].value
    used = [n.func.value.id for n in repo.func('protocol.parse_enum_value').body_nodes()
            if isinstance(n, ast.Call) and isinstance(n.func, ast.Attribute) and n.func.attr == 'match' and isinstance(n.func.value, ast.Name)]
    bad = []
    for v in sorted(cp.enum_values):
        s = v.strip()
        if not any(re.match(pats[u], s) for u in used if u in pats):
            bad.append(v)
    ctx.check(not bad and len(used) >= 1, 'C07.2', 'enum-value-syntax', repo.func('protocol.parse_enum_value').loc(),
              'all %d distinct enum value spellings in the corpus are accepted by the value patterns' % len(cp.enum_values),
              'enum value spellings %s are rejected by parse_enum_value (the whole file fails to load)' % bad[:5])

    # ---- C07.3 highest version wins ------------------------------------------------------------------------------
    lpaths = paths_of(repo, f_load, unroll=1, may_raise=None)

    def m_ver(a):
        t = a.text
        if re.match(r'^interfaces\.get\(.+\)$', t):
            return ('exists', True)
        if re.match(r'^interfaces\.get\(.+\) is None$', t) or re.match(r'^.+ not in interfaces$', t):
            return ('exists', False)
        if re.match(r'^.+ in interfaces$', t):
            return ('exists', True)
        m = re.match(r'^(.+)\.version < (.+)\.version$', t)
        if m:
            reg = lambda t: t.startswith('interfaces.get(') or t.startswith('interfaces[')
            l_exist = reg(m.group(1))
            r_exist = reg(m.group(2))
            if l_exist and not r_exist:
                return ('older', True)
            if r_exist and not l_exist:
                return ('newer', True)
        return None
    is_store = lambda e: e.kind == 'store' and e.target and e.target.startswith('interfaces[')

    def expected(F):
        if not F['exists']:
            return True
        if F['older']:
            return True
        if F['newer']:
            return False
        return None
    probs = check_reach([p for p in lpaths if any(e.kind == 'loop-iter' for e in p.events)], is_store, m_ver, expected,
                        universe=['exists', 'older', 'newer'], feasible=lambda F: not (F['older'] and F['newer']), first_only=True)
    from . import common as _cm7
    if not any(is_store(e) for p_ in lpaths for e in p_.events):
        raise AnalysisError('C07.3: load() no longer registers a description by a store `interfaces[name] = ..` on its own paths: who wins the version contest cannot be read off')
    ctx.check(not probs, 'C07.3', 'load:highest-version-wins', f_load.loc(),
              'a description replaces the registered one iff none is registered or the registered one is older',
              'registration reached=%s in scenario %s' % ((probs[0][2], probs[0][1]) if probs else ('', '')))
    lpaths2 = paths_of(repo, f_load, unroll=2, may_raise=None)
    early = [p for p in lpaths2 if any(e.kind == 'loop-break' for e in p.events) or any(e.kind == 'return' and e.loops and e.func is f_load for e in p.events)]
    ctx.check(not early, 'C07.3', 'load:every-interface-considered', f_load.loc(), 'the loop over a file\'s interfaces is never left early: each interface takes part in the version contest on its own',
              'load() can stop in the middle of a file (%s): later interfaces of that file are never registered, so the outcome depends on the loading order' % (early[0].describe()[:160] if early else ''))
    nst = 0
    for p in lpaths:
        for e in p.events:
            if is_store(e):
                nst += 1
                m = re.match(r'^interfaces\[(.+)\]$', e.target)
                k, v = m.group(1), norm(e.value)
                items_form = bool(re.match(r'^<elem\d+ of .*\.interfaces\.items\(\)>\[0\]$', k)) and v == k[:-3] + '[1]'
                values_form = bool(re.match(r'^<elem\d+ of .*\.interfaces\.values\(\)>\.name$', k)) and v == k[:-len('.name')]
                ctx.check(items_form or values_form, 'C07.3', 'load:registers-under-own-name', f_load.loc(e.node),
                          'an interface is registered under its own name', 'registers %s under %s' % (v[:60], k[:60]))
    ctx.floor('C07.3', nst, 1, 'registration store in load')

    # ---- C07.4 positional lookup ---------------------------------------------------------------------------------
    f_get = repo.func('protocol.get_arg')
    gp = paths_of(repo, f_get)
    rets = [p for p in gp if p.outcome[0] == 'return' and norm(p.outcome[1]) != 'None']
    ctx.floor('C07.4', len(rets), 1, 'argument-returning path of get_arg')
    for p in rets:
        t = norm(p.outcome[1])
        ctx.check(t == 'list(interfaces.get(interface_name).messages.get(message_name).args.values())[arg_index]', 'C07.4', 'get_arg:positional', f_get.loc(),
                  'argument i of message M of interface I is the i-th declared argument (index unmodified)', 'get_arg returns %s' % t[:160])
    chain = [('protocol.get_arg_name', 'name'), ('protocol.look_up_interface', 'interface')]
    for q, field in chain:
        f = repo.func(q)
        n = 0
        for p in paths_of(repo, f):
            for e in p.events:
                if e.calls('get_arg'):
                    n += 1
                    ctx.check([norm(a) for a in e.args] == ['interface_name', 'message_name', 'arg_index'], 'C07.4', '%s:passes-through' % f.name, f.loc(e.node),
                              '%s looks up (interface, message, index) unmodified' % f.name, '%s looks up %s' % (f.name, e.text[:100]))
            if p.outcome[0] == 'return' and norm(p.outcome[1]) != 'None':
                ctx.check(norm(p.outcome[1]) == 'get_arg(interface_name, message_name, arg_index).%s' % field, 'C07.4', '%s:field' % f.name, f.loc(),
                          '%s returns the declared %s' % (f.name, field), '%s returns %s' % (f.name, norm(p.outcome[1])[:100]))
        ctx.floor('C07.4', n, 1, 'get_arg call in ' + q)
    f_lue = repo.func('protocol.look_up_enum')
    epaths = paths_of(repo, f_lue, unroll=1)
    n = 0
    for p in epaths:
        for e in p.events:
            if e.calls('get_arg'):
                n += 1
                ctx.check([norm(a) for a in e.args] == ['interface_name', 'message_name', 'arg_index'], 'C07.4', 'look_up_enum:passes-through', f_lue.loc(e.node), 'look_up_enum looks up (interface, message, index) unmodified')
            if e.calls('get_enum'):
                ctx.check([norm(a) for a in e.args] == ['interface_name', 'get_arg(interface_name, message_name, arg_index).enum'], 'C07.4', 'look_up_enum:enum-of-arg', f_lue.loc(e.node),
                          'the enum consulted is the one the argument declares, resolved relative to the message\'s interface', 'get_enum called as %s' % e.text[:120])
    ctx.floor('C07.4', n, 1, 'get_arg call in look_up_enum')
    base = repo.cls('core.wl.arg.Arg.Base')
    users = [('Arg.Base.resolve', 'get_arg_name', ['message.obj.type', 'message.name', 'index'], 'self.name'),
             ('Arg.Int.resolve', 'look_up_enum', ['message.obj.type', 'message.name', 'index', 'self.value'], 'self.labels'),
             ('Arg.Null.resolve', 'look_up_interface', ['message.obj.type', 'message.name', 'index'], 'self.type')]
    for q, callee, want, target in users:
        f = repo.func(q)
        n = 0
        paths = paths_of(repo, f)
        for p in paths:
            for e in p.events:
                if e.calls(callee):
                    n += 1
                    ctx.check([norm(a) for a in e.args] == want, 'C07.4', '%s:%s-args' % (q, callee), f.loc(e.node), '%s asks %s%s' % (q, callee, tuple(want)),
                              '%s asks %s' % (q, e.text[:120]))
                    st = [x for x in p.events if x.kind == 'store' and x.target == target]
                    if callee != 'look_up_enum':
                        ctx.check(len(st) == 1 and norm(st[0].value) == norm(e.node.func).split('(')[0] + '(' + ', '.join(want) + ')', 'C07.4', '%s:stores-result' % q, f.loc(e.node),
                                  '%s stores the looked-up value into %s' % (q, target), 'stores %s' % [norm(x.value)[:80] for x in st])
        ctx.floor('C07.4', n, 1, '%s call in %s' % (callee, q))
        # ---- C07.7 guarded by a known target type
        probs = check_reach(paths, lambda e: e.calls(callee), lambda a: ('typed', False) if a.text == 'message.obj.type is None' else None,
                            lambda F: None if F['typed'] else False, universe=['typed'])
        ctx.check(not probs, 'C07.7', '%s:guarded-by-type' % q, f.loc(), 'the protocol is consulted only when the target\'s interface is known',
                  '%s consults the protocol although the target type is unknown' % q)
    fi = repo.func('Arg.Int.resolve')
    for p in paths_of(repo, fi):
        st = [x for x in p.events if x.kind == 'store' and x.target == 'self.labels']
        lab = [v for a, v in p.decisions if a.text.startswith('protocol.look_up_enum(')]
        if lab:
            ctx.check((len(st) == 1) == lab[0] and all(norm(x.value).startswith('protocol.look_up_enum(message.obj.type, message.name, index, self.value)') for x in st), 'C07.4', 'Int.resolve:labels-iff-nonempty', fi.loc(),
                      'labels are stored iff the lookup returned some')

    # ---- C07.5 overrides call super -------------------------------------------------------------------------------
    nov = 0
    for c in repo.subclasses(base):
        m = c.methods.get('resolve')
        if m is None:
            continue
        nov += 1
        ps_ = [a for a in m.params()[1:]]
        for p in paths_of(repo, m, unroll=1):
            if p.outcome[0] == 'raise':
                continue
            sup = [e for e in p.events if e.kind == 'call' and e.ftext == 'super().resolve']
            ctx.check(len(sup) == 1 and [norm(a) for a in sup[0].args] == ps_, 'C07.5', 'super:%s' % m.qual, m.loc(),
                      '%s.resolve calls super().resolve%s exactly once on every normal path (argument names)' % (c.name, tuple(ps_)),
                      '%s.resolve skips/alters super().resolve on path %s: argument names are lost for this kind' % (c.name, p.describe()[:100]))
    ctx.floor('C07.5', nov, 4, 'overrides of Arg.Base.resolve')

    # ---- C07.6 enum decode table -------------------------------------------------------------------------------------
    def m_enum(a):
        t = a.text
        if re.match(r'^get_enum\(.*\)\.bitfield$', t):
            return ('bitfield', True)
        if re.match(r'^<elem0 of .*>\.value & arg_value$', t) or re.match(r'^arg_value & <elem0 of .*>\.value$', t):
            return ('intersects', True)
        if re.match(r'^0 == <elem0 of .*>\.value & arg_value$', t):
            return ('intersects', False)
        if re.match(r'^<elem0 of .*>\.value == arg_value$', t) or re.match(r'^arg_value == <elem0 of .*>\.value$', t):
            return ('equals', True)
        return None
    is_app = lambda e: e.kind == 'call' and e.ftext and e.ftext.endswith('.append') and e.loops and e.loops[-1][1] == 0
    loop_paths = [p for p in epaths if any(e.kind == 'loop-iter' for e in p.events)]
    probs = check_reach(loop_paths, is_app, m_enum, lambda F: F['intersects'] if F['bitfield'] else F['equals'], universe=['bitfield', 'intersects', 'equals'], first_only=True)
    from . import common as _cm7l
    for nm_, tn_ in _cm7l.lazy_iterator_truth_tests(f_lue):
        ctx.violation('C07.6', 'enum:no-entry-recognised:%s' % nm_, f_lue.loc(tn_), 'whether any entry applies is asked of `%s`, a lazy iterator (filter / map / generator): it is true even when it '
                      'will yield nothing, so a value without entries is never labelled (none) / INVALID ENUM VALUE' % nm_)
    if not loop_paths:
        raise AnalysisError('C07.6: look_up_enum no longer scans the entries in a loop of its own: which entries it reports cannot be read off')
    ctx.check(not probs and loop_paths, 'C07.6', 'enum:entry-iff', f_lue.loc(),
              'an entry is reported iff it equals the value (plain enum) or shares a bit with it (bitfield)',
              'entry reported=%s in scenario %s' % ((probs[0][2], probs[0][1]) if probs else ('', '')))
    epaths2 = paths_of(repo, f_lue, unroll=2)
    early = [p for p in epaths2 if any(e.kind == 'loop-break' for e in p.events) or any(e.kind == 'return' and e.loops and e.func is f_lue for e in p.events)]
    ctx.check(not early, 'C07.6', 'enum:every-entry-consulted', f_lue.loc(), 'the scan over the enum\'s entries is never left early: every entry is compared with the value',
              'the scan over the entries can stop early (%s): later entries that also match (overlapping bitfield entries, alias values) are dropped' % (early[0].describe()[:160] if early else ''))
    # each iteration's decision is about that iteration's own entry
    for p in epaths2:
        for k in (0, 1):
            apps_k = [e for e in p.events if e.kind == 'call' and e.ftext and e.ftext.endswith('.append') and e.loops and e.loops[-1][1] == k]
            for e in apps_k:
                ctx.check(bool(re.match(r'^<elem%d of ' % k, e.argtext(0) or '')), 'C07.6', 'enum:label-of-own-entry', f_lue.loc(e.node), 'iteration %d reports its own entry' % k)
    nfb = 0
    for p in epaths:
        if p.outcome[0] != 'return':
            continue
        apps = [e for e in p.events if e.kind == 'call' and e.ftext and e.ftext.endswith('.append')]
        for e in apps:
            ctx.check(bool(re.match(r'^<elem\d+ of get_enum\(.*\)\.entries\.values\(\)>\.name$', e.argtext(0) or '')), 'C07.6', 'enum:label-is-entry-name', f_lue.loc(e.node), 'the label is the entry\'s own name', 'label is %s' % e.argtext(0))
        got_enum = any(e.calls('get_enum') for e in p.events)
        iters = [e for e in p.events if e.kind == 'loop-iter']
        rv = norm(p.outcome[1])
        if not got_enum or not any(e.kind in ('loop-iter', 'loop-exit') for e in p.events):
            continue
        bf = [v for a, v in p.decisions if re.match(r'^get_enum\(.*\)\.bitfield$', a.text)]
        nonempty = [v for a, v in p.decisions if a.text in ('entries',)] + [not v for a, v in p.decisions if re.match(r'^0 == len\(\w+\)$', a.text)]
        if nonempty and nonempty[0] != bool(apps):
            continue        # infeasible: the list is non-empty exactly when something was appended
        if apps:
            from ..sim import _literal_elts
            known = _literal_elts(p.outcome[1])
            same = known is not None and [norm(x) for x in known] == [norm(e.args[0]) for e in apps]      # the returned list, element by element
            ctx.check(rv == 'entries' or rv == norm(apps[0].recv) or same, 'C07.6', 'enum:returns-labels', f_lue.loc(), 'with matching entries, exactly those are returned', 'returns %s' % rv)
        else:
            nfb += 1
            if not bf:
                ctx.violation('C07.6', 'enum:fallback-kind-unknown', f_lue.loc(), 'the fallback label does not depend on bitfield-ness (%s)' % rv)
                continue
            want = "['(none)']" if bf[-1] else "['INVALID ENUM VALUE']"
            ctx.check(rv == want, 'C07.6', 'enum:fallback:%s' % want, f_lue.loc(), 'no entry -> %s' % want, 'no entry and bitfield=%s -> %s' % (bf[-1], rv))
    ctx.floor('C07.6', nfb, 2, 'fallback paths of look_up_enum')
    f_ge = repo.func('protocol.get_enum')
    # an enum path is `enum` (the message's own interface) or `[...].interface.enum`: the two lookups are decided by folding the
    # path's (pure string) terms for the three shapes of a path - no dot, one dot, several dots
    from ..peval import fold, fold_text, Unfoldable
    SHAPES = {'e': ('OWN', 'e'), 'i.e': ('i', 'e'), 'x.i.e': ('i', 'e')}
    gep = paths_of(repo, f_ge)
    nres = 0
    for sample, (want_i, want_e) in sorted(SHAPES.items()):
        env = {'interface_name': 'OWN', 'enum_path': sample}
        hits = []
        for p in gep:
            if p.outcome[0] != 'return' or norm(p.outcome[1]) == 'None':
                continue
            feasible = True
            for a_, v_ in p.decisions:
                try:
                    if bool(fold_text(a_.text, env)) != v_:
                        feasible = False
                except Unfoldable:
                    pass        # about something else (whether the interface is known)
            if feasible:
                hits.append(p)
        for p in hits:
            rv = p.outcome[1]
            m_ = isinstance(rv, ast.Call) and isinstance(rv.func, ast.Attribute) and rv.func.attr == 'get' and len(rv.args) >= 1 \
                and isinstance(rv.func.value, ast.Attribute) and rv.func.value.attr == 'enums'
            got = None
            if m_:
                iface = rv.func.value.value
                if isinstance(iface, ast.Call) and norm(iface.func) in ('interfaces.get',) and iface.args:
                    iface_key = iface.args[0]
                elif isinstance(iface, ast.Subscript) and norm(iface.value) == 'interfaces':
                    iface_key = iface.slice
                else:
                    iface_key = None
                if iface_key is not None:
                    try:
                        got = (fold(iface_key, env), fold(rv.args[0], env))
                    except Unfoldable as ex_:
                        raise AnalysisError('C07.6: cannot fold the enum lookup of get_enum for path %r: %s' % (sample, ex_))
            nres += 1
            ctx.check(got == (want_i, want_e), 'C07.6', 'get_enum:resolution:%s' % {'e': 'own-interface', 'i.e': 'qualified', 'x.i.e': 'long-qualified'}[sample], f_ge.loc(),
                      'enum path %r resolves to enum %r of interface %r' % (sample, want_e, want_i if want_i != 'OWN' else 'the message\'s own interface'),
                      'enum path %r resolves to %s (get_enum returns %s)' % (sample, got, norm(rv)[:140]))
    ctx.floor('C07.6', nres, 3, 'resolved shapes of enum paths in get_enum')

    # ---- C07.7 unknown interface is undecorated ----------------------------------------------------------------------
    for p in gp:
        known = [v for a, v in p.decisions if a.text == 'interfaces.get(interface_name)'] + [not v for a, v in p.decisions if a.text == 'interfaces.get(interface_name) is None']
        if known and not known[0]:
            ctx.check(p.outcome[0] == 'return' and norm(p.outcome[1]) == 'None', 'C07.7', 'get_arg:unknown-interface-none', f_get.loc(),
                      'for an interface without a description get_arg returns None (no exception): the message is shown undecorated',
                      'for an unknown interface get_arg does %s' % p.outcome_text())
    ctx.check(any(a.text in ('interfaces.get(interface_name)', 'interfaces.get(interface_name) is None') for p in gp for a, v in p.decisions), 'C07.7', 'get_arg:tests-interface', f_get.loc(), 'get_arg tests whether the interface is known')
    for q, field in chain:
        f = repo.func(q)
        for p in paths_of(repo, f):
            none = [v for a, v in p.decisions if a.text == 'get_arg(interface_name, message_name, arg_index) is None'] + [not v for a, v in p.decisions if a.text == 'get_arg(interface_name, message_name, arg_index)']
            if none and none[0]:
                ctx.check(p.outcome[0] == 'return' and norm(p.outcome[1]) == 'None', 'C07.7', '%s:none-through' % f.name, f.loc(), '%s passes an absent description on as None' % f.name)

    # ---- C07.8 field mapping -------------------------------------------------------------------------------------------
    maps = [('parse_arg', 'Arg', {'name': "arg.attrib['name']", 'type_': "arg.attrib['type']", 'interface': "arg.attrib.get('interface', None)", 'enum': "arg.attrib.get('enum', None)"}),
            ('parse_enum_entry', 'EnumEntry', {'name': "entry.attrib['name']", 'value': "parse_enum_value(entry.attrib['value'].strip())"}),
            ('parse_enum', 'Enum', {'name': "enum.attrib['name']"}),
            ('parse_interface', 'Interface', {'name': "interface.attrib['name']", 'version': "int(interface.attrib['version'])"}),
            ('parse_message', 'Message', {'name': "message.attrib['name']", 'is_event': "'event' == message.tag|message.tag == 'event'"})]
    for fn, cname, want in maps:
        f = readers[fn]
        c = repo.cls(P + '.' + cname)
        init = c.find_method('__init__')
        n = 0
        for p in paths_of(repo, f, unroll=1):
            if p.outcome[0] != 'return':
                continue
            rv = p.outcome[1]
            if not (isinstance(rv, ast.Call) and norm(rv.func) == cname):
                ctx.violation('C07.8', '%s:returns' % fn, f.loc(), '%s returns %s' % (fn, norm(rv)[:80]))
                continue
            n += 1
            for k, w in want.items():
                got = norm(arg_by_name(rv, init, k))
                if got.endswith(')') and got + '|' in ''.join(x[:-7] + ')|' for x in w.split('|') if x.endswith(', None)')):
                    got = got[:-1] + ', None)'      # d.get(k) is d.get(k, None)
                ctx.check(got in w.split('|'), 'C07.8', '%s:%s' % (fn, k), f.loc(), '%s.%s <- %s' % (cname, k, w.split('|')[0]), '%s.%s is read from %s' % (cname, k, got))
        ctx.floor('C07.8', n, 1, 'returning path of ' + fn)
    # containers keyed by the element's own name, in document order: either filled by stores `cont[x.name] = x` inside the loop over the
    # children, or built from a comprehension of (x.name, x) pairs over them (known element by element on each path)
    CTOR = {'parse_message': 'Message', 'parse_enum': 'Enum', 'parse_interface': 'Interface', 'parse_protocol': 'Protocol'}
    for fn, cont in (('parse_message', 'args'), ('parse_enum', 'entries'), ('parse_interface', 'messages'), ('parse_interface', 'enums'), ('parse_protocol', 'interfaces')):
        f = readers[fn]
        init_c = repo.cls(P + '.' + CTOR[fn]).find_method('__init__')
        n = 0
        n_init = 0
        built = False
        for p in paths_of(repo, f, unroll=1, asserts='ignore'):
            # the container may be filled under another name (inside a helper that builds and returns it): follow the bindings back
            aliases = {cont}
            for e in reversed(p.events):
                if e.kind == 'bind' and e.target in aliases and isinstance(e.value, ast.Name):
                    aliases.add(e.value.id)
            for e in p.events:
                if e.kind == 'store' and e.target and any(e.target.startswith(a_ + '[') for a_ in aliases):
                    n += 1
                    k = e.target[e.target.index('[') + 1:-1]
                    ctx.check(k == norm(e.value) + '.name', 'C07.8', '%s:%s-keyed-by-name' % (fn, cont), f.loc(e.node), '%s is keyed by each element\'s own name' % cont, '%s[%s] <- %s' % (cont, k[:60], norm(e.value)[:60]))
            rv = p.outcome[1] if p.outcome[0] == 'return' else None
            val = arg_by_name(rv, init_c, cont) if isinstance(rv, ast.Call) and norm(rv.func) == CTOR[fn] else None
            if isinstance(val, ast.Call) and norm(val.func) in ('OrderedDict', 'dict', 'collections.OrderedDict') and len(val.args) == 1 and not val.keywords and hasattr(val.args[0], '_elts'):
                built = True
                for pair in val.args[0]._elts:
                    n += 1
                    ok = isinstance(pair, ast.Tuple) and len(pair.elts) == 2 and norm(pair.elts[0]) == norm(pair.elts[1]) + '.name'
                    ctx.check(ok, 'C07.8', '%s:%s-keyed-by-name' % (fn, cont), f.loc(), '%s is keyed by each element\'s own name' % cont, '%s is built from %s' % (cont, norm(pair)[:80]))
                continue
            for e in p.events:
                if e.kind == 'bind' and e.target in aliases and isinstance(e.value, ast.AST) and not isinstance(e.value, ast.Name):
                    n_init += 1
                    ctx.check(norm(e.value) in ('OrderedDict()', '{}', 'dict()', 'collections.OrderedDict()'), 'C07.8', '%s:%s-ordered' % (fn, cont), f.loc(e.node), '%s keeps document order' % cont,
                              '%s starts as %s' % (cont, norm(e.value)[:60]))
        ctx.floor('C07.8', n, 1, 'store into %s in %s' % (cont, fn))
        if built:
            ctx.check(True, 'C07.8', '%s:%s-ordered' % (fn, cont), f.loc(), '%s keeps document order (a dict built from the children in iteration order)' % cont)
        else:
            ctx.floor('C07.8', n_init, 1, 'initial value of %s in %s' % (cont, fn))
    # ---- C07.9 names, labels and nil types are displayed ----------------------------------------------------------------------------
    f_bs = repo.func('Arg.Base.__str__')
    for p in paths_of(repo, f_bs):
        if p.outcome[0] != 'return':
            continue
        none = [v for a, v in p.decisions if a.text == 'self.name is None'] + [not v for a, v in p.decisions if a.text == 'self.name']
        t = norm(p.outcome[1])
        if not none:
            ctx.violation('C07.9', 'display:name-unconditional', f_bs.loc(), 'Arg.__str__ does not depend on the argument name (%s)' % t[:80])
            continue
        ctx.check(("self.name + '='" in t) == (not none[0]) and 'self.value_to_str()' in t, 'C07.9', 'display:name-prefix:%s' % (not none[0]), f_bs.loc(),
                  'an argument is shown as name=value exactly when a name was resolved', 'argument display is %s (name resolved: %s)' % (t[:100], not none[0]))
    f_iv = repo.func('Arg.Int.value_to_str')
    for p in paths_of(repo, f_iv):
        if p.outcome[0] != 'return':
            continue
        has = [v for a, v in p.decisions if a.text == "hasattr(self, 'labels')"]
        from ..sim import deep_norm
        t = deep_norm(p.outcome[1], concat=True)
        ctx.check(bool(has) and (re.search(r'for (\w+) in self\.labels[\]\)]', t) is not None and '.join(' in t) == has[0] and 'str(self.value)' in t, 'C07.9', 'display:enum-labels:%s' % (has[0] if has else '?'), f_iv.loc(),
                  'an integer shows its value and, when it has labels, all of them', 'integer display is %s' % t[:120])
    f_nv = repo.func('Arg.Null.value_to_str')
    for p in paths_of(repo, f_nv):
        if p.outcome[0] != 'return':
            continue
        typed = [v for a, v in p.decisions if a.text == 'self.type'] + [not v for a, v in p.decisions if a.text == 'self.type is None']
        t = norm(p.outcome[1])
        if typed and typed[0]:
            ctx.check("'null ' + self.type" in t, 'C07.9', 'display:nil-type', f_nv.loc(), 'a nil argument shows the interface the protocol declares', 'nil display is %s' % t[:80])
    return ('XML corpus cross-checks (hand-applied tags, reader vocabulary), scenario tables for version contest and enum decoding, identity '
            'chains for the positional lookup and the field mapping. Corpus: %d files, %d interfaces. Decided: %s. Undecided: %s'
            % (len(cp.files), len(cp.interfaces), '; '.join(ctx.decided), '; '.join(ctx.undecided)))
