"""Helpers shared by the per-property rule modules."""
import ast
import re

from ..core import AnalysisError, norm
from ..flow import Effects, Exceptions
from ..sim import simulate, check_reach, truthy_view, is_new_function

_cache = {}


def effects(repo):
    k = ('ef', id(repo))
    if k not in _cache:
        _cache[k] = Effects(repo)
    return _cache[k]


def exceptions(repo):
    k = ('ex', id(repo))
    if k not in _cache:
        _cache[k] = Exceptions(repo)
    return _cache[k]


def paths_of(repo, func, **kw):
    key = ('paths', id(repo), func.qual, tuple(sorted((k, str(v)) for k, v in kw.items() if k not in ('may_raise', 'oracle', 'inline'))),
           tuple(sorted(f.qual for f in kw.get('inline', ()))), id(kw.get('may_raise')), id(kw.get('oracle')))
    if key not in _cache:
        _cache[key] = simulate(repo, func, **kw)
    return _cache[key]


def wkey(w):
    return '%s:%s:%s' % (w.func.qual, w.kind + (':' + w.via if w.via else ''), norm(w.stmt)[:100])


def effective_funcs(repo, f, _seen=None):
    """A function that did not exist on the pinned tree stands for its (transitive) callers: the rules' tables of who may
    write / call are about the pinned tree's functions, a freshly extracted helper inherits its callers' rights."""
    from ..sim import is_new_function
    if not is_new_function(f):
        return [f]
    _seen = _seen or set()
    if f in _seen:
        return []
    _seen.add(f)
    cg = repo.callgraph()
    out = []
    for g, s in cg.callers_of(f):
        for x in effective_funcs(repo, g, _seen):
            if x not in out:
                out.append(x)
    if not out:
        # also count syntactic callers in not-yet-reachable code
        for g, sites in cg.sites.items():
            for s in sites:
                if f in s.targets:
                    for x in effective_funcs(repo, g, _seen):
                        if x not in out:
                            out.append(x)
    return out or [f]


def check_writers(ctx, rule, owner, attr, allowed, floor=None, what=None, non_fresh_only=False):
    """Every write to owner.attr anywhere in production code must be one of `allowed`:
    list of (function short name, predicate(Write) or None).  Returns the writes."""
    ef = effects(ctx.repo)
    ws = ef.writers(owner, attr)
    n = 0
    for w in ws:
        if non_fresh_only and w.fresh:
            continue
        good = True
        for wf in effective_funcs(ctx.repo, w.func):
            ok_ = False
            for fname, pred in allowed:
                if (wf.short == fname or wf.qual.endswith('.' + fname)) and (pred is None or pred(w)):
                    ok_ = True
                    break
            good = good and ok_
        n += 1
        ctx.check(good, rule, 'writer:%s.%s:%s' % (owner.split('.')[-1], attr, wkey(w)), w.loc(),
                  'allowed writer of %s.%s' % (owner.split('.')[-1], attr),
                  '%s.%s is written by %s (%s) - not one of the confirmed writers %s'
                  % (owner.split('.')[-1], attr, w.func.short, norm(w.stmt)[:100], [a for a, _ in allowed]),
                  stmt=norm(w.stmt)[:120])
    if floor is not None:
        ctx.floor(rule, n, floor, what or ('writers of %s.%s' % (owner, attr)))
    return ws


def call_sites_of(repo, pred, reachable_only=True):
    """[(caller FuncInfo, CallSite)] for call sites one of whose targets satisfies pred(FuncInfo)."""
    cg = repo.callgraph()
    out = []
    for f, sites in cg.sites.items():
        if reachable_only and f not in cg.reachable:
            continue
        for s in sites:
            if any(pred(t) for t in cg.targets(s)):
                out.append((f, s))
    return sorted(out, key=lambda x: (x[0].module.relpath, getattr(x[1].node, 'lineno', 0), getattr(x[1].node, 'col_offset', 0)))


def named_call_sites(repo, name):
    """All syntactic calls `<x>.name(...)` or `name(...)` in production code (independent of resolution)."""
    out = []
    for f in repo.all_funcs():
        for n in f.body_nodes():
            if isinstance(n, ast.Call):
                fn = n.func
                if (isinstance(fn, ast.Attribute) and fn.attr == name) or (isinstance(fn, ast.Name) and fn.id == name):
                    out.append((f, n))
    return out


def check_callers(ctx, rule, name, allowed, floor=None):
    """Who-may-call by syntactic method name (robust against typing gaps): every `.name(` call site must be in one
    of the allowed functions (short names)."""
    sites = named_call_sites(ctx.repo, name)
    for f, n in sites:
        effs = effective_funcs(ctx.repo, f)
        ctx.check(all(g.short in allowed or g.qual in allowed for g in effs), rule, 'caller:%s:%s' % (name, f.qual), f.loc(n),
                  '%s() called from an allowed site' % name,
                  '%s() is called from %s - allowed callers are %s' % (name, f.short, sorted(allowed)), stmt=norm(n)[:120])
    if floor is not None:
        ctx.floor(rule, len(sites), floor, 'call sites of %s()' % name)
    return sites


def ctor_sites(repo, cls):
    cg = repo.callgraph()
    out = []
    for f, sites in cg.sites.items():
        for s in sites:
            if s.kind == 'ctor' and s.ext is cls:
                out.append((f, s))
    return out


def call_arg(call_sym, func, index, name):
    """Argument of a symbolic call by parameter position / name (index counts without self)."""
    ps_ = func.params()[1:] if (func.cls is not None and not func.is_static()) else func.params()
    actual = ps_[index] if index is not None and index < len(ps_) else name
    for kw in call_sym.keywords:
        if kw.arg == name or kw.arg == actual:
            return kw.value
    if index is not None and index < len(call_sym.args):
        return call_sym.args[index]
    return None


def param_index(func, name):
    from ..sim import _canon_params
    ps = func.params()
    canon = _canon_params(func) or ps
    if func.cls is not None and not func.is_static():
        ps = ps[1:]
        canon = canon[1:]
    if name in canon:
        return canon.index(name)
    if name in ps:
        return ps.index(name)
    return None


def arg_by_name(ev_or_call, func, name):
    """Value passed for parameter `name` of `func` at a call event / symbolic Call node."""
    idx = param_index(func, name)
    if isinstance(ev_or_call, ast.Call):
        return call_arg(ev_or_call, func, idx, name)
    e = ev_or_call
    if name in e.kwargs:
        return e.kwargs[name]
    ps_ = func.params()[1:] if (func.cls is not None and not func.is_static()) else func.params()
    if idx is not None and idx < len(ps_) and ps_[idx] in e.kwargs:
        return e.kwargs[ps_[idx]]
    if idx is not None and idx < len(e.args):
        return e.args[idx]
    return None


def events_between(path, a, b):
    i = path.events.index(a)
    j = path.events.index(b)
    return path.events[i + 1:j]


def first_index(path, pred):
    for i, e in enumerate(path.events):
        if pred(e):
            return i
    return None


def all_paths_order(ctx, rule, key, site, paths, first, then, msg, require_first_when_then=True):
    """On every path: each event satisfying `then` is preceded by an event satisfying `first`."""
    bad = None
    n = 0
    for p in paths:
        seen_first = False
        for e in p.events:
            if first(e):
                seen_first = True
            if then(e):
                n += 1
                if not seen_first:
                    bad = (p, e)
    ctx.check(bad is None, rule, key, site, msg,
              'NOT on every path: %s; counter-path %s' % (msg, bad[0].describe()[:300] if bad else ''))
    return n


def raise_model(repo, only=None):
    """may_raise callback for PathSim: the exception types that the (RTA) callees of a call can let escape."""
    ex = exceptions(repo)

    def mr(e):
        out = set()
        for t in e.targets:
            for rs in ex.escapes(t):
                if only is None or rs.exc in only:
                    out.add(rs.exc)
        return sorted(out)
    return mr


def scope_funcs(repo, f):
    """f plus the functions it (transitively) calls that did not exist on the pinned tree (freshly extracted helpers)."""
    from ..sim import is_new_function
    cg = repo.callgraph()
    out = [f]
    work = [f]
    while work:
        g = work.pop()
        for s in cg.sites.get(g, []):
            for t in s.targets:
                if is_new_function(t) and t not in out:
                    out.append(t)
                    work.append(t)
    return out


def scope_nodes(repo, f):
    for g in scope_funcs(repo, f):
        for n in g.body_nodes():
            yield g, n


def _truth_leaves(e):
    """the sub-expressions of a condition whose own truthiness decides it"""
    if isinstance(e, ast.BoolOp):
        for v in e.values:
            yield from _truth_leaves(v)
    elif isinstance(e, ast.UnaryOp) and isinstance(e.op, ast.Not):
        yield from _truth_leaves(e.operand)
    else:
        yield e


def numeric_truthiness_sites(repo, in_scope=None):
    """[(func, node, expr, kind)] - places where a value typed int / float (not bool) is used as a truth value.
    The pinned tree has none: every Optional number (timestamps, lifespans, generations, ids) is tested with `is None`,
    because 0 / 0.0 are legitimate values.  Returns also the number of truth contexts examined."""
    out = []
    examined = 0
    for f in repo.all_funcs():
        if in_scope is not None and not in_scope(f):
            continue
        for n in f.body_nodes():
            tests = []
            if isinstance(n, (ast.If, ast.While, ast.IfExp, ast.Assert)):
                tests.extend(_truth_leaves(n.test))
            elif isinstance(n, ast.comprehension):
                for c in n.ifs:
                    tests.extend(_truth_leaves(c))
            elif isinstance(n, ast.BoolOp) and not isinstance(getattr(n, '_parent', None), (ast.If, ast.While, ast.IfExp, ast.Assert, ast.BoolOp, ast.UnaryOp)):
                # `x or default` / `x and y` used as a value: every operand but the last is tested
                for v in n.values[:-1]:
                    tests.extend(_truth_leaves(v))
            elif isinstance(n, ast.UnaryOp) and isinstance(n.op, ast.Not) and not isinstance(getattr(n, '_parent', None), (ast.If, ast.While, ast.IfExp, ast.Assert, ast.BoolOp, ast.UnaryOp)):
                tests.extend(_truth_leaves(n.operand))
            elif isinstance(n, ast.Call) and isinstance(n.func, ast.Name) and n.func.id == 'bool' and len(n.args) == 1:
                tests.extend(_truth_leaves(n.args[0]))
            for t in tests:
                if not isinstance(t, (ast.Name, ast.Attribute, ast.Subscript, ast.Call, ast.NamedExpr)):
                    continue
                examined += 1
                try:
                    ts = repo.expr_types(f, t)
                except Exception:
                    ts = set()
                kinds = {x[1] for x in ts if x and x[0] == 'prim'}
                if kinds & {'int', 'float'}:
                    out.append((f, n, t, sorted(kinds & {'int', 'float'})[0]))
    return out, examined


def check_zero_is_a_value(ctx, rule, what, in_scope, floor=3, kinds=('int', 'float')):
    """No number of the given scope is tested by truthiness (a zero timestamp, lifespan, generation ... is a value)."""
    sites, examined = numeric_truthiness_sites(ctx.repo, in_scope)
    seen = set()
    for f, n, t, k in sites:
        if k not in kinds:
            continue
        key = 'zero-is-a-value:%s:%s' % (f.qual, norm(t)[:50])
        if key in seen:
            continue
        seen.add(key)
        ctx.violation(rule, key, f.loc(n), 'the %s `%s` is used as a truth value in %s: the value 0 is treated like an absent one (%s); everywhere else such numbers are tested with `is None`'
                      % (k, norm(t)[:60], f.short, what))
    ctx.check(True, rule, 'zero-is-a-value:examined', 'truth contexts in scope', '%d truth contexts examined, none tests a number' % examined)
    ctx.floor(rule, examined, floor, 'truth contexts examined for numeric truthiness')


def eval_count(text, name, k):
    """truth value of a condition over the list `name` when it holds k elements; None when the condition is about anything else"""
    import operator
    ops = {ast.Eq: operator.eq, ast.NotEq: operator.ne, ast.Lt: operator.lt, ast.LtE: operator.le, ast.Gt: operator.gt, ast.GtE: operator.ge}
    try:
        e = ast.parse(text, mode='eval').body
    except SyntaxError:
        return None

    def ev(x):
        if isinstance(x, ast.Constant) and isinstance(x.value, (int, bool)):
            return x.value
        if isinstance(x, ast.Call) and norm(x) == 'len(%s)' % name:
            return k
        if isinstance(x, (ast.Name, ast.Attribute, ast.Subscript)) and norm(x) == name:
            return k > 0
        if isinstance(x, ast.UnaryOp) and isinstance(x.op, ast.Not):
            return not ev(x.operand)
        if isinstance(x, ast.Compare) and len(x.ops) == 1 and type(x.ops[0]) in ops:
            return ops[type(x.ops[0])](ev(x.left), ev(x.comparators[0]))
        if isinstance(x, ast.BoolOp):
            vs = [ev(v) for v in x.values]
            return all(vs) if isinstance(x.op, ast.And) else any(vs)
        raise ValueError(norm(x))
    try:
        return bool(ev(e))
    except ValueError:
        return None


def nonempty_atom(text, name):
    """If the condition `text` is a test of whether the collection `name` is non-empty (in any spelling: truthiness, len() compared
    with 0 or 1), return its polarity: True when the condition holds exactly for non-empty collections, False when exactly for
    empty ones; None otherwise."""
    v0, v1, v2 = (eval_count(text, name, k) for k in (0, 1, 2))
    if v0 is None or v1 is None or v0 == v1 or v1 != v2:
        return None
    return v1


def static_const(repo, module, e, _depth=0):
    """The Constant a Name / dotted name statically denotes (a module-level constant of this or another module), else e itself."""
    if isinstance(e, (ast.Name, ast.Attribute)) and _depth < 4:
        r = repo.resolve_expr_static(module, e)
        if r and r[0] == 'var' and r[1] is not None:
            return static_const(repo, r[3], r[1], _depth + 1)
    return e


def dtext(sym):
    """Canonical text of a (displayed) string expression: locals holding fresh displays expanded, every string-building form
    (join of a display, format, f-string, %) rewritten as a `+` chain."""
    from ..sim import deep_norm
    return deep_norm(sym, concat=True)


def paths_for_input(paths, env, texts=None, resolver=None):
    """The paths whose decisions are consistent with the given constant inputs: every decision that can be folded to a value under
    `env` must have taken that value; decisions about anything else do not constrain."""
    from ..peval import fold_text, Unfoldable
    out = []
    for p in paths:
        ok = True
        for a, v in p.decisions:
            try:
                fv = fold_text(a.text, env, texts, resolver)
                if isinstance(fv, tuple) and len(fv) == 2 and fv[0] == 'sym':
                    continue        # an opaque value: does not constrain
                if bool(fv) != v:
                    ok = False
                    break
            except Unfoldable:
                continue
        if ok:
            out.append(p)
    return out


MEMO_DECORATORS = {'lru_cache', 'cache', 'cached_property', 'memoize', 'memoise', 'memoized', 'memoised'}


def memoised_funcs(repo):
    """production functions wrapped by a memoising decorator (functools.lru_cache / cache / cached_property, with or without arguments)"""
    out = []
    for g in repo.all_funcs():
        if g.is_module_body:
            continue
        for d in g.node.decorator_list:
            dn = d.func if isinstance(d, ast.Call) else d
            if norm(dn).split('.')[-1] in MEMO_DECORATORS:
                out.append(g)
                break
    return out


def _mutable_family(repo, c):
    """non-constructor writes (stores, deletes, container mutations) to attributes of class c, its bases or subclasses"""
    ef = effects(repo)
    fam = {k.qual for k in c.mro()} | {k.qual for k in repo.subclasses(c)}
    out = []
    for f, ws in ef.by_func.items():
        for w in ws:
            if not w.fresh and (w.owners & fam):
                out.append(w)
    return out


def check_no_memoised_mutables(ctx, rule, roots, what):
    """A memoised function hands the SAME object to every caller with equal arguments.  That is only transparent when the object is never
    modified afterwards.  Every memoised function in the call closure of `roots` must return an immutable value: a str / number / bool /
    None / tuple of those, or an instance of a class none of whose attributes is written outside its constructor anywhere in the
    repository.  (Zero instances on the pinned tree: the positive example is the self-test's memoised `matcher.parse`.)"""
    repo = ctx.repo
    cg = repo.callgraph()
    clo = cg.closure(roots)
    n = 0
    for g in memoised_funcs(repo):
        if g not in clo:
            continue
        n += 1
        types = set()
        if g.node.returns is not None:
            t = repo.ann_type(g.module, g.node.returns, g.cls)
            if t:
                types.add(t)
        for x in g.body_nodes():
            if isinstance(x, ast.Return) and x.value is not None:
                types |= repo.expr_types(g, x.value)
        bad = []

        def walk(t, depth=0):
            if t is None or depth > 4:
                return
            if t[0] == 'inst':
                ws = _mutable_family(repo, t[1])
                if ws:
                    bad.append('%s objects are modified after construction (%s in %s)' % (t[1].name, norm(ws[0].stmt)[:60], ws[0].func.short))
            elif t[0] in ('list', 'dict', 'set'):
                bad.append('a %s is a mutable container' % t[0])
            elif t[0] == 'tuple':
                for x_ in (t[1] if isinstance(t[1], tuple) else ()):
                    if isinstance(x_, tuple):
                        walk(x_, depth + 1)
        for t in types:
            walk(t)
        if not types:
            bad.append('the type of the memoised value cannot be determined')
        ctx.check(not bad, rule, 'memoised:%s' % g.qual, g.loc(), '%s is memoised and returns an immutable value' % g.short,
                  '%s is memoised (%s) but %s: every caller with equal arguments receives the same object, so a modification made for one %s shows up in the others'
                  % (g.short, norm(g.node.decorator_list[0])[:40], '; '.join(sorted(set(bad))[:2]), what))
    return n


_lifting = []


def lift(ctx, rule, label, mod, prop, rules, why, key_filter=None, floor=1, soft=False):
    """Where one mechanism carries two properties, the findings of the rules that guard the mechanism are findings of both.
    Runs property `prop`'s rule module on the same repository and re-reports the violations of `rules` (optionally only the instances
    whose key passes key_filter) under `rule`; the number of obligations evaluated is the non-vacuity floor."""
    from ..report import Ctx as _Ctx
    if prop in _lifting:
        return 0        # (a cycle: A lifts from B and B lifts from A - the run that is already under way reports its own rules)
    sub = _Ctx(prop, ctx.repo, tier=ctx.tier, quiet=True)
    pushed = [x for x in (ctx.prop, prop) if x not in _lifting]
    _lifting.extend(pushed)
    try:
        try:
            mod.run(sub)
        except AnalysisError as ex_l:
            # the other property's run lost its footing: what it established about the lifted rules before that point stands
            if not [v for v in sub.violations if v['rule'] in rules and (key_filter is None or key_filter(v['key']))]:
                if not soft:
                    raise
                # soft: the lifted clause cannot be evaluated on this tree - that is the other property's own verdict (its check says so); here it
                # is recorded in the evidence and this property's own rules go on
                ctx.note('%s (%s): the rules lifted from %s could not be evaluated on this tree: %s' % (rule, label, prop, str(ex_l)[:240]))
                return 0
    finally:
        for x in pushed:
            _lifting.remove(x)
    keep = lambda r, k: r in rules and (key_filter is None or key_filter(k))
    n = len([o for o in sub.obligations if keep(o['rule'], o.get('stmt', ''))])
    for v in sub.violations:
        if keep(v['rule'], v['key']):
            ctx.violation(rule, '%s:%s:%s' % (label, v['rule'], v['key']), v['site'], '%s (%s): %s' % (why, v['rule'], v['msg']), v['witness'])
    ctx.check(True, rule, '%s:evaluated' % label, prop, '%s rules %s evaluated (%d obligations)' % (prop, '/'.join(rules), n))
    ctx.floor(rule, n, floor, 'obligations lifted from %s' % '/'.join(rules))
    return n


def ms_to_s_term_ok(t, path, group_pattern):
    """Is `t` (text of a term) float(<timestamp group, decimal comma turned into a point>) scaled by exactly 1/1000?  The comma may be
    replaced unconditionally, or only on the paths where the group contains one (then the path must have decided `',' in <group>` False)."""
    m = re.match(r"^float\((?P<tsgrp>(?:%s))(?P<tsrep>\.replace\(',', '\.'\)|\.translate\((?P<tbl>[\w.]+|str\.maketrans\(',', '\.'\))\))?\) (?:/ 1000(?:\.0*)?|\* (?:0\.001|1e-0?3))$" % group_pattern, t)
    if not m:
        return False
    if m.group('tsrep'):
        tbl = m.group('tbl')
        if tbl and not tbl.startswith('str.maketrans('):
            # s.translate(TABLE) with TABLE = str.maketrans(',', '.') at module level is s.replace(',', '.')
            ok_tbl = False
            for e in path.events:
                f_ = getattr(e, 'func', None)
                if f_ is not None:
                    r_ = f_.repo.lookup(f_.module, tbl) if '.' not in tbl else None
                    ok_tbl = bool(r_) and r_[0] == 'var' and r_[1] is not None and norm(r_[1]) in ("str.maketrans(',', '.')", "{44: '.'}", "{44: 46}", "{ord(','): '.'}", "{ord(','): ord('.')}")
                    break
            return ok_tbl
        return True
    g = m.group('tsgrp')
    for a, v in path.decisions:
        if a.text == "',' in %s" % g and v is False:
            return True
        if a.text == "',' not in %s" % g and v is True:
            return True
    return False


def cparams(f):
    """parameter names as the PATH terms spell them: the pinned names when the function existed on the pinned tree with the same arity
    (a renamed parameter does not change the terms), else the names in the source"""
    from ..sim import _canon_params
    return _canon_params(f) or f.params()


def str_given(text, name):
    """Is the atom `text` a test of whether the string `name` is non-empty?  True / False = the polarity (the atom being true means
    non-empty / empty), None = it is some other atom.  The spellings are equivalent for a str: `s`, `s != ''`, `len(s) > 0`, `len(s) != 0`, `bool(s)`."""
    n = re.escape(name)
    if re.match(r"^(?:bool\()?%s\)?$" % n, text) or re.match(r"^(?:0 < len\(%s\)|len\(%s\) (?:>|!=) 0|1 <= len\(%s\)|len\(%s\))$" % (n, n, n, n), text):
        return True
    if re.match(r"^(?:'' == %s|%s == ''|0 == len\(%s\)|len\(%s\) (?:==|<) (?:0|1)|len\(%s\) <= 0|not %s)$" % (n, n, n, n, n, n), text):
        return False
    return None


def unproved_assert(ctx, rule, rs, root):
    """a new `assert` whose condition the analysis cannot establish: recorded as undecided (exit 2 unless a violation is found elsewhere)"""
    msg = '%s: cannot decide whether the assertion `%s` in %s holds on every path (if it fails, AssertionError escapes %s unhandled)' % (rule, rs.text[:70], rs.func.short, root.short)
    if msg not in ctx.floor_failures:
        ctx.floor_failures.append(msg)


def _is_logging_call(call):
    fn = call.func
    return isinstance(fn, ast.Attribute) and fn.attr in ('debug', 'info', 'warning', 'warn', 'error', 'exception', 'critical', 'log') \
        and isinstance(fn.value, ast.Name) and fn.value.id in ('logging', 'logger', 'log', '_logger', 'LOG')


def _inside_logging_argument(node):
    n = node
    par = getattr(n, '_parent', None)
    while par is not None and not isinstance(par, ast.stmt):
        if isinstance(par, ast.Call) and _is_logging_call(par) and n is not par.func:
            return True
        n, par = par, getattr(par, '_parent', None)
    return False


def is_observer(f):
    """a function that did not exist on the pinned tree and only reports: a docstring and one `return <expression>`, the expression without
    assignments (walrus), awaits, yields or lambdas (an accessor, a __repr__)"""
    from ..sim import is_new_function
    if f.is_module_body or not is_new_function(f):
        return False
    body = [st for st in f.node.body if not (isinstance(st, ast.Expr) and isinstance(st.value, ast.Constant) and isinstance(st.value.value, str))]
    if len(body) != 1 or not isinstance(body[0], ast.Return) or body[0].value is None:
        return False
    return not any(isinstance(x, (ast.NamedExpr, ast.Await, ast.Yield, ast.YieldFrom, ast.Lambda)) for x in ast.walk(body[0].value))


def effective_readers(repo, f, node, _seen=None):
    """Who reads the value that `node` (a load of a switch) yields in f?  f itself - unless the load is an argument of a logging call (the value
    only goes into a diagnostic) or f is a freshly added observer (is_observer), which stands for the places its result is used: its callers,
    by the same rule.  An observer nobody calls (a __repr__, an unused accessor) has no reader."""
    if _inside_logging_argument(node):
        return []
    if not is_observer(f):
        return [f]
    _seen = _seen if _seen is not None else set()
    if f in _seen:
        return []
    _seen.add(f)
    out = []
    cg = repo.callgraph()
    for g, s in cg.callers_of(f):
        for x in effective_readers(repo, g, s.node, _seen):
            if x not in out:
                out.append(x)
    return out


_ADDERS = ('append', 'insert', 'add', 'appendleft', 'extend_nonempty')
_SHRINKERS = ('pop', 'remove', 'discard', 'clear', 'popitem', 'popleft', 'extend', 'update', 'sort', 'reverse', '__delitem__')


def assert_cannot_fail_on_paths(repo, f, node):
    """Is every path of f on which the assertion `node` fails infeasible by the emptiness facts collected on that path?  The theory is tiny:
    a decision is read as a statement about whether one collection X is empty (truthiness or len(X) compared with 0 / 1, common.nonempty_atom);
    `X.append(..)` / `X.add(..)` / `X.insert(..)` makes X non-empty; any other mutator or a store to X forgets what was known.  A failing
    path that needs X both empty and non-empty cannot happen.  Returns the reason as text, or None (not established)."""
    try:
        paths = paths_of(repo, f, asserts='fork', unroll=1)
    except AnalysisError:
        return None
    failing = [p for p in paths if p.outcome and p.outcome[0] == 'raise' and any(e.kind == 'raise' and e.node is node for e in p.events)]
    if not failing or any(p.truncated for p in paths):
        return None
    for p in failing:
        facts = {}
        contradiction = False
        for e in p.events:
            if e.kind == 'raise' and e.node is node:
                break
            if e.kind == 'decide':
                for x in set(re.findall(r'len\(([^()]*(?:\([^()]*\))?[^()]*)\)', e.text)) | ({e.text} if re.match(r'^[\w.]+$', e.text) else set()):
                    pol = nonempty_atom(e.text, x)
                    if pol is None:
                        continue
                    val = (e.value == pol)
                    if x in facts and facts[x] != val:
                        contradiction = True
                    facts[x] = val
            elif e.kind == 'call' and e.ftext and '.' in e.ftext:
                recv, _, meth = e.ftext.rpartition('.')
                if meth in _ADDERS:
                    facts[recv] = True
                elif meth in _SHRINKERS:
                    facts.pop(recv, None)
            elif e.kind in ('store', 'del') and e.target:
                for x in list(facts):
                    if e.target == x or e.target.startswith(x + '[') or x.startswith(e.target + '.'):
                        facts.pop(x, None)
            if contradiction:
                break
        if not contradiction:
            return None
    return 'on every path where it would fail the same collection would have to be both empty and non-empty'


# ------------------------------------------------------------------------------------------------------------------------------
# in-place mutation of an object reachable through a parameter (a small may-alias / may-mutate summary per function)
# ------------------------------------------------------------------------------------------------------------------------------
_MUTATING_METHODS = {'append', 'extend', 'insert', 'pop', 'remove', 'clear', 'add', 'discard', 'update', 'sort', 'reverse', 'setdefault', 'popitem'}


def mutation_summaries(repo):
    """{FuncInfo: (mut, ret)}: mut = indices of the parameters (self is 0 for methods) whose object the function may change in place - an
    attribute store / augmented store / container mutation through the parameter or a local alias of it, or passing it on to a parameter that is
    mutated; ret = indices of the parameters the function may return (so that `x = g(p)` can make x an alias of p).  Fixpoint over the call graph."""
    k = ('mutsum', id(repo))
    if k in _cache:
        return _cache[k]
    cg = repo.callgraph()
    funcs = [f for f in repo.all_funcs() if not f.is_module_body]
    summ = {f: (set(), set()) for f in funcs}

    def callee_effects(f, call):
        """[(target FuncInfo, {param index: argument node})]"""
        site = cg.site_of(f, call)
        out = []
        if site is None:
            return out
        for g in cg.targets(site):
            if g not in summ:
                continue
            ps = g.params()
            off = 0
            amap = {}
            if g.cls is not None and not g.is_static() and ps and isinstance(call.func, ast.Attribute) and site.kind != 'ctor':
                amap[0] = call.func.value
                off = 1
            elif site.kind == 'ctor':
                off = 1
            for i, a in enumerate(call.args):
                if isinstance(a, ast.Starred):
                    break
                amap[off + i] = a
            for kw in call.keywords:
                if kw.arg in ps:
                    amap[ps.index(kw.arg)] = kw.value
            out.append((g, amap))
        return out

    changed = True
    rounds = 0
    while changed and rounds < 12:
        changed = False
        rounds += 1
        for f in funcs:
            ps = f.params()
            mut, ret = summ[f]
            for i, pname in enumerate(ps):
                alias = {pname}
                grew = True
                nodes = list(f.body_nodes())
                while grew:
                    grew = False
                    for n in nodes:
                        if isinstance(n, ast.Assign) and len(n.targets) == 1 and isinstance(n.targets[0], ast.Name) and n.targets[0].id not in alias:
                            v = n.value
                            srcs = [v] + ([v.body, v.orelse] if isinstance(v, ast.IfExp) else [])
                            hit = any(isinstance(x, ast.Name) and x.id in alias for x in srcs)
                            if not hit and isinstance(v, ast.Call):
                                for g, amap in callee_effects(f, v):
                                    if any(isinstance(a, ast.Name) and a.id in alias and j in summ[g][1] for j, a in amap.items()):
                                        hit = True
                            if hit:
                                alias.add(n.targets[0].id)
                                grew = True
                is_alias = lambda x: isinstance(x, ast.Name) and x.id in alias
                m = False
                for n in nodes:
                    if isinstance(n, (ast.Assign, ast.AugAssign, ast.AnnAssign)):
                        for t in (n.targets if isinstance(n, ast.Assign) else [n.target]):
                            base = t
                            while isinstance(base, (ast.Attribute, ast.Subscript)):
                                base = base.value
                            if base is not t and is_alias(base):
                                m = True
                    elif isinstance(n, ast.Delete):
                        for t in n.targets:
                            base = t
                            while isinstance(base, (ast.Attribute, ast.Subscript)):
                                base = base.value
                            if base is not t and is_alias(base):
                                m = True
                    elif isinstance(n, ast.Call):
                        fn = n.func
                        if isinstance(fn, ast.Attribute) and fn.attr in _MUTATING_METHODS:
                            base = fn.value
                            while isinstance(base, (ast.Attribute, ast.Subscript)):
                                base = base.value
                            if is_alias(base) and base is not fn.value:
                                m = True        # p.items.append(..): the parameter's own state (p.append(..) on a list parameter counts too)
                            elif is_alias(fn.value):
                                m = True
                        for g, amap in callee_effects(f, n):
                            if any(is_alias(a) and j in summ[g][0] for j, a in amap.items()):
                                m = True
                    elif isinstance(n, ast.Return) and n.value is not None:
                        v = n.value
                        srcs = [v] + ([v.body, v.orelse] if isinstance(v, ast.IfExp) else [])
                        if any(is_alias(x) for x in srcs) and i not in ret:
                            ret.add(i)
                            changed = True
                        if isinstance(v, ast.Call):
                            for g, amap in callee_effects(f, v):
                                if any(is_alias(a) and j in summ[g][1] for j, a in amap.items()) and i not in ret:
                                    ret.add(i)
                                    changed = True
                if m and i not in mut:
                    mut.add(i)
                    changed = True
    _cache[k] = (summ, callee_effects)
    return _cache[k]


def check_not_mutated_in_place(ctx, rule, attr, what, allowed_mutators=()):
    """The object held in `<x>.attr` (e.g. the current filter) is changed only by storing a new object into the attribute (who may do that is a
    writer rule): no load of the attribute - directly or through a local alias - flows into a position that is mutated in place (the receiver
    or an argument of a call whose callee changes that parameter's object, mutation_summaries)."""
    repo = ctx.repo
    summ, callee_effects = mutation_summaries(repo)
    n_uses = 0
    for f in repo.all_funcs():
        if f.is_module_body:
            continue
        nodes = list(f.body_nodes())
        loads = [n for n in nodes if isinstance(n, ast.Attribute) and n.attr == attr and isinstance(n.ctx, ast.Load)]
        if not loads:
            continue
        alias = set()
        for n in nodes:
            if isinstance(n, ast.Assign) and len(n.targets) == 1 and isinstance(n.targets[0], ast.Name) and n.value in loads:
                alias.add(n.targets[0].id)
        holds = lambda x: x in loads or (isinstance(x, ast.Name) and x.id in alias)
        for n in nodes:
            if not isinstance(n, ast.Call):
                continue
            for g, amap in callee_effects(f, n):
                for j, a in amap.items():
                    if holds(a):
                        n_uses += 1
                        bad = j in summ[g][0] and g.short not in allowed_mutators
                        ctx.check(not bad, rule, '%s:not-mutated-in-place:%s->%s' % (attr, f.short, g.short), f.loc(n),
                                  '%s is handed to %s in a position that is only read' % (what, g.short),
                                  '%s is handed to %s as `%s`, which that function changes in place: %s changes without being replaced' % (what, g.short, g.params()[j], what))
    ctx.floor(rule, n_uses, 2, 'calls that receive %s' % what)


def confirm_scenarios(rule, probs, mapper, irrelevant=()):
    """A scenario rule (sim.check_reach) found a path whose outcome contradicts the table.  The finding stands only when the table could read
    the path: every decision on it is one the mapper knows, or one of the frozen decisions that do not bear on the rule (`irrelevant`, regular
    expressions confirmed on the pinned tree).  A path that hangs on a decision the table has no column for - the function was rewritten around
    other tests - cannot be compared with the table: the clause is undecided (AnalysisError), not violated."""
    for q in probs:
        path = q[0]
        unknown = [a.text for a, v in path.decisions if mapper(a) is None and not any(re.match(r_, a.text) for r_ in irrelevant)]
        if unknown:
            raise AnalysisError('%s: the function decides on `%s`, which the scenario table of the rule does not know' % (rule, unknown[0][:100]))
    return probs


_LAZY_BUILTINS = ('filter', 'map', 'zip', 'reversed', 'iter', 'enumerate')


def lazy_iterator_truth_tests(f):
    """truth tests of a local that only ever holds a lazy iterator (filter / map / zip / reversed / iter / enumerate object, generator
    expression): such an object is true whether or not it will yield anything, so `if xs:` does not ask "are there any" - [(name, test node)]"""
    lazy, other = {}, set()
    nodes = list(f.body_nodes())
    for n in nodes:
        if isinstance(n, (ast.Assign, ast.AnnAssign, ast.AugAssign)):
            tg = n.targets if isinstance(n, ast.Assign) else [n.target]
            for t in tg:
                for x in ast.walk(t):
                    if isinstance(x, ast.Name) and isinstance(x.ctx, ast.Store):
                        v = getattr(n, 'value', None)
                        if isinstance(n, ast.Assign) and len(tg) == 1 and t is x and v is not None and (
                                isinstance(v, ast.GeneratorExp) or (isinstance(v, ast.Call) and isinstance(v.func, ast.Name) and v.func.id in _LAZY_BUILTINS)):
                            lazy.setdefault(x.id, []).append(n)
                        else:
                            other.add(x.id)
        elif isinstance(n, (ast.For, ast.comprehension)):
            for x in ast.walk(n.target):
                if isinstance(x, ast.Name):
                    other.add(x.id)
    names = {k for k in lazy if k not in other and k not in f.params()}
    out = []
    for n in nodes:
        tests = []
        if isinstance(n, (ast.If, ast.While, ast.IfExp)):
            tests.append(n.test)
        elif isinstance(n, ast.Assert):
            tests.append(n.test)
        for t in tests:
            stack = [t]
            while stack:
                x = stack.pop()
                if isinstance(x, ast.BoolOp):
                    stack.extend(x.values)
                elif isinstance(x, ast.UnaryOp) and isinstance(x.op, ast.Not):
                    stack.append(x.operand)
                elif isinstance(x, ast.Name) and x.id in names:
                    out.append((x.id, n))
    return out
