"""C13 - file, pipe and run modes show the same thing; run mode is transparent."""
import ast
import re

from ..core import AnalysisError, norm
from .common import (effects, paths_of, check_writers, arg_by_name, named_call_sites, call_sites_of)


def _const_text(repo, f, e):
    """the text of a keyword value, with a module-level constant replaced by its value"""
    if isinstance(e, (ast.Name, ast.Attribute)):
        r_ = repo.resolve_expr_static(f.module, e)
        if r_ and r_[0] == 'var' and isinstance(r_[1], ast.Constant):
            return norm(r_[1])
    return norm(e)


def run(ctx):
    repo = ctx.repo
    cg = repo.callgraph()
    ctx.decided = ['C13.1 one pipeline for the three log modes', 'C13.2 line reassembly is delegated to the text stream', 'C13.3 child start is transparent',
                   'C13.4 exit status is the child\'s']
    ctx.undecided = ['timing/chunking as an observable equality (delegated to io.TextIOWrapper.readline)', 'the one-second join timeout']
    ctx.assumptions = ['io.TextIOWrapper.readline reassembles lines independently of how bytes are chunked (CPython, trusted)']
    f_main = repo.func('main.main')
    mpaths = paths_of(repo, f_main, asserts='fork')
    mode_cls = repo.cls('frontends.tui.arguments.Mode')
    members = [k for k in mode_cls.class_attrs]
    ctx.floor('C13.1', len(members), 5, 'Mode members')
    # ---- C13.1 -------------------------------------------------------------------------------------------
    handled = {}
    for p in mpaths:
        sel = [a.text for a, v in p.decisions if v and re.match(r'^Mode\.\w+ == args\.mode$', a.text)]
        if sel and p.outcome[0] != 'raise':
            handled[sel[-1].split(' ')[0].split('.')[1]] = p
    for m in members:
        ctx.check(m in handled, 'C13.1', 'mode-handled:%s' % m, f_main.loc(), 'mode %s has a branch in main()' % m, 'mode %s falls through to the invalid-mode assertion' % m)
    entry = {'LOAD_FROM_FILE': ('file_input_main', ['args.load_path', 'output', 'CM', 'CTL', 'CTL', 'input_func']),
             'PIPE': ('piped_input_main', ['output', 'CM']),
             'RUN': ('run_program', ['output', 'args', 'CM', 'CTL', 'CTL', 'input_func'])}
    for mode, (fn, want) in entry.items():
        p = handled.get(mode)
        if p is None:
            continue
        calls = [e for e in p.events if e.kind == 'call' and e.ftext == fn]
        cms = [e for e in p.events if e.kind == 'call' and e.ftext == 'ConnectionManager']
        ctls = [e for e in p.events if e.kind == 'call' and e.ftext == 'Controller']
        ok = len(calls) == 1 and len(cms) == 1 and len(ctls) == 1
        if ok:
            # the call events carry the arguments in parameter order with locals replaced by what they hold
            cm_t, ctl_t = cms[0].text, ctls[0].text
            got = [{cm_t: 'CM', ctl_t: 'CTL'}.get(norm(a), norm(a)) for a in calls[0].args]
            # the pinned parameters receive the run's one output / manager / controller, in their positions; parameters the entry function gained
            # since (a switch for an additional report, say) may follow - they do not say what is fed to whom
            pinned_n = len(want)
            extra_ok = all(isinstance(a, (ast.Constant, ast.Attribute, ast.Name)) for a in calls[0].args[pinned_n:]) and \
                all(isinstance(v, (ast.Constant, ast.Attribute, ast.Name)) for v in calls[0].kwargs.values())
            ok = got[:pinned_n] == want and extra_ok and len(ctls[0].args) >= 2 and norm(ctls[0].args[0]) == 'output' and norm(ctls[0].args[1]) == cm_t
        ctx.check(ok, 'C13.1', 'pipeline:%s' % mode, f_main.loc(calls[0].node if calls else None),
                  'mode %s feeds the one ConnectionManager / Controller / Output of this run through %s' % (mode, fn),
                  'mode %s is wired as %s' % (mode, [e.text[:100] for e in calls]))
        lp = [e for e in p.events if e.calls('protocol.load_all')]
        ctx.check(len(lp) == 1 and p.events.index(lp[0]) < p.events.index(calls[0]) if calls else False, 'C13.1', 'protocols-loaded-first:%s' % mode, f_main.loc(), 'protocol descriptions are loaded before input is processed')
    # (os.fdopen(fd, ..) is open(fd, ..): the standard library defines the former as a call of the latter)
    streams = {'main.piped_input_main': ('sys.stdin', 'open(sys.stdin.fileno()', 'os.fdopen(sys.stdin.fileno()'), 'main.file_input_main': ('open(file_path',),
               'runner.run_program': ('os.fdopen(os.pipe()[0]', 'open(os.pipe()[0]')}
    configs = {}
    for q, stream in streams.items():
        f = repo.func(q)
        n = 0
        for p in paths_of(repo, f, asserts='ignore'):
            if p.outcome[0] == 'raise':
                continue
            calls = [e for e in p.events if e.calls('parse.into_sink')]
            n += 1
            a0 = calls[0].argtext(0) or '' if calls else ''
            ok = len(calls) == 1 and a0.startswith(stream) and calls[0].argtext(1) in ('output',) and calls[0].argtext(2) == 'connection_id_sink'
            ctx.check(ok, 'C13.1', 'into_sink:%s' % f.name, f.loc(calls[0].node if calls else None), '%s parses its stream exactly once into the given output and sink' % f.name,
                      '%s calls %s' % (f.name, [e.text[:120] for e in calls]))
            # the same bytes must decode to the same text in all three modes: encoding / errors / newline of the three streams agree
            # (read from what the stream argument holds on the path, through locals, `with .. as` and freshly extracted helpers)
            for e in calls[:1]:
                src = e.args[0] if e.args else None
                cfg = {'encoding': 'locale default', 'errors': 'strict', 'newline': 'default'}
                if isinstance(src, ast.Call):
                    for k in src.keywords:
                        if k.arg in cfg:
                            cfg[k.arg] = _const_text(repo, f, k.value)
                elif norm(src) == 'sys.stdin':
                    cfg['errors'] = 'interpreter default'
                configs.setdefault(f.qual, set()).add(tuple(sorted(cfg.items())))
        ctx.floor('C13.1', n, 1, 'normal path of ' + q)
    vals = set()
    for c in configs.values():
        vals |= c
    ctx.check(len(vals) == 1, 'C13.1', 'streams:same-decoding', repo.func('parse.into_sink').loc(),
              'file, pipe and run mode decode their input with the same encoding / error handler / newline mode (%s)' % dict(next(iter(vals))) if vals else '',
              'the three input modes decode the same bytes differently: %s' % {k: [dict(x) for x in v] for k, v in configs.items()})
    # exactly the three log modes enter the parser (a freshly extracted helper stands for its callers)
    from .common import effective_funcs
    callers = call_sites_of(repo, lambda t: t.qual.endswith('parse.into_sink'))
    eff = []
    for f_, s_ in callers:
        for g in effective_funcs(repo, f_):
            if g not in eff:
                eff.append(g)
    ctx.check(sorted(g.qual for g in eff) == sorted(repo.func(q).qual for q in streams), 'C13.1', 'into_sink:three-callers', repo.func('parse.into_sink').loc(),
              'exactly the three log modes enter the parser', 'into_sink is entered from %s' % sorted(g.short for g in eff))
    # ---- C13.2 -------------------------------------------------------------------------------------------
    pm = repo.modules['backends.libwayland_debug_output.parse']
    bad = []
    nio = 0
    for f in repo.all_funcs():
        if f.module is not pm and not f.qual.startswith(pm.name + '.'):
            continue            # (a reader class that moved to a module of its own keeps its pinned qualified name)
        for n in f.body_nodes():
            if isinstance(n, ast.Call) and isinstance(n.func, ast.Attribute):
                if n.func.attr in ('read', 'read1', 'readinto', 'readlines', 'recv', 'peek') or norm(n.func) in ('os.read', 'select.select'):
                    bad.append((f, n))
                if n.func.attr == 'readline':
                    nio += 1
                    if n.args or n.keywords:
                        bad.append((f, n))
            if isinstance(n, ast.Attribute) and n.attr in ('buffer', 'raw', 'fileno'):
                bad.append((f, n))
            if isinstance(n, (ast.For, ast.comprehension)) and norm(n.iter) in ('input_file',):
                bad.append((f, n))
    ctx.check(not bad, 'C13.2', 'parser:readline-only', repo.func('Parser.parse_all').loc(), 'the parser consumes its input only through readline() without a size limit',
              'the parser reads its input by other means: %s' % [(f.short, norm(n)[:40]) for f, n in bad][:3])
    ctx.floor('C13.2', nio, 1, 'readline call in the parser')
    # ---- C13.3 -------------------------------------------------------------------------------------------
    # words after -r belong to the program even when they look like our options: the split takes the first marker position
    from .c19 import check_split
    check_split(ctx, 'C13.3')
    f_run = repo.func('_Subprocess.run')
    rp = paths_of(repo, f_run)
    nrun = 0
    for p in rp:
        calls = [e for e in p.events if e.kind == 'call' and e.ftext in ('subprocess.run', 'subprocess.Popen', 'subprocess.call', 'subprocess.check_call', 'os.system', 'os.execvp')]
        # (subprocess.call(..) is subprocess.run(..).returncode: the same start, waited for, without the result object)
        ctx.check(len(calls) == 1 and calls[0].ftext in ('subprocess.run', 'subprocess.call'), 'C13.3', 'child:one-subprocess.run', f_run.loc(), 'the program is started once with subprocess.run',
                  'the program is started by %s' % [e.text[:60] for e in calls])
        for e in calls[:1]:
            nrun += 1
            c = e.node
            # (read from the call EVENT: locals holding the list or the keyword values are looked through)
            ctx.check(len(e.args) == 1 and norm(e.args[0]) == 'self.args.command_args', 'C13.3', 'child:argv-verbatim', f_run.loc(c), 'argv is the forwarded argument list itself',
                      'argv is %s' % [norm(a)[:60] for a in e.args])
            kws = {k_: norm(v_) for k_, v_ in e.kwargs.items()}
            ctx.check(set(kws) <= {'stderr', 'env', 'bufsize'} and kws.get('stderr') == 'self.stderr_fd', 'C13.3', 'child:keywords', f_run.loc(c),
                      'only stderr (our pipe), env and bufsize are set: stdout/stdin untouched, no shell, no check', 'subprocess.run keywords are %s' % kws)
            idx = p.events.index(e)
            envsym = e.kwargs.get('env')
            envtxt = norm(envsym)
            same_obj = lambda x: x.recv is not None and norm(x.recv) == envtxt and getattr(x.recv, '_ep', None) == getattr(envsym, '_ep', None)
            env_stores = [x for x in p.events[:idx] if x.kind in ('store', 'del') and same_obj(x)]
            wd = [x for x in env_stores if x.kind == 'store' and x.target == envtxt + "['WAYLAND_DEBUG']" and norm(x.value) == "'1'"]
            muts = [x for x in p.events[:idx] if x.kind == 'call' and x.recv is not None and norm(x.recv) == envtxt and x.ftext and x.ftext.split('.')[-1] in ('update', 'pop', 'clear', 'setdefault', 'popitem')]
            # variables the user asked for (an option carried in the parsed arguments) may be merged in BEFORE WAYLAND_DEBUG is set: what the
            # property promises - WAYLAND_DEBUG=1 in the child's environment - still holds whatever they contain
            if wd:
                i_wd = p.events.index(wd[0])
                muts = [x for x in muts if not (x.ftext.split('.')[-1] == 'update' and len(x.args) == 1 and not x.kwargs and norm(x.args[0]).startswith('self.args.') and p.events.index(x) < i_wd)]
            ctx.check(envtxt in ('os.environ.copy()', 'dict(os.environ)', '{**os.environ}') and len(wd) == 1 and env_stores[-1:] and (wd[0] is env_stores[-1] or all("'WAYLAND_DEBUG'" not in (x.target or '') for x in env_stores[env_stores.index(wd[0]) + 1:])) and not muts,
                      'C13.3', 'child:env', f_run.loc(c),
                      'the environment is a copy of ours with WAYLAND_DEBUG=1 stored unconditionally before the start', 'environment is %s / WAYLAND_DEBUG stores %s / other mutations %s' % (envtxt[:60], [x.text for x in wd], [x.text[:40] for x in muts]))
            others = [x for x in env_stores if x not in wd]
            ctx.check(all("'LD_LIBRARY_PATH'" in (x.target or '') for x in others), 'C13.3', 'child:env-other-vars', f_run.loc(c), 'no other variable of the child is changed except LD_LIBRARY_PATH',
                      'child environment also changes %s' % [x.text[:60] for x in others])
            closes = [x for x in p.events[idx:] if x.kind == 'call' and x.ftext == 'os.close' and x.argtext(0) == 'self.stderr_fd']
            ctx.check(len(closes) == 1, 'C13.3', 'child:write-end-closed-after', f_run.loc(c), 'our write end of the pipe is closed after the child returned (so the reader sees end of input)')
            st = [x for x in p.events[idx:] if x.kind == 'store' and x.target == 'self.returncode']
            from_run = len(st) == 1 and norm(st[0].value).endswith(').returncode') and norm(st[0].value).startswith('subprocess.run(') and getattr(getattr(st[0].value, 'value', None), '_ep', None) == e.ep
            from_call = len(st) == 1 and e.ftext == 'subprocess.call' and norm(st[0].value).startswith('subprocess.call(') and getattr(st[0].value, '_ep', None) == e.ep
            ctx.check(from_run or from_call, 'C13.4', 'status:from-child', f_run.loc(c),
                      'returncode <- subprocess.run(...).returncode of that very run', 'returncode <- %s' % [norm(x.value)[:60] for x in st])
    ctx.floor('C13.3', nrun, 1, 'subprocess.run call')
    f_rp = repo.func('runner.run_program')
    for p in paths_of(repo, f_rp, asserts='ignore'):
        ev = p.events
        pipe = [i for i, e in enumerate(ev) if e.kind == 'call' and e.ftext == 'os.pipe']
        sp = [i for i, e in enumerate(ev) if e.kind == 'call' and e.ftext == '_Subprocess']
        start = [i for i, e in enumerate(ev) if e.kind == 'call' and e.ftext and e.ftext.endswith('.start')]
        parse = [i for i, e in enumerate(ev) if e.calls('parse.into_sink')]
        join = [i for i, e in enumerate(ev) if e.kind == 'call' and e.ftext and e.ftext.endswith('.join') and 'Thread' in e.ftext]
        ok = len(pipe) == 1 and len(sp) == 1 and len(start) == 1 and len(parse) == 1 and len(join) == 1 and start[0] < parse[0] < join[0]
        ctx.check(ok, 'C13.4', 'run_program:start-parse-join', f_rp.loc(), 'the child thread is started before parsing and joined after the parser saw end of input',
                  'run_program ordering is start=%s parse=%s join=%s' % (start, parse, join))
        if ok:
            ctx.check([norm(a) for a in ev[sp[0]].args] == ['args', 'os.pipe()[1]'] and ev[parse[0]].argtext(0).startswith(("os.fdopen(os.pipe()[0]", "open(os.pipe()[0]")), 'C13.3', 'run_program:pipe-ends', f_rp.loc(),
                      'the child writes stderr into the pipe end whose other end is parsed', 'pipe ends: child gets %s, parser gets %s' % ([norm(a) for a in ev[sp[0]].args], ev[parse[0]].argtext(0)))
            th = [e for e in ev if e.kind == 'call' and e.ftext == 'threading.Thread']
            ctx.check(len(th) == 1 and norm(th[0].kwargs.get('target')) == "_Subprocess(args, os.pipe()[1]).run", 'C13.3', 'run_program:thread-runs-child', f_rp.loc(), 'the thread runs the subprocess object\'s run()')
        ctx.check(p.outcome[0] == 'return' and norm(p.outcome[1]) == '_Subprocess(args, os.pipe()[1]).returncode', 'C13.4', 'run_program:returns-status', f_rp.loc(),
                  'run_program returns the child\'s status', 'run_program returns %s' % p.outcome_text()[:80])
    p = handled.get('RUN')
    if p is not None:
        ex = [e for e in p.events if e.kind == 'call' and e.ftext == 'exit']
        ctx.check(len(ex) == 1 and isinstance(ex[0].args[0], ast.Call) and norm(ex[0].args[0].func) == 'run_program', 'C13.4', 'main:exit-with-status', f_main.loc(), 'main exits with exactly the status run_program returned',
                  'main exits with %s' % [e.text[:80] for e in ex])
    check_writers(ctx, 'C13.4', 'backends.libwayland_debug_output.runner._Subprocess', 'returncode', [('_Subprocess.__init__', lambda w: w.fresh), ('_Subprocess.run', None)], floor=2)
    # "all of its output is processed even if it exits immediately": the one reader of all three modes keeps reading until the input has ended -
    # the read loop is left only at end of input or on Ctrl-C (the loop-exit rule of C08.3, evaluated here on the same paths)
    from .c08 import check_loop_exits as _cle, parse_all_paths as _pap
    _cle(ctx, 'C13.4', _pap(ctx))

    return ('call-structure of main() over all Mode members, provenance of the child\'s argv/env/stderr and of the exit status, structural read '
            'discipline of the parser. Decided: %s. Undecided: %s' % ('; '.join(ctx.decided), '; '.join(ctx.undecided)))
